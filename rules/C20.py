"""C20 — race comparison reports signed differences with the right direction (DESIGN.md section 4, C20)."""
from __future__ import annotations

import ast
import itertools
import re

from sa import pat, source
from sa.cfg import cfg_of, guards
from sa.source import AnchorMissing, arg_of, bind_args, dotted, is_self_attr, last_attr, local_defs, params_of, short, u, walk_body
from sa.sym import UnknownAtom, atoms_of, bool_eval, comparison
from sa.tables import Unsupported, decide

_R = "esrally/reporter.py"


def label_text(e):
    """constant text of a metric label (string, f-string heads, '%'-format left side)."""
    if isinstance(e, ast.Constant) and isinstance(e.value, str):
        return e.value
    if isinstance(e, ast.JoinedStr):
        return "".join(p.value if isinstance(p, ast.Constant) else (p.value.value if isinstance(p, ast.FormattedValue) and isinstance(p.value, ast.Constant) and isinstance(p.value.value, str) else "{}")
                       for p in e.values)
    if isinstance(e, ast.BinOp) and isinstance(e.op, ast.Mod):
        return label_text(e.left)
    return None


class Roles:
    """Which of the two compared races (B = baseline, C = contender) an expression's value can come from."""

    def __init__(self, cls_methods, line_names):
        self.methods = cls_methods
        self.param_roles: dict[tuple[str, str], set] = {}
        self.line_names = line_names
        self.depth = 0
        self.memo: dict = {}
        self.opaque: set = set()  # methods whose calls are not followed (the line constructors themselves)

    def env_for(self, func, outer=None, params=None):
        """roles of the names of a function; params: roles of its parameters at ONE call (instead of the union over all callers)"""
        env = dict(outer or {})
        for p in params_of(func):
            r = self.param_roles.get((func.name, p)) if params is None else params.get(p)
            if r is not None:
                env[p] = set(r)
        # locals: iterate to a fixed point
        for _ in range(4):
            for n in source.walk_local(func, include_root=False) if False else walk_body(func):
                if isinstance(n, ast.Assign):
                    d = self.deps(n.value, env)
                    for t in n.targets:
                        # unpacking of a pair built element by element (`b, c = (s.metrics(task)["latency"] for s in (baseline_stats, contender_stats))`, a display, a helper
                        # that returns a tuple display): every name gets the roles of ITS element, not of the whole value
                        parts = self.parts(n.value, env, len(t.elts)) if isinstance(t, (ast.Tuple, ast.List)) else None
                        if parts is not None:
                            for t_, d_ in zip(t.elts, parts):
                                for x in ast.walk(t_):
                                    if isinstance(x, ast.Name):
                                        env[x.id] = env.get(x.id, set()) | d_
                            continue
                        for x in ast.walk(t):
                            if isinstance(x, ast.Name):
                                env[x.id] = env.get(x.id, set()) | d
                            elif isinstance(x, ast.Subscript) and isinstance(x.value, ast.Name):
                                env[x.value.id] = env.get(x.value.id, set()) | d
                elif isinstance(n, (ast.For, ast.comprehension)):
                    d = self.deps(n.iter, env)
                    for x in ast.walk(n.target):
                        if isinstance(x, ast.Name):
                            env[x.id] = env.get(x.id, set()) | d
                elif isinstance(n, ast.Call) and isinstance(n.func, ast.Attribute) and n.func.attr in ("append", "extend", "setdefault", "add") and isinstance(n.func.value, ast.Name):
                    d = set()
                    for a in n.args:
                        d |= self.deps(a, env)
                    env[n.func.value.id] = env.get(n.func.value.id, set()) | d
        return env

    def parts(self, v, env, k):
        """the roles of each of the k elements of a value that is built element by element: a tuple / list display, a comprehension over a literal display of k elements, or a
        call of a helper method whose returns are all displays of k elements; None for any other value"""
        if isinstance(v, (ast.Tuple, ast.List)):
            return [self.deps(x, env) for x in v.elts] if len(v.elts) == k and not any(isinstance(x, ast.Starred) for x in v.elts) else None
        if isinstance(v, (ast.ListComp, ast.GeneratorExp)) and len(v.generators) == 1 and not v.generators[0].ifs and isinstance(v.generators[0].iter, (ast.Tuple, ast.List)) and \
                len(v.generators[0].iter.elts) == k and not any(isinstance(x, ast.Starred) for x in v.generators[0].iter.elts):
            out = []
            tgt = v.generators[0].target
            for el in v.generators[0].iter.elts:
                env2 = dict(env)
                if isinstance(tgt, ast.Name):
                    env2[tgt.id] = self.deps(el, env)
                elif isinstance(tgt, (ast.Tuple, ast.List)) and isinstance(el, (ast.Tuple, ast.List)) and len(el.elts) == len(tgt.elts) and all(isinstance(x, ast.Name) for x in tgt.elts):
                    for x, y in zip(tgt.elts, el.elts):
                        env2[x.id] = self.deps(y, env)
                else:
                    return None
                out.append(self.deps(v.elt, env2))
            return out
        callee = self.methods.get(v.func.attr) if isinstance(v, ast.Call) and isinstance(v.func, ast.Attribute) and isinstance(v.func.value, ast.Name) and v.func.value.id == "self" else None
        if callee is not None and callee.name not in self.opaque and self.depth < 3 and not callee.args.vararg and not callee.args.kwarg and \
                not any(isinstance(a, ast.Starred) for a in v.args) and not any(kw.arg is None for kw in v.keywords):
            rets = [r.value for r in walk_body(callee) if isinstance(r, ast.Return)]
            if rets and all(isinstance(r, (ast.Tuple, ast.List)) and len(r.elts) == k and not any(isinstance(x, ast.Starred) for x in r.elts) for r in rets):
                penv = {p: frozenset(self.deps(a, env)) for p, a in bind_args(v, callee).items()}
                self.depth += 1
                try:
                    cenv = self.env_for(callee, params=penv)
                    return [set().union(*[self.deps(r.elts[i], cenv) for r in rets]) for i in range(k)]
                finally:
                    self.depth -= 1
        return None

    def deps(self, e, env):
        if e is None:
            return set()
        if isinstance(e, ast.Name):
            return set(env.get(e.id, set()))
        if isinstance(e, ast.Attribute):
            return self.deps(e.value, env)
        if isinstance(e, ast.Subscript):
            return self.deps(e.value, env)  # the container decides the role, not the key
        if isinstance(e, ast.Call):
            if isinstance(e.func, ast.Attribute) and e.func.attr in ("get", "metrics", "items", "values", "keys", "tasks") and not (isinstance(e.func.value, ast.Name) and e.func.value.id == "self"):
                return self.deps(e.func.value, env)
            if dotted(e.func) == "getattr":
                return self.deps(e.args[0], env)
            d = set()
            for a in list(e.args) + [k.value for k in e.keywords]:
                d |= self.deps(a, env)
            if isinstance(e.func, ast.Attribute) and not (isinstance(e.func.value, ast.Name) and e.func.value.id == "self"):
                d |= self.deps(e.func.value, env)
            # a helper method of the reporter (`self.m(...)`): the roles of what it RETURNS for the roles of the arguments at this call (an extracted lookup such as
            # `self._record(race, task)` has the role of the race, not of every argument); a helper this cannot be done for keeps the union of its arguments
            callee = self.methods.get(e.func.attr) if isinstance(e.func, ast.Attribute) and isinstance(e.func.value, ast.Name) and e.func.value.id == "self" else None
            if callee is not None and callee.name not in self.opaque and self.depth < 3 and not callee.args.vararg and not callee.args.kwarg and \
                    not any(isinstance(a, ast.Starred) for a in e.args) and not any(k.arg is None for k in e.keywords):
                rets = [r.value for r in walk_body(callee) if isinstance(r, ast.Return) and r.value is not None]
                penv = {p: frozenset(self.deps(a, env)) for p, a in bind_args(e, callee).items()}
                key = (callee.name, tuple(sorted(penv.items())))
                if key not in self.memo:
                    self.memo[key] = None  # a recursive call keeps the union
                    self.depth += 1
                    try:
                        got = set()
                        if rets:
                            cenv = self.env_for(callee, params=penv)
                            for r in rets:
                                got |= self.deps(r, cenv)
                        self.memo[key] = got
                    finally:
                        self.depth -= 1
                got = self.memo[key]
                if got and got <= d:
                    return set(got)
            return d
        if isinstance(e, ast.Constant):
            return set()
        if isinstance(e, ast.IfExp):
            # the VALUE is one of the two arms; the test only decides which (`idx[key] if key in idx else ()` with the key read from the other race is still a value of
            # the race the index was built from) - as with the filter of a comprehension
            return self.deps(e.body, env) | self.deps(e.orelse, env)
        d = set()
        for c in ast.iter_child_nodes(e):
            if isinstance(c, ast.expr):
                d |= self.deps(c, env)
        return d


class _Sym:
    """an attribute of an imported module the analysed code refers to (console.format.green): a symbol; applying it to a text yields a _Styled value."""

    def __init__(self, name):
        self.name = name

    def __repr__(self):
        return self.name


class _Styled:
    """a colour function of the console module applied to a text."""

    def __init__(self, colour, text):
        self.colour = colour
        self.text = text

    def __repr__(self):
        return f"{self.colour}({self.text!r})"


class _Bound:
    """a method of the analysed class bound to the object it was taken from (`obj.m`; obj is None for a static method), or a module-level function of the analysed module:
    a callable VALUE of the interpreted code (may be stored in a local, returned in a tuple, looked up in a dict) whose call is interpreted in a fresh environment."""

    def __init__(self, fn, obj, static):
        self.fn, self.obj, self.static = fn, obj, static

    def __repr__(self):
        return f"<{self.fn.name}>"


def _is_static(fn):
    return any(dotted(d) == "staticmethod" for d in fn.decorator_list)


class _CaseFailed(Exception):
    pass


def _own_stmts(f):
    """statements of a (nested) function without docstring and logging statements."""
    from sa.classes import is_logging_stmt

    return [s_ for s_ in f.body if not is_logging_stmt(s_) and not (isinstance(s_, ast.Expr) and isinstance(s_.value, ast.Constant))]


class _Interp:
    """Evaluation of one small pure function of the analysed source on representative VALUES: control flow by tables.decide, expressions by minieval.ev.
    Local extension of minieval (which interprets no calls of user code): a call of a nested helper function / lambda of the analysed function is interpreted the
    same way (closure = the environment at the call), a callable supplied by the rule is applied, a dotted attribute of an imported module is a symbol (_Sym) whose
    call yields _Styled(symbol, text); conditional expressions and and/or are evaluated lazily. A helper METHOD of the analysed class (`<object>.m`, the object being the
    Record the rule passes as self; static methods included) and a module-level function of the analysed module are callable values too (_Bound): an extracted helper is
    interpreted together with its caller, in a fresh environment (parameters only). No function of the repository is executed."""

    def __init__(self, methods=None, funcs=None):
        self.trace = []  # (helper node, args, result) of every interpreted helper call (nested function, method, module-level function)
        self.applied = []  # (callable value, args, result) of every call of a callable of the analysed code (helpers and lambdas; not the symbols of imported modules)
        self.methods = methods or {}
        self.funcs = funcs or {}
        self.depth = 0

    def ev(self, e, env):
        from sa import minieval

        interp = self

        class R(ast.NodeTransformer):
            def visit_Attribute(self, n):
                d = dotted(n)
                if d is not None and d.split(".")[0] not in env:
                    return ast.Constant(value=_Sym(d))
                if isinstance(n.value, ast.Name) and isinstance(env.get(n.value.id), minieval.Record) and n.attr not in env[n.value.id].fields and n.attr in interp.methods:
                    m = interp.methods[n.attr]
                    if any(dotted(d_) not in ("staticmethod",) for d_ in m.decorator_list):
                        raise minieval.CannotEval(f"decorated method {m.name}")
                    return ast.Constant(value=_Bound(m, env[n.value.id], _is_static(m)))
                return self.generic_visit(n)

            def visit_Name(self, n):
                if isinstance(n.ctx, ast.Load) and n.id not in env and n.id in interp.funcs:
                    return ast.Constant(value=_Bound(interp.funcs[n.id], None, True))
                return n

            def visit_Lambda(self, n):
                return ast.Constant(value=n)

            def visit_IfExp(self, n):
                return self.visit(n.body if interp.ev(n.test, env) else n.orelse)

            def visit_BoolOp(self, n):
                v = None
                for x in n.values:
                    v = interp.ev(x, env)
                    if bool(v) != isinstance(n.op, ast.And):
                        break
                return ast.Constant(value=v)

            def _comp(self, n):
                # a comprehension / generator expression is expanded here (its variables are local to it): iterables, conditions and the element are interpreted per element
                results = []

                def rec(i, env_):
                    if i == len(n.generators):
                        results.append((interp.ev(n.key, env_), interp.ev(n.value, env_)) if isinstance(n, ast.DictComp) else interp.ev(n.elt, env_))
                        return
                    g = n.generators[i]
                    it = interp.ev(g.iter, env_)
                    if g.is_async or not isinstance(it, (list, tuple, set, frozenset, dict, str, range)):
                        raise minieval.CannotEval(f"{u(n)[:60]}: iterable")
                    for v in it:
                        env2 = dict(env_)
                        interp._bind(g.target, v, env2)
                        if all(interp.ev(c, env2) for c in g.ifs):
                            rec(i + 1, env2)

                rec(0, dict(env))
                try:
                    return ast.Constant(value=dict(results) if isinstance(n, ast.DictComp) else (set(results) if isinstance(n, ast.SetComp) else list(results)))
                except TypeError as x:
                    raise minieval.CannotEval(f"{u(n)[:60]}: {x}")

            visit_ListComp = visit_SetComp = visit_GeneratorExp = visit_DictComp = _comp

            def visit_Subscript(self, n):
                # a slice of a sequence value (`items[:1]`, `items[1:]`): taken on the value
                if isinstance(n.slice, ast.Slice) and isinstance(n.ctx, ast.Load):
                    seq = interp.ev(n.value, env)
                    lo, hi, st = (None if b_ is None else interp.ev(b_, env) for b_ in (n.slice.lower, n.slice.upper, n.slice.step))
                    if not isinstance(seq, (list, tuple, str)) or not all(b_ is None or (isinstance(b_, int) and not isinstance(b_, bool)) for b_ in (lo, hi, st)) or st == 0:
                        raise minieval.CannotEval(f"slice {u(n)[:60]}")
                    return ast.Constant(value=seq[slice(lo, hi, st)])
                return self.generic_visit(n)

            def visit_Call(self, n):
                if isinstance(n.func, ast.Name) and n.func.id == "getattr" and "getattr" not in env and 2 <= len(n.args) <= 3 and not n.keywords and not any(isinstance(a_, ast.Starred) for a_ in n.args):
                    # an attribute of a Record the rule supplies, selected by a computed name (`getattr(race, attribute)` in a table-driven loop)
                    obj, attr = interp.ev(n.args[0], env), interp.ev(n.args[1], env)
                    if isinstance(obj, minieval.Record) and isinstance(attr, str):
                        if attr in obj.fields:
                            return ast.Constant(value=obj.fields[attr])
                        if len(n.args) == 3:
                            return ast.Constant(value=interp.ev(n.args[2], env))
                    raise minieval.CannotEval(f"call {u(n)[:60]}")
                n = self.generic_visit(n)
                f = n.func
                fv = f.value if isinstance(f, ast.Constant) else (env.get(f.id) if isinstance(f, ast.Name) else None)
                if isinstance(fv, (_Sym, _Bound, ast.FunctionDef, ast.Lambda)) or callable(fv):
                    if any(k.arg is None for k in n.keywords):
                        raise minieval.CannotEval(f"call {u(n)[:60]}: ** arguments")
                    args = []
                    for a in n.args:
                        if isinstance(a, ast.Starred):
                            v = minieval.ev(a.value, env)
                            if not isinstance(v, (tuple, list)):
                                raise minieval.CannotEval(f"call {u(n)[:60]}: * of a non-sequence")
                            args += list(v)
                        else:
                            args.append(minieval.ev(a, env))
                    return ast.Constant(value=interp.call(fv, args, {k.arg: minieval.ev(k.value, env) for k in n.keywords}, env))
                return n

        return minieval.ev(R().visit(source.clone(e)), env)

    def call(self, fv, args, kw, env):
        from sa import minieval

        if isinstance(fv, _Sym):
            if len(args) != 1 or kw:
                raise minieval.CannotEval(f"{fv.name} applied to {len(args)} argument(s)")
            return _Styled(fv.name, args[0])
        if isinstance(fv, _Bound):
            if self.depth > 12:
                raise minieval.CannotEval(f"call depth at {fv.fn.name}")
            self.depth += 1
            try:
                r = self._apply(fv.fn, ([] if fv.static else [fv.obj]) + list(args), kw, {}, fresh=True)
            finally:
                self.depth -= 1
            self.trace.append((fv.fn, tuple(args), r))
            self.applied.append((fv, tuple(args), r))
            return r
        if isinstance(fv, (ast.FunctionDef, ast.Lambda)):
            r = self._apply(fv, args, kw, env)
            if isinstance(fv, ast.FunctionDef):
                self.trace.append((fv, tuple(args), r))
            self.applied.append((fv, tuple(args), r))
            return r
        try:
            return fv(*args, **kw)
        except (TypeError, ValueError, ArithmeticError) as x:
            raise minieval.CannotEval(f"supplied callable: {type(x).__name__}")

    def _apply(self, fv, args, kw, env, fresh=False):
        """the body of a function / lambda of the analysed code on argument values; fresh: a method or module-level function sees its parameters only, a nested helper the
        environment of the call (closure)."""
        from sa import minieval

        a = fv.args
        names = [x.arg for x in a.args]
        if a.vararg or a.kwarg or a.kwonlyargs or a.posonlyargs or len(args) > len(names):
            raise minieval.CannotEval(f"signature of {getattr(fv, 'name', 'lambda')}")
        bound = dict(zip(names, args))
        for k_, v_ in kw.items():
            if k_ not in names or k_ in bound:
                raise minieval.CannotEval(f"argument {k_} of {getattr(fv, 'name', 'lambda')}")
            bound[k_] = v_
        defaults = dict(zip(names[len(names) - len(a.defaults):], a.defaults))
        for nm in names:
            if nm not in bound:
                if nm not in defaults:
                    raise minieval.CannotEval(f"argument {nm} of {getattr(fv, 'name', 'lambda')} not supplied")
                bound[nm] = self.ev(defaults[nm], env)
        local = {} if fresh else dict(env)
        local.update(bound)
        return self.ev(fv.body, local) if isinstance(fv, ast.Lambda) else self.run(_own_stmts(fv), local)

    def _bind(self, t, v, env):
        from sa import minieval

        if isinstance(t, ast.Name):
            env[t.id] = v
        elif isinstance(t, (ast.Tuple, ast.List)) and isinstance(v, (tuple, list)) and len(v) == len(t.elts):
            for t_, v_ in zip(t.elts, v):
                self._bind(t_, v_, env)
        elif isinstance(t, ast.Subscript) and isinstance(t.value, ast.Name) and isinstance(env.get(t.value.id), (list, dict)) and not isinstance(t.slice, ast.Slice):
            try:
                env[t.value.id][self.ev(t.slice, env)] = v
            except (TypeError, IndexError, KeyError) as x:
                raise minieval.CannotEval(f"assignment target {u(t)[:40]}: {type(x).__name__}")
        else:
            raise minieval.CannotEval(f"assignment target {u(t)[:40]}")

    @staticmethod
    def _slot_root(e, env):
        """the local mapping M (a plain dict value of the environment) when e is `M[key]` or `M.setdefault(key[, default])`, else None"""
        m_ = e.value if isinstance(e, ast.Subscript) and not isinstance(e.slice, ast.Slice) else (
            e.func.value if isinstance(e, ast.Call) and isinstance(e.func, ast.Attribute) and e.func.attr == "setdefault" and 1 <= len(e.args) <= 2 and not e.keywords and
            not any(isinstance(a_, ast.Starred) for a_ in e.args) else None)
        return env[m_.id] if isinstance(m_, ast.Name) and type(env.get(m_.id)) is dict else None

    def _slot(self, e, env):
        """the value stored in a local mapping under a key (`M[key]`), resp. stored there now when the key is new (`M.setdefault(key, default)`)"""
        from sa import minieval

        root = self._slot_root(e, env)
        try:
            if isinstance(e, ast.Subscript):
                return root[self.ev(e.slice, env)]
            return root.setdefault(self.ev(e.args[0], env), self.ev(e.args[1], env) if len(e.args) == 2 else None)
        except (KeyError, TypeError) as x:
            raise minieval.CannotEval(f"{u(e)[:60]}: {type(x).__name__}")

    def run(self, stmts, env):
        def hook(s_, env_, b):
            if isinstance(s_, ast.FunctionDef):
                env_[s_.name] = s_
                return "skip"
            if isinstance(s_, ast.Assign):
                v = self.ev(s_.value, env_)
                for t in s_.targets:
                    self._bind(t, v, env_)
                return "skip"
            if isinstance(s_, ast.AugAssign) and isinstance(s_.target, ast.Name):
                env_[s_.target.id] = self.ev(ast.BinOp(left=ast.Name(id=s_.target.id, ctx=ast.Load()), op=s_.op, right=s_.value), env_)
                return "skip"
            if isinstance(s_, ast.Expr) and isinstance(s_.value, ast.Call) and isinstance(s_.value.func, ast.Attribute) and isinstance(s_.value.func.value, ast.Name) and \
                    isinstance(env_.get(s_.value.func.value.id), (list, dict, set)):
                # a statement that changes a local container (`row.append(cell)`): performed on the value; one this interpreter does not know is never skipped silently
                c_, recv = s_.value, env_[s_.value.func.value.id]
                ok_ = {list: ("append", "extend", "insert"), dict: ("update", "setdefault"), set: ("add", "update")}[type(recv)]
                if c_.func.attr not in ok_ or c_.keywords or any(isinstance(a_, ast.Starred) for a_ in c_.args):
                    raise minieval.CannotEval(f"statement {u(s_)[:60]}: effect on a local container")
                try:
                    getattr(recv, c_.func.attr)(*[self.ev(a_, env_) for a_ in c_.args])
                except (TypeError, ValueError) as x:
                    raise minieval.CannotEval(f"statement {u(s_)[:60]}: {type(x).__name__}")
                return "skip"
            if isinstance(s_, ast.Expr) and isinstance(s_.value, ast.Call) and isinstance(s_.value.func, ast.Attribute) and s_.value.func.attr in ("append", "extend", "add") and \
                    self._slot_root(s_.value.func.value, env_) is not None:
                # a statement that grows a container kept IN a local mapping (`groups.setdefault(key, []).append(x)`, `groups[key].append(x)`): performed on the value;
                # a shape this interpreter does not know is never skipped silently
                c_ = s_.value
                recv = self._slot(c_.func.value, env_)
                if not isinstance(recv, (list, set)) or not hasattr(recv, c_.func.attr) or c_.keywords or len(c_.args) != 1 or isinstance(c_.args[0], ast.Starred):
                    raise minieval.CannotEval(f"statement {u(s_)[:60]}: effect on a container of a local mapping")
                try:
                    getattr(recv, c_.func.attr)(self.ev(c_.args[0], env_))
                except (TypeError, ValueError) as x:
                    raise minieval.CannotEval(f"statement {u(s_)[:60]}: {type(x).__name__}")
                return "skip"
            if isinstance(s_, ast.For) and not s_.orelse:
                # a loop over a value this interpreter can enumerate (a literal table, a list built before): its body is interpreted per element
                it = self.ev(s_.iter, env_)
                if not isinstance(it, (list, tuple, set, frozenset, dict, str, range)):
                    raise minieval.CannotEval(f"loop over {u(s_.iter)[:40]}")
                for v in list(it):
                    self._bind(s_.target, v, env_)
                    o_ = decide(s_.body, lambda n, e2: bool(self.ev(n, e2)), env_, on_stmt=hook)
                    if o_.kind == "break":
                        break
                    if o_.kind not in ("fallthrough", "continue"):
                        return o_
                return "skip"
            return None

        out = decide(stmts, lambda n, env_: bool(self.ev(n, env_)), env, on_stmt=hook)
        if out.kind == "return":
            return None if out.value is None else self.ev(out.value, env)
        if out.kind == "fallthrough":
            return None
        raise Unsupported(out.text()[:60])


class _Cell:
    """one printed difference cell: colour function (None = bare text) and the text split into '+' prefix, '-' sign, digits, decimals, suffix."""

    _NUM = re.compile(r"^(\+?)(-?)(\d+(?:\.(\d+))?|inf|nan)(.*)$", re.S)

    def __init__(self, colour=None, text=None, trace=(), crash=None):
        self.colour, self.text, self.trace, self.crash = colour, text, list(trace), crash
        m = self._NUM.match(text) if isinstance(text, str) else None
        self.plus = m.group(1) if m else None
        self.minus = m.group(2) if m else None
        self.value = float(m.group(2) + m.group(3)) if m else None
        self.decimals = len(m.group(4)) if m and m.group(4) is not None else (0 if m else None)
        self.suffix = m.group(5) if m else None

    @property
    def sign(self):
        """+1 / -1 / 0 of the PRINTED value (None when the text is not a number); a text that carries a '+' / '-' although its digits are zero counts as signed."""
        if self.value is None or self.value != self.value:
            return None
        return (self.value > 0) - (self.value < 0)

    def show(self):
        return f"<{self.crash}>" if self.crash else (f"{self.colour.rsplit('.', 1)[-1]}({self.text!r})" if self.colour else repr(self.text))


class _Rec(dict):
    """a stored per-task result record that has every member EXCEPT the optional ones (`absent`: member paths older result formats do not contain)."""

    def __init__(self, absent, path=(), touched=None):
        super().__init__()
        self.absent, self.path, self.touched = absent, path, touched if touched is not None else []

    def _lacks(self, k):
        if self.path + (k,) in self.absent:
            self.touched.append(self.path + (k,))
            return True
        return False

    def __missing__(self, k):
        if self._lacks(k):
            raise KeyError(k)
        return _Rec(self.absent, self.path + (k,), self.touched)

    def get(self, k, default=None):
        return default if self._lacks(k) else self[k]

    def __contains__(self, k):
        return not self._lacks(k)

    def __bool__(self):
        return True


class _Elem(dict):
    """one element of a list-valued statistic (an ML job, a transform) of a stored race, standing for ENTITY `ent`: every member k reads as '<ent>:<k>', so the same
    member of the same entity has the same value in both races (its id matches, whichever member the id is) and every value tells which entity it was read from."""

    def __init__(self, ent):
        super().__init__()
        self.ent = ent

    def __missing__(self, k):
        return f"{self.ent}:{k}"

    def get(self, k, default=None):
        return self[k]

    def __contains__(self, k):
        return True

    def __bool__(self):
        return True

    def __eq__(self, other):
        return self is other

    def __ne__(self, other):
        return self is not other

    __hash__ = object.__hash__

    def __repr__(self):
        return f"<{self.ent}>"


class _AnyFields(dict):
    """the fields of a Record that stands for a stored race in which EVERY list-valued statistic holds the same representative list."""

    def __init__(self, value):
        super().__init__()
        self.value = value

    def __contains__(self, k):
        return True

    def __missing__(self, k):
        return self.value


def run(chk):
    repo = chk.repo
    rp = repo.module(_R)
    chk.use(rp, "docs/tournament.rst")
    chk.explanation = (
        "Decides the comparison report by tables: every comparison-line construction passes a constant direction flag that is increase-is-improvement iff the label names a throughput; "
        "role dataflow (through locals, loops, getattr, helper methods and nested helpers) shows the baseline operand depends only on the baseline race and the contender operand only on "
        "the contender race; the statements of _diff evaluated on representative values (baseline / contender pairs incl. zero and negative ones, both modes, both directions, rich and plain; "
        "d in {2t, t, 0.6t, 0.4t, 0, -0.4t, -0.6t, -t, -2t} with t the smallest printable step): shown value == contender - baseline resp. (c - b) / |b| * 100 (zero-safe), a cell is signed "
        "and coloured by direction exactly when its printed value is non-zero, relative and absolute cell agree in sign and colour, swapping flips both, self comparison is an unsigned "
        "neutral zero, the plain cell is the rich cell's text; plain flag read only for colour selection; same formatter for file (plain) and console (rich); "
        "a line only when both values are not None; tests on compared scalar values decide alike for 0 and non-zero values (evaluated, not read off the spelling); optional members of a "
        "stored task result (throughput mean, processing time) are read with a default in both races (reads evaluated on a record without them); the methods that pair two list-valued statistics by id are evaluated on lists that hold the common elements in different orders (every common element gets its lines, paired with itself; not evaluable: no early exit of the search except under the match); operands selected from a race's mapping by `.get` are evaluated on the empty mapping (None, never an invented default). Roles are derived from data flow and "
        "positions, not from names: parameters of _line by position, the mode attribute as the one _metrics_table assigns from its flag parameter, races by dataflow from report() along the "
        "call graph of the reporter (direct calls, nested helpers, aliases, tuples / lists of bound methods walked by a loop or comprehension, incl. lists grown in place by append / insert / extend / += behind a condition; pairs unpacked from a generator over both races or from a helper that returns a pair), "
        "the writer's data parameters by which table reaches them. A construct inside an extracted helper stands for one instance per call of the helper (label, flag, iterated list, "
        "compared value resolved to the arguments of each call), a construct in a loop / comprehension over a literal table for one instance per row (rows whose guards are false "
        "dropped); helper methods / static methods / module-level functions that _diff and _line call are interpreted together with them (comprehensions, loops over literal tables and "
        "appends included), records kept in hoisted locals or returned by extracted helper methods are followed; a construct that cannot be located is reported as not recognised "
        "(inconclusive), never as a finding."
    )
    chk.not_decided = "numeric formatting, tabulate output, the content of the race results themselves."
    CR = rp.cls("ComparisonReporter")
    cm = rp.methods(CR)
    line = cm.get("_line")
    diff = cm.get("_diff")
    mt = cm.get("_metrics_table")
    rep = cm.get("report")
    if not all([line, diff, mt, rep]):
        raise AnchorMissing("ComparisonReporter._line/_diff/_metrics_table/report")

    # the attribute that carries the plain / rich mode, by role: the attribute of the reporter that _metrics_table assigns from its third parameter (`plain` by default)
    mtp_ = params_of(mt)
    FLAG = next((t.attr for n in walk_body(mt) if isinstance(n, ast.Assign) and len(mtp_) >= 4 and {x.id for x in ast.walk(n.value) if isinstance(x, ast.Name)} - {"bool"} == {mtp_[3]}
                 for t in n.targets if isinstance(t, ast.Attribute) and isinstance(t.value, ast.Name) and t.value.id == mtp_[0]), "plain")

    def located(cond, rule, what, node, detail):
        """a LOCATING obligation: discharged when the constructs the rule speaks about were found in the expected number; when they were not, the shape is not recognised
        (inconclusive) - finding nothing is never a finding."""
        if cond:
            chk.ob(rule, what, True, node, detail)
        else:
            chk.unknown(rule, f"{what}: {detail} - fewer than on the confirmed tree, the constructs are spelled in a shape this rule does not recognise", node)

    # call sites of _line (self._line or a local alias of it), including nested helper functions
    sites = []
    for name, f in cm.items():
        aliases = {"self._line"}
        for n in ast.walk(f):
            if isinstance(n, ast.Assign) and u(n.value) == "self._line" and isinstance(n.targets[0], ast.Name):
                aliases.add(n.targets[0].id)
        for n in ast.walk(f):
            if isinstance(n, ast.Call) and u(n.func) in aliases:
                sites.append((f, n))

    from sa import minieval

    # ---- helpers shared by the rules: what a construct inside an EXTRACTED HELPER or a TABLE-DRIVEN loop / comprehension stands for -----------------------------------
    from sa.classes import is_logging_stmt

    def in_log(n):
        """the node lies in a logging statement (a log line that mentions a value does not act on the report)"""
        try:
            return is_logging_stmt(source.enclosing_stmt(n))
        except (AttributeError, TypeError):
            return False

    def assigned_in(g, name):
        """the name is (re)bound somewhere in g's own body (a parameter that is re-bound no longer holds the caller's argument)."""
        return any(isinstance(x, ast.Name) and x.id == name and isinstance(x.ctx, ast.Store) for x in walk_body(g))

    def calls_of(g):
        """the calls of helper g inside the reporter as (function the call lies in, call): of a method `<receiver>.g(...)` (receiver = first parameter of the calling method),
        of a nested helper `g(...)` inside the function that defines it, and INDIRECT ones: through a local alias (`fn = self.g`) or the loop variable of a literal table
        of bound methods (`for section in (self.a, self.g, ...): section(...)`), see callees()."""
        return [(h, n) for h, n, callee in call_graph() if callee is g]

    own_params = lambda g: (lambda ps: ps[1:] if cm.get(g.name) is g and not _is_static(g) else ps)(params_of(g) + [x.arg for x in g.args.kwonlyargs])  # noqa: E731

    def arg_at(call, g, p):
        """the expression parameter p of g is bound to at this call (its default when the call does not pass it), None when it cannot be told (* / ** arguments)."""
        if any(isinstance(a, ast.Starred) for a in call.args) or any(k.arg is None for k in call.keywords):
            return None
        a_ = bind_args(call, g).get(p)
        if a_ is None:
            pos = params_of(g)
            dflt = dict(zip(pos[len(pos) - len(g.args.defaults):], g.args.defaults))
            dflt.update({k.arg: d for k, d in zip(g.args.kwonlyargs, g.args.kw_defaults) if d is not None})
            a_ = dflt.get(p)
        return a_

    def literal_elements(e, defs, depth=0):
        """the elements of an iterable that is a LITERAL table, as expressions: a tuple / list / set display, a dict display (its keys; `.items()` pairs; `.values()`),
        zip(...) / enumerate(...) / list(...) / tuple(...) of such, or a single-assignment local holding one (named module / class constants are already literals: N9);
        None when the iterable is not a literal."""
        if depth > 4:
            return None
        if isinstance(e, ast.Name) and e.id in defs:
            return literal_elements(defs[e.id], defs, depth + 1)
        if isinstance(e, (ast.Tuple, ast.List, ast.Set)):
            return list(e.elts) if e.elts and not any(isinstance(x, ast.Starred) for x in e.elts) else None
        if isinstance(e, ast.Dict):
            return list(e.keys) if e.keys and all(k is not None for k in e.keys) else None
        if isinstance(e, ast.Call) and not e.keywords:
            if isinstance(e.func, ast.Attribute) and e.func.attr in ("items", "keys", "values") and not e.args:
                d = e.func.value
                d = defs.get(d.id) if isinstance(d, ast.Name) else d
                if isinstance(d, ast.Dict) and d.keys and all(k is not None for k in d.keys):
                    return {"keys": list(d.keys), "values": list(d.values), "items": [ast.Tuple(elts=[k, v], ctx=ast.Load()) for k, v in zip(d.keys, d.values)]}[e.func.attr]
                return None
            fn = dotted(e.func)
            if fn in ("list", "tuple", "iter") and len(e.args) == 1:
                return literal_elements(e.args[0], defs, depth + 1)
            if fn == "zip" and e.args:
                cols = [literal_elements(a, defs, depth + 1) for a in e.args]
                return None if any(c_ is None for c_ in cols) else [ast.Tuple(elts=list(t_), ctx=ast.Load()) for t_ in zip(*cols)]
            if fn == "enumerate" and 1 <= len(e.args) <= 2:
                els = literal_elements(e.args[0], defs, depth + 1)
                start = 0 if len(e.args) == 1 else (e.args[1].value if isinstance(e.args[1], ast.Constant) and isinstance(e.args[1].value, int) else None)
                return None if els is None or start is None else [ast.Tuple(elts=[ast.Constant(value=i_ + start), el], ctx=ast.Load()) for i_, el in enumerate(els)]
        return None

    _tdefs = {}

    def table_defs(g):
        """local_defs(g) for reading LITERAL TABLES: a local that holds a list / set display and is GROWN IN PLACE (`sections.append(self.m)` - also under a condition -,
        `.insert(i, x)`, `.add(x)`, `.extend(<literal table>)`: a table built statement by statement instead of in one display, optional rows appended behind a test) stands for
        the display of EVERY element it may hold (each element is one instance; order and the gating condition do not matter to what an instance must satisfy; an element
        that is taken out again behind a test stays a possible row). A local that is changed in a way this cannot read (extended by a non-literal, elements replaced by item /
        slice assignment, `del`, `clear()`) is dropped: its table is not literal (not recognised)."""
        if id(g) in _tdefs:
            return _tdefs[id(g)]
        defs = dict(local_defs(g))
        grown, unreadable = {}, set()
        # `sections += [self.m]` (N1: also `sections = sections + [self.m]`) grows the display the name was bound to by its only plain assignment
        stores = [x.id for x in walk_body(g) if isinstance(x, ast.Name) and isinstance(x.ctx, ast.Store)]
        augs = {}
        for n in walk_body(g):
            if isinstance(n, ast.AugAssign) and isinstance(n.target, ast.Name):
                augs.setdefault(n.target.id, []).append(n)
        for name, ns in augs.items():
            first = [n for n in walk_body(g) if isinstance(n, ast.Assign) and len(n.targets) == 1 and isinstance(n.targets[0], ast.Name) and n.targets[0].id == name]
            if len(first) == 1 and isinstance(first[0].value, ast.List) and stores.count(name) == 1 + len(ns) and name not in params_of(g):
                defs[name] = first[0].value
                for n in ns:
                    els = literal_elements(n.value, {k_: v_ for k_, v_ in defs.items() if k_ != name}) if isinstance(n.op, ast.Add) else None
                    if els is None and not (isinstance(n.op, ast.Add) and isinstance(n.value, (ast.List, ast.Tuple)) and not n.value.elts):
                        unreadable.add(name)
                    grown.setdefault(name, []).extend(els or [])
        for n in walk_body(g):
            if isinstance(n, ast.Call) and isinstance(n.func, ast.Attribute) and isinstance(n.func.value, ast.Name) and isinstance(defs.get(n.func.value.id), (ast.List, ast.Set)):
                name, op = n.func.value.id, n.func.attr
                plain_args = not n.keywords and not any(isinstance(a_, ast.Starred) for a_ in n.args)
                if op in ("append", "add") and plain_args and len(n.args) == 1:
                    grown.setdefault(name, []).append(n.args[0])
                elif op == "insert" and plain_args and len(n.args) == 2:
                    grown.setdefault(name, []).append(n.args[1])
                elif op in ("extend", "update") and plain_args and len(n.args) == 1:
                    els = literal_elements(n.args[0], {k_: v_ for k_, v_ in defs.items() if k_ != name})
                    if els is None and not (isinstance(n.args[0], (ast.List, ast.Tuple, ast.Set)) and not n.args[0].elts):
                        unreadable.add(name)
                    grown.setdefault(name, []).extend(els or [])
                elif op in ("remove", "pop", "discard", "sort", "reverse", "index", "count", "copy"):
                    pass  # an element taken out behind a test (`if not self.show_x: sections.remove(self.m)`) / a re-ordering: the display still lists every element it MAY hold
                elif op in ("clear", "__setitem__", "__delitem__", "difference_update", "intersection_update", "symmetric_difference_update"):
                    unreadable.add(name)
            elif isinstance(n, (ast.Subscript, ast.Name)) and isinstance(n.ctx, (ast.Store, ast.Del)) and not (isinstance(n, ast.Name) and isinstance(n.ctx, ast.Store)):
                b_ = n.value if isinstance(n, ast.Subscript) else n
                if isinstance(b_, ast.Name) and isinstance(defs.get(b_.id), (ast.List, ast.Set)):
                    unreadable.add(b_.id)
        for name, extra in grown.items():
            if name not in unreadable and extra:
                defs[name] = ast.List(elts=list(defs[name].elts) + extra, ctx=ast.Load())
        for name in unreadable:
            defs.pop(name, None)
        _tdefs[id(g)] = defs
        return defs

    def bind_target(t, el):
        """{loop variable: element expression} of one element of a literal table bound to a loop target (nested tuple targets included), None when it does not fit."""
        if isinstance(t, ast.Name):
            return {t.id: el}
        if isinstance(t, (ast.Tuple, ast.List)) and isinstance(el, (ast.Tuple, ast.List)) and len(el.elts) == len(t.elts) and not any(isinstance(x, ast.Starred) for x in list(t.elts) + list(el.elts)):
            out = {}
            for t_, v_ in zip(t.elts, el.elts):
                b_ = bind_target(t_, v_)
                if b_ is None:
                    return None
                out.update(b_)
            return out
        return None

    def table_rows(c):
        """a construct that is evaluated in a loop OR comprehension over a LITERAL table (`for label, attribute in (("Heap used for terms", "memory_terms"), ...)`: an if-chain / a
        sequence of calls turned into table dispatch, a generator of lines over (label, key) pairs) stands for one instance per row: (rows as {loop variable: expression},
        names of all loop variables of such tables); rows is [{}] outside such a loop and None when a row cannot be bound to the loop target."""
        rows, names = [{}], set()
        g_ = source.enclosing_func(c)
        defs = table_defs(g_) if g_ is not None else {}
        prev = c
        for a in source.ancestors(c):
            if isinstance(a, (ast.FunctionDef, ast.AsyncFunctionDef, ast.Lambda, ast.ClassDef)):
                break
            tables = []
            if isinstance(a, ast.For) and not any(prev is s_ for s_ in a.orelse) and prev is not a.iter:
                tables.append((a.target, a.iter))
            elif isinstance(a, (ast.ListComp, ast.SetComp, ast.GeneratorExp, ast.DictComp)):
                # the element is evaluated per row of every generator; the iterable of generator i per row of the generators before it (`row for section in sections for row in
                # section(...)`), its conditions per row of generator i as well
                k_ = next((i_ for i_, gen in enumerate(a.generators) if gen is prev), None)
                scope = a.generators if k_ is None else a.generators[:k_ + (0 if any(x is c for x in ast.walk(prev.iter)) else 1)]
                tables += [(gen.target, gen.iter) for gen in scope]
            for target, it_ in tables:
                els = literal_elements(it_, defs)
                if els is None:
                    continue
                names |= {x.id for x in ast.walk(target) if isinstance(x, ast.Name)}
                if rows is None:
                    continue
                new = []
                for el in els:
                    bnd = bind_target(target, el)
                    if bnd is None:
                        new = None
                        break
                    new += [dict(bnd, **r_) for r_ in rows]
                rows = new
            prev = a
        return rows, names

    def method_ref(e, ctx):
        """the method of the reporter an expression `<receiver>.m` (receiver = first parameter of the method the expression lies in) refers to, else None"""
        m_ = ctx
        while m_ is not None and cm.get(m_.name) is not m_:
            m_ = source.enclosing_func(m_)
        if m_ is not None and isinstance(e, ast.Attribute) and isinstance(e.value, ast.Name) and e.value.id in params_of(m_)[:1] and e.attr in cm:
            return cm[e.attr]
        return None

    def callees(n):
        """the functions of the reporter a call may invoke: a method (`<receiver>.m(...)`), a nested helper of an enclosing function (`helper(...)`), and through a NAME that holds a
        bound method: a single-assignment local alias or the loop variable of a literal table of bound methods (table dispatch instead of a sequence of calls)."""
        ctx = source.enclosing_func(n)
        if ctx is None:
            return []
        direct = method_ref(n.func, ctx)
        if direct is not None:
            return [direct]
        if not isinstance(n.func, ast.Name):
            return []
        g = ctx
        while g is not None:
            nested = [x for x in walk_body(g) if isinstance(x, ast.FunctionDef) and x.name == n.func.id]
            if nested:
                return nested[:1]
            alias = local_defs(g).get(n.func.id)
            if alias is not None and method_ref(alias, g) is not None:
                return [method_ref(alias, g)]
            g = source.enclosing_func(g)
        rows, names = table_rows(n)
        if n.func.id in names and rows:
            got = [method_ref(r_.get(n.func.id), ctx) for r_ in rows]
            return [] if any(m_ is None for m_ in got) else list({id(m_): m_ for m_ in got}.values())
        return []

    _cg = []

    def call_graph():
        """(function the call lies in, call, callee) for every call inside the reporter class whose callee is a function of the reporter (see callees)"""
        if not _cg:
            _cg.append([(source.enclosing_func(n), n, callee) for h in cm.values() for n in ast.walk(h) if isinstance(n, ast.Call) for callee in callees(n)])
        return _cg[0]

    def free_names(e):
        return {x.id for x in ast.walk(e) if isinstance(x, ast.Name) and isinstance(x.ctx, ast.Load)} if e is not None else set()

    def row_feasible(c, row):
        """False when a guard of construct c evaluates, for this row of the literal table, to the polarity under which c is NOT reached; guards that cannot be evaluated keep the row"""
        for t_, pol in guards(c, path_sensitive=True):
            try:
                if bool(minieval.ev(source.inline_node(t_, row), {})) != pol:
                    return False
            except (minieval.CannotEval, TypeError, ValueError, KeyError, IndexError, AttributeError):
                continue
        return True

    def attr_forms(c, e):
        """`getattr(<name>, X)` read at construct c, X resolved per row of a literal table / per call of the enclosing helper to a constant: the attribute expressions
        `<name>.<x>` it stands for; [e] for any other expression (or when X is not resolved)"""
        if isinstance(e, ast.Call) and dotted(e.func) == "getattr" and len(e.args) == 2 and not e.keywords and isinstance(e.args[0], ast.Name):
            insts = instantiate(c, [e.args[1]], lambda t_: not free_names(t_[0]))
            vals = [label_str(t_[0]) if not free_names(t_[0]) else None for t_, _ in insts or []]
            if vals and all(isinstance(v_, str) and v_.isidentifier() for v_ in vals):
                return [ast.Attribute(value=ast.Name(id=e.args[0].id, ctx=ast.Load()), attr=v_, ctx=ast.Load()) for v_ in vals]
        return [e]

    def instantiate(c, exprs, resolved, depth=0):
        """What the expressions `exprs` (read at construct c) are in every INSTANCE the construct stands for: one per row of the literal table(s) c is iterated over (when the
        expressions use the loop variables) and - when they are still not `resolved` and depend on parameters of the helper c lies in (an extracted helper method, a nested
        helper) - one per call of that helper, the parameters replaced by the arguments of the call (which are instantiated in the caller the same way). Single-assignment
        locals are inlined. -> list of (tuple of expressions, expressions with only the table row substituted); None when a table row cannot be bound."""
        g = source.enclosing_func(c)
        if g is None:
            return [(tuple(exprs), tuple(exprs))]
        defs = {k_: v_ for k_, v_ in local_defs(g).items() if k_ not in params_of(g)}
        ex1 = [source.inline_node(e, defs) if e is not None else None for e in exprs]
        rows, names = table_rows(c)
        used = set().union(*[free_names(e) for e in ex1]) if ex1 else set()
        if not (used & names):
            rows = [{}]
        elif rows is None:
            return None
        out = []
        for row in rows:
            if row and not row_feasible(c, row):
                continue  # the construct is not reached for this row (`if count_attribute:` with a row whose column is None)
            exr = tuple(source.inline_node(e, row) if e is not None and row else e for e in ex1)
            loc_ = tuple(source.inline_node(e, row) if e is not None and row else e for e in exprs)
            need = sorted(p_ for p_ in set().union(*[free_names(e) for e in exr]) & set(own_params(g)) if not assigned_in(g, p_)) if exr else []
            calls = calls_of(g) if need and depth < 3 and not resolved(exr) else []
            expanded = []
            for h, n in calls:
                args = [arg_at(n, g, p_) for p_ in need]
                # the arguments are instantiated in the caller the same way; as far as the caller itself receives them from ITS callers they are resolved there
                sub = instantiate(n, args, lambda t_, h=h: not any(free_names(v_) & set(own_params(h)) for v_ in t_ if v_ is not None), depth + 1) if all(a_ is not None for a_ in args) else None
                if sub is None:
                    expanded = None
                    break
                for vals, _ in sub:
                    bnd = dict(zip(need, vals))
                    expanded.append((tuple(source.inline_node(e, bnd) if e is not None else None for e in exr), loc_))
            out += expanded if expanded else [(exr, loc_)]
        return out

    def origins(g, e, anchor, depth=0):
        """Where the value of expression e (read in function g at node `anchor`) comes from, followed through single-assignment locals, a `... or []` default and - when it is a
        parameter of a helper (method or nested function) - to the argument of EACH call of the helper: [(function, expression there, node there the flow passes: the construct
        itself resp. the call of the helper, defaulted?, levels passed on the way: (function, parameter name, node))]."""
        e = source.inline_node(e, {k_: v_ for k_, v_ in local_defs(g).items() if k_ not in params_of(g)})
        defaulted = isinstance(e, ast.BoolOp) and isinstance(e.op, ast.Or) and len(e.values) == 2 and isinstance(e.values[1], (ast.List, ast.Tuple)) and not e.values[1].elts
        if defaulted:
            e = e.values[0]
        if isinstance(e, ast.Name) and e.id in own_params(g) and not assigned_in(g, e.id) and depth < 3:
            out = []
            for h, n in calls_of(g):
                a_ = arg_at(n, g, e.id)
                if a_ is None:
                    return [(g, e, anchor, defaulted, [])]
                out += [(h_, e_, n_, d_ or defaulted, lv_ + [(g, e.id, anchor)]) for h_, e_, n_, d_, lv_ in origins(h, a_, n, depth + 1)]
            if out:
                return out
        return [(g, e, anchor, defaulted, [])]

    def label_str(e):
        """constant text of a metric label: the formatted text when every part is a constant (f-string, '%' and + of constants), else the text with placeholders."""
        if e is None:
            return None
        try:
            v = minieval.ev(e, {})
            if isinstance(v, str):
                return v
        except (minieval.CannotEval, TypeError, ValueError, KeyError, IndexError, AttributeError):
            pass
        if isinstance(e, ast.BinOp) and isinstance(e.op, ast.Mod) and isinstance(e.left, ast.Constant) and isinstance(e.left.value, str):
            # '%'-format: the constant arguments are filled in, the others stay placeholders
            args = list(e.right.elts) if isinstance(e.right, ast.Tuple) else [e.right]
            parts = re.split(r"%[sdrif]", e.left.value)
            if len(parts) == len(args) + 1 and not any("%" in p_.replace("%%", "") for p_ in parts):
                return "".join(p_.replace("%%", "%") + (str(a_.value) if isinstance(a_, ast.Constant) else "{}") for p_, a_ in zip(parts, args)) + parts[-1].replace("%%", "%")
        return label_text(e)

    # ---- O20.1 direction table -------------------------------------------------------------------------------------------------------
    chk.rule("O20.1", "every comparison-line construction passes a constant direction flag: increase-is-improvement iff the metric label names a throughput; all others "
             "(latency, times, error rate, sizes, counts) decrease-is-improvement", 35,
             "an improvement of that metric is coloured as a regression (and vice versa)")
    lp = params_of(line)
    if len(lp) < 8:
        raise AnchorMissing("_line(self, metric, baseline, contender, task, unit, treat_increase_as_improvement, formatter)")
    # the roles of _line's parameters are their POSITIONS (metric, baseline, contender, task, unit, direction flag, formatter), whatever they are called
    P_METRIC, P_BASE, P_CONT, P_TASK, P_UNIT, P_FLAG, P_FMT = lp[1:8]
    line_defaults = dict(zip(lp[len(lp) - len(line.args.defaults):], line.args.defaults))

    def flag_value(g, e, depth=0):
        """the boolean a direction-flag expression evaluates to inside function g: a constant, a single-assignment local holding one, a conditional / dict lookup that minieval
        decides, or a parameter of g that EVERY call of g in the reporter binds to the same boolean (a helper that builds the lines of one direction); None: not resolved."""
        if e is None:
            return None
        e = source.inline_node(e, local_defs(g))
        if isinstance(e, ast.Constant):
            return e.value if isinstance(e.value, bool) else None
        try:
            v = minieval.ev(e, {})
            return v if isinstance(v, bool) else None
        except minieval.CannotEval:
            pass
        if isinstance(e, ast.Name) and e.id in params_of(g) and depth < 3:
            calls = calls_of(g)
            gdef = dict(zip(params_of(g)[len(params_of(g)) - len(g.args.defaults):], g.args.defaults))
            vals = set()
            for h, n in calls:
                a_ = bind_args(n, g).get(e.id, gdef.get(e.id))
                vals.add(flag_value(source.enclosing_func(n) or h, a_, depth + 1))
            if len(vals) == 1 and None not in vals:
                return vals.pop()
        return None

    def const_bool(e):
        """the boolean an expression without free names evaluates to (constant, conditional / dict lookup on constants), else None."""
        if e is None:
            return None
        if isinstance(e, ast.Constant):
            return e.value if isinstance(e.value, bool) else None
        try:
            v = minieval.ev(e, {})
            return v if isinstance(v, bool) else None
        except (minieval.CannotEval, TypeError, ValueError, KeyError, IndexError, AttributeError):
            return None

    n_thr = 0
    site_label = {}
    for f, c in sites:
        b = bind_args(c, line)
        flag = b.get(P_FLAG, line_defaults.get(P_FLAG))
        g_ = source.enclosing_func(c) or f
        # one instance per line the construction stands for: per row of a literal table it is iterated over, per call of the helper whose parameters the label / the flag are
        insts = instantiate(c, [b.get(P_METRIC), flag], lambda t_: not free_names(t_[0]) and const_bool(t_[1]) is not None) if b.get(P_METRIC) is not None else None
        for (lab_e, flag_e), (_, flag_loc) in insts or [((b.get(P_METRIC), flag), (None, flag))]:
            lab = label_str(lab_e) if lab_e is not None and insts is not None else None
            if lab is None:
                chk.unknown("O20.1", f"metric label of {short(c, 60)} is not a (formatted) string constant", c)
                break
            site_label.setdefault(id(c), lab)
            is_thr = "throughput" in lab.lower()
            n_thr += is_thr
            fv_ = const_bool(flag_e)
            if fv_ is None:
                fv_ = flag_value(g_, flag_loc)
            if fv_ is None:
                # the flag WAS not resolved to a boolean: not recognised, never a finding
                chk.unknown("O20.1", f"'{lab}': the direction flag `{short(flag, 50) if flag is not None else None}` cannot be resolved to a boolean constant", c)
                continue
            chk.ob("O20.1", f"'{lab}': {'higher' if is_thr else 'lower'} is better", fv_ == is_thr, c, f"flag={u(flag)}" + ("" if isinstance(flag, ast.Constant) else f" = {fv_}"), key=f"{_R}:{source.qualname(c)}:direction:{lab}")
    if n_thr >= 5:
        chk.ob("O20.1", "throughput lines located", True, CR, f"{n_thr} throughput line(s) of {len(sites)}")
    else:
        chk.unknown("O20.1", f"only {n_thr} throughput line(s) of {len(sites)} located by their label (at least 5 expected: min / mean / median / max throughput per task, transform throughput)", CR)

    # ---- O20.2 operand roles -------------------------------------------------------------------------------------------------------------
    chk.rule("O20.2", "at each comparison line the baseline operand depends only on the baseline race and the contender operand only on the contender race "
             "(role dataflow from report(): first race = baseline, second = contender)", 35,
             "baseline and contender swapped for one metric: the sign and colour of its difference are inverted")
    roles = Roles(cm, None)
    roles.opaque = {line.name, diff.name}
    # roots: report(r1, r2) -> GlobalStats(r1.results) / GlobalStats(r2.results) -> _metrics_table(b, c, plain)
    rps = params_of(rep)
    if len(rps) < 3:
        raise AnchorMissing("ComparisonReporter.report(self, r1, r2)")
    roles.param_roles[("report", rps[1])] = {"B"}
    roles.param_roles[("report", rps[2])] = {"C"}
    changed = True
    it = 0

    def env_at(node):
        """role environment at a node: the one of the method, refined by the nested helper function(s) the node lies in (their parameters carry the roles of their call arguments)"""
        chain = []
        g = source.enclosing_func(node)
        while g is not None:
            chain.append(g)
            g = source.enclosing_func(g)
        env = None
        for g in reversed(chain):
            env = roles.env_for(g, outer=env)
        return env or {}

    # parameter roles flow along the call graph of the reporter: direct method calls, calls of nested helpers, calls through an alias or the loop variable of a literal table
    # of bound methods; the line constructors themselves (and pure list plumbing) are not followed
    plumbing = {line.name, diff.name} | {m_ for m_ in ("_join", "_append_non_empty") if m_ in cm}
    while changed and it < 8:
        changed = False
        it += 1
        envs = {}
        for h, n, callee in call_graph():
            if callee.name in plumbing and cm.get(callee.name) is callee:
                continue
            if id(h) not in envs:
                envs[id(h)] = env_at(n)
            for p, a in bind_args(n, callee, skip_self=cm.get(callee.name) is callee).items():
                d = roles.deps(a, envs[id(h)])
                old = roles.param_roles.get((callee.name, p), set())
                if not d <= old:
                    roles.param_roles[(callee.name, p)] = old | d
                    changed = True
    for f, c in sites:
        # environment: method env, plus nested-function parameters (role-free) when the site is in a nested helper
        env = env_at(c)
        b = bind_args(c, line)
        db, dc = roles.deps(b.get(P_BASE), env), roles.deps(b.get(P_CONT), env)
        lab = label_text(b.get(P_METRIC)) or site_label.get(id(c)) or "?"
        detail = f"baseline operand `{short(b.get(P_BASE), 50) if b.get(P_BASE) is not None else None}` <- {sorted(db)}; contender operand `{short(b.get(P_CONT), 50) if b.get(P_CONT) is not None else None}` <- {sorted(dc)}"
        if "C" not in db and "B" not in dc and (not db or not dc):
            # no race reaches an operand by the dataflow this rule follows: the role is not derived (not recognised); a finding needs an operand fed by the WRONG race
            chk.unknown("O20.2", f"'{lab}': the race an operand comes from cannot be derived: {detail}", c)
            continue
        ok = db == {"B"} and dc == {"C"}
        chk.ob("O20.2", f"'{lab}': operands", ok, c, detail, key=f"{_R}:{source.qualname(c)}:roles:{lab}")
    # sibling agreement inside each reporting method: whatever is selected from the baseline race is selected from the contender race too (same attribute / key / call chain)
    n_sym = 0
    for name, f in cm.items():
        env = roles.env_for(f)
        ps = [p_ for p_ in params_of(f) if p_ != "self"]
        pb = [p_ for p_ in ps if roles.param_roles.get((f.name, p_)) == {"B"}]
        pc = [p_ for p_ in ps if roles.param_roles.get((f.name, p_)) == {"C"}]
        # the two sides of a comparison are ADJACENT parameters (baseline first); a task name taken from the baseline's task list also carries the baseline role
        pair = [(ps[i], ps[i + 1]) for i in range(len(ps) - 1) if ps[i] in pb and ps[i + 1] in pc]
        if len(pair) != 1:
            continue
        pb, pc = [pair[0][0]], [pair[0][1]]

        fdefs = local_defs(f)

        def chain_base(e):
            """the name a pure selection chain (attribute / subscript / method call on the receiver, getattr(receiver, ...)) starts from, else None"""
            while True:
                if isinstance(e, (ast.Attribute, ast.Subscript)):
                    e = e.value
                elif isinstance(e, ast.Call) and isinstance(e.func, ast.Attribute):
                    e = e.func.value
                elif isinstance(e, ast.Call) and dotted(e.func) == "getattr" and e.args:
                    e = e.args[0]
                else:
                    return e.id if isinstance(e, ast.Name) else None

        def derived(root):
            """the race parameter and the single-assignment locals that hold a record SELECTED from it (a hoisted lookup such as `rec = race.metrics(task)["throughput"]`):
            what is later selected from such a local is selected from the race"""
            names = {root}
            for _ in range(4):
                names |= {k_ for k_, v_ in fdefs.items() if chain_base(v_) in names and not isinstance(v_, ast.Name)}
            return names

        def selectors(root):
            out = set()
            names = derived(root)
            for n in ast.walk(f):
                if isinstance(n, ast.Name) and n.id in names and isinstance(n.ctx, ast.Load) and not in_log(n):
                    top = n
                    while isinstance(source.parent(top), (ast.Attribute, ast.Subscript)) and source.parent(top).value is top or \
                            (isinstance(source.parent(top), ast.Call) and source.parent(top).func is top):
                        top = source.parent(top)
                    if isinstance(source.parent(top), ast.Call) and dotted(source.parent(top).func) == "getattr" and source.parent(top).args and source.parent(top).args[0] is top:
                        top = source.parent(top)
                    # an extracted lookup `self.m(<race>, ...)[...]`: the helper call is part of the selection when it is handed this race and not the other one
                    hc = source.parent(top)
                    if top is n and isinstance(hc, ast.Call) and any(a_ is top for a_ in hc.args) and isinstance(hc.func, ast.Attribute) and isinstance(hc.func.value, ast.Name) and \
                            hc.func.value.id == "self" and hc.func.attr in cm and cm[hc.func.attr] is not line and \
                            not any(isinstance(x, ast.Name) and x.id in (set(pb + pc) - {root}) for x in ast.walk(hc)) and \
                            isinstance(source.parent(hc), (ast.Attribute, ast.Subscript)):
                        top = hc
                        while isinstance(source.parent(top), (ast.Attribute, ast.Subscript)) and source.parent(top).value is top or \
                                (isinstance(source.parent(top), ast.Call) and source.parent(top).func is top):
                            top = source.parent(top)
                    if top is n and n.id != root:
                        continue  # the bare local handed on: its selection is the one of its definition
                    t_ = source.inline(top, {k_: fdefs[k_] for k_ in names if k_ in fdefs}) if n.id != root else ast.unparse(top)
                    out.add(re.sub(r"\b" + re.escape(root) + r"\b", "<race>", t_))
            return out

        # the unit of a line is taken from one side only (by design: both races measure the same thing); that selection is not a compared value
        unit_only = lambda t_: t_.endswith("['unit']") or t_.endswith(".unit")  # noqa: E731
        sb, sc = {t_ for t_ in selectors(pb[0]) if not unit_only(t_)}, {t_ for t_ in selectors(pc[0]) if not unit_only(t_)}
        if not sb and not sc:
            continue
        n_sym += 1
        only_b, only_c = sorted(sb - sc), sorted(sc - sb)
        # a bare pass-through of the race object itself (handed to a helper) is symmetric by construction
        ok = not only_b and not only_c
        chk.ob("O20.2", f"{name}: the same selections are made from the baseline and from the contender race", ok, f,
               "" if ok else f"only from the baseline: {only_b}; only from the contender: {only_c} — the line compares two different metrics", key=f"{_R}:ComparisonReporter.{name}:symmetric-selectors")
    located(n_sym >= 10, "O20.2", "reporting methods with both races located", rep, f"{n_sym} method(s)")
    # report(): GlobalStats(r1.results) first
    mcalls = [n for n in walk_body(rep) if isinstance(n, ast.Call) and u(n.func) == "self._metrics_table"]
    renv = roles.env_for(rep)
    mtp = params_of(mt)
    if len(mtp) < 4:
        raise AnchorMissing("_metrics_table(self, baseline_stats, contender_stats, plain)")
    mbind = [bind_args(c, mt) for c in mcalls]
    mroles = [(roles.deps(b_.get(mtp[1]), renv), roles.deps(b_.get(mtp[2]), renv)) for b_ in mbind]
    if not mcalls or any((not db_ or not dc_) and "C" not in db_ and "B" not in dc_ for db_, dc_ in mroles):
        chk.unknown("O20.2", f"the race(s) handed to _metrics_table cannot be derived ({len(mcalls)} call(s) in report(); roles {[(sorted(x), sorted(y)) for x, y in mroles]})", mcalls[0] if mcalls else rep)
    else:
        chk.ob("O20.2", "both tables built from (baseline, contender) in that order", all(db_ == {"B"} and dc_ == {"C"} for db_, dc_ in mroles), mcalls[0],
               "; ".join(f"({sorted(x)}, {sorted(y)})" for x, y in mroles))

    # ---- O20.3 difference and colours ----------------------------------------------------------------------------------------------------------------
    chk.rule("O20.3", "_diff decided on VALUES (its own statements evaluated for representative baseline / contender pairs incl. zero and negative ones): d == contender - baseline "
             "(absolute: formatter(c - b); relative: (c - b) / |b| * 100, zero-safe); a cell is signed ('+' on positive values) and coloured exactly when its PRINTED value is non-zero "
             "(t = 10^-precision: 0.6t is marked, 0.4t is neutral); colour table plain -> bare text x3, increase-good -> (+green, -red), decrease-good -> (+red, -green), prints as zero -> neutral; "
             "the relative cell carries the sign and colour of the absolute cell; swapping the races flips both; self comparison prints an unsigned zero", 14,
             "self-comparison not neutral, swapping the races does not flip sign/colour, or improvement/regression colours exchanged")
    dp = params_of(diff)
    if len(dp) < 6:
        raise AnchorMissing("_diff(self, baseline, contender, treat_increase_as_improvement, formatter, as_percentage)")
    bpar, cpar, flagp, fmtp, pctp = dp[1], dp[2], dp[3], dp[4], dp[5]
    from sa import minieval

    own_stmts = _own_stmts

    # helpers of _diff: the methods of the reporter reachable from it through `<self>.m` (called or handed on as a value); an extracted helper is analysed with its caller
    def closure_of(f0):
        seen, work = [f0], [f0]
        while work:
            g = work.pop()
            recv = set(params_of(g)[:1]) | {CR.name}
            for n in ast.walk(g):
                if isinstance(n, ast.Attribute) and isinstance(n.value, ast.Name) and n.value.id in recv and n.attr in cm and cm[n.attr] not in seen:
                    seen.append(cm[n.attr])
                    work.append(cm[n.attr])
        return seen

    diff_closure = closure_of(diff)
    mod_funcs = {n.name: n for n in rp.tree.body if isinstance(n, ast.FunctionDef)}

    def within(n, funcs):
        """n lies in one of the functions (or in a function nested in one of them)."""
        return any(a is f_ for a in source.ancestors(n) for f_ in funcs)

    # site anchors only (the decisions below are evaluated on values, never read off these statements): the statement (of _diff or of a helper of it) that branches on the plain
    # flag and the last top-level decision of _diff that returns
    plain_reads = [n for f_ in diff_closure for n in ast.walk(f_) if is_self_attr(n, FLAG) and isinstance(n.ctx, ast.Load)]
    sel_if = [n for n in diff.body if isinstance(n, ast.If) and any(is_self_attr(x, FLAG) for m in ast.walk(n) if isinstance(m, ast.If) for x in ast.walk(m.test))]
    sel_node = sel_if[0] if sel_if else (source.enclosing_stmt(plain_reads[0]) if plain_reads else diff)
    final = [n for n in diff.body if isinstance(n, ast.If) and n not in sel_if and any(isinstance(x, ast.Return) for x in ast.walk(n))]
    fnode = final[-1] if final else diff

    G, S, N = "console.format.green", "console.format.red", "console.format.neutral"
    cells = {}
    # OTHER SETTINGS of the reporter that the cell / line construction reads (`self.report_format`, ...): attributes of the reporter besides the mode flag that _diff, _line or a
    # helper method of them loads. The property speaks about every configuration, so the statements are evaluated with each of them at representative values: the constants
    # the attribute (or the parameter of a function of the module it is handed to) is compared with anywhere in the reporter module, True / False, and - first, the value the
    # tables below are evaluated with - a text no test knows.
    settings = {}
    for f_ in closure_of(diff) + [g_ for g_ in closure_of(line) if g_ not in diff_closure]:
        rcv = params_of(f_)[:1]
        for n in ast.walk(f_):
            if isinstance(n, ast.Attribute) and isinstance(n.ctx, ast.Load) and isinstance(n.value, ast.Name) and [n.value.id] == rcv and n.attr != FLAG and n.attr not in cm and n.attr != "logger" and not in_log(n):
                settings.setdefault(n.attr, ["\x00other"])

    def _compared_constants(scope_node, is_subject):
        out = []
        for n in ast.walk(scope_node):
            if isinstance(n, ast.Compare) and any(is_subject(x) for x in [n.left] + n.comparators):
                for x in [n.left] + n.comparators:
                    for y in (x.elts if isinstance(x, (ast.Tuple, ast.List, ast.Set)) else [x]):
                        if isinstance(y, ast.Constant) and isinstance(y.value, (str, int, float)) and not isinstance(y.value, bool):
                            out.append(y.value)
        return out

    for a_, dom in settings.items():
        def is_attr(x, a_=a_):
            return isinstance(x, ast.Attribute) and x.attr == a_ and isinstance(x.value, ast.Name) and x.value.id == "self"
        found = _compared_constants(CR, is_attr)
        for n in ast.walk(CR):
            if isinstance(n, ast.Call) and any(is_attr(x) for x in list(n.args) + [k_.value for k_ in n.keywords]):
                callee = mod_funcs.get(n.func.id) if isinstance(n.func, ast.Name) else (cm.get(n.func.attr) if isinstance(n.func, ast.Attribute) and isinstance(n.func.value, ast.Name) and n.func.value.id == "self" else None)
                if callee is not None:
                    try:
                        bound_ = bind_args(n, callee)
                    except Exception:  # noqa: BLE001 - a call this cannot be bound for contributes no value
                        continue
                    for p_, e_ in bound_.items():
                        if e_ is not None and is_attr(e_):
                            found += _compared_constants(callee, lambda x, p_=p_: isinstance(x, ast.Name) and x.id == p_)
        for v_ in found + [True, False]:
            if not any(v_ == w_ and type(v_) is type(w_) for w_ in dom):
                dom.append(v_)
    cfg_now = [{a_: dom[0] for a_, dom in settings.items()}]

    def self_rec(plain):
        """the reporter object the statements are evaluated with: the mode flag and the other settings at their current representative values"""
        return minieval.Record(**dict(cfg_now[0], **{FLAG: plain}))

    def cell(plain, inc, pct, b, c, fmt=None):
        """the cell _diff produces for (self.plain, direction flag, as_percentage, baseline, contender[, formatter — default: _diff's own default]): its statements are
        evaluated on these values; the operands are bound by parameter POSITION (as _line passes them), the mode and formatter by parameter name."""
        k_ = (plain, inc, pct, b, c, fmt) + ((repr(sorted(cfg_now[0].items(), key=repr)),) if cfg_now[0] else ())
        if k_ not in cells:
            it = _Interp(cm, mod_funcs)
            kw = {pctp: pct}
            if fmt is not None:
                kw[fmtp] = fmt
            elif dp.index(fmtp) < len(dp) - len(diff.args.defaults):
                kw[fmtp] = lambda x: x  # _diff declares no default formatter: the identity is supplied by the rule
            try:
                r = it.call(diff, [self_rec(plain), b, c, inc], kw, {})
            except (Unsupported, UnknownAtom, minieval.CannotEval) as e:
                if "ZeroDivisionError" not in str(e):
                    raise _CaseFailed(f"_diff(plain={plain}, {b}, {c}, {inc}, as_percentage={pct}): {type(e).__name__}: {e}")
                cells[k_] = _Cell(crash="ZeroDivisionError", trace=it.trace)
                cells[k_].applied = it.applied
                return cells[k_]
            except (TypeError, ValueError, AttributeError, KeyError, IndexError, ArithmeticError, RecursionError) as e:
                raise _CaseFailed(f"_diff(plain={plain}, {b}, {c}, {inc}, as_percentage={pct}): {type(e).__name__}: {e}")
            if isinstance(r, _Styled) and isinstance(r.text, str):
                cells[k_] = _Cell(r.colour, r.text, it.trace)
            elif isinstance(r, str):
                cells[k_] = _Cell(None, r, it.trace)
            else:
                raise _CaseFailed(f"_diff(plain={plain}, {b}, {c}, {inc}, as_percentage={pct}) yields {r!r}: neither a text nor a colour function applied to a text")
            cells[k_].applied = it.applied
        return cells[k_]

    def colour_for(sign, inc):
        return N if sign == 0 else (G if (sign > 0) == inc else S)

    plain_mismatch = []
    n_cases = [0]

    def judge(pct, b, c, want, decimals, fmt=None, unsigned_zero=False):
        """'' when the cell for (b, c) is right in both directions, rich and plain: it shows `want` rounded to the printed decimals; it is coloured by direction and carries
        its sign ('+' on positive values) iff the printed value is non-zero, neutral and without '+' otherwise; the plain cell is the same text without a colour function."""
        bad = []
        for inc in (True, False):
            r, p = cell(False, inc, pct, b, c, fmt), cell(True, inc, pct, b, c, fmt)
            n_cases[0] += 1
            tag = f"({b}, {c}) {'increase' if inc else 'decrease'}-good -> {r.show()}"
            if r.crash or r.sign is None or r.decimals != decimals:
                bad.append(f"{tag}: not a number with {decimals} decimals")
                continue
            if p.crash or p.colour is not None or p.text != r.text:
                plain_mismatch.append(f"({b}, {c}, as_percentage={pct}): plain {p.show()} vs rich {r.show()}")
            shown_want = float(format(want, f".{decimals}f"))
            if abs(r.value - shown_want) > 10.0 ** -decimals / 1000:
                bad.append(f"{tag}: shows {r.value}, expected {shown_want}")
            elif r.colour != colour_for(r.sign, inc):
                bad.append(f"{tag}: expected {colour_for(r.sign, inc).rsplit('.', 1)[-1]} for a printed value {'> 0' if r.sign > 0 else ('< 0' if r.sign < 0 else 'of zero')}")
            elif r.plus != ("+" if r.sign > 0 else "") or (r.sign < 0 and r.minus != "-"):
                bad.append(f"{tag}: sign prefix {r.plus + r.minus!r}")
            elif unsigned_zero and r.sign == 0 and r.minus:
                bad.append(f"{tag}: a zero printed with a minus sign")
        return "; ".join(bad)

    def rel(b, c):
        return (c - b) / abs(b) * 100.0

    try:
        # the number of decimals each mode prints (t = 10^-decimals is the smallest printable step), read off one evaluated cell per mode
        dec = {False: cell(True, True, False, 1.0, 2.0).decimals, True: cell(True, True, True, 100.0, 101.0).decimals}
        if any(d_ is None or d_ < 1 for d_ in dec.values()):
            raise _CaseFailed(f"printed decimals cannot be read off the cells {cell(True, True, False, 1.0, 2.0).show()} / {cell(True, True, True, 100.0, 101.0).show()}")
        # --- difference formulas on values (incl. negative baselines; sign, magnitude, formatter) ---
        PAIRS = [(10, 5), (-10, -5), (-4000, 1000), (4, 5), (-4, -5), (2, -2), (-3, 7), (2.5, 1.0)]
        bad = [m_ for b_, c_ in PAIRS for m_ in [judge(True, b_, c_, rel(b_, c_), dec[True])] if m_]
        asg = [n for n in ast.walk(diff) if isinstance(n, ast.Assign) and any(isinstance(x, (ast.Div, ast.Call)) for x in ast.walk(n.value)) and
               {bpar, cpar} <= {x.id for x in ast.walk(n.value) if isinstance(x, ast.Name)} and any(isinstance(g_, ast.Name) and g_.id == pctp for t_, _ in guards(n) for g_ in ast.walk(t_))]
        rel_n = asg[0] if asg else diff
        chk.ob("O20.3", "relative difference == (contender - baseline) / |baseline| * 100 (value table incl. negative baselines: -10 -> -5 is +50.00%, -4000 -> 1000 is +125.00%, 10 -> 5 is -50.00%)",
               not bad, rel_n, "; ".join(bad)[:400], key=f"{_R}:ComparisonReporter._diff:relative-value")
        # zero-safe division, decided on the divisors that actually reach it: baselines 3, -3 and 0
        bad, reach = [], []
        for b_, c_ in ((3, 9), (3, -3), (-3, 3), (-3, -9), (0, 0), (0, 5), (0, -5)):
            for inc in (True, False):
                r = cell(False, inc, True, b_, c_)
                reach += [f"{f_.name}{a_} -> {v_}" for f_, a_, v_ in r.trace if f_ is not diff and any(isinstance(x, ast.Div) for x in ast.walk(f_))]
                if r.crash:
                    bad.append(f"({b_}, {c_}) -> {r.show()}")
            if b_ != 0 or c_ == 0:
                m_ = judge(True, b_, c_, rel(b_, c_) if b_ else 0.0, dec[True])
                if m_:
                    bad.append(m_)
        helpers = [f_ for r in cells.values() for f_, a_, v_ in r.trace if f_ is not diff and any(isinstance(x, ast.Div) for x in ast.walk(f_))]
        div_n = helpers[0] if helpers else rel_n
        chk.ob("O20.3", "division is zero-safe (0 when the baseline is 0) and exact for every divisor that reaches it (baselines 3, -3, 0)", not bad, div_n,
               ("; ".join(bad) + " | reached: " + ", ".join(sorted(set(reach))))[:400] if bad else "", key=f"{_R}:ComparisonReporter._diff:zero-safe-division")
        double = lambda x: x * 2  # noqa: E731  a linear formatter supplied by the rule (a fixed unit conversion)
        bad = [m_ for b_, c_ in PAIRS + [(0, 7), (7, 0)] for m_ in [judge(False, b_, c_, (c_ - b_) * 2, dec[False], fmt=double), judge(False, b_, c_, c_ - b_, dec[False])] if m_]
        asg = [n for n in ast.walk(diff) if isinstance(n, ast.Assign) and any(isinstance(x, ast.Call) and isinstance(x.func, ast.Name) and x.func.id == fmtp for x in ast.walk(n.value))]
        chk.ob("O20.3", "absolute difference == formatter(contender - baseline) (value table, linear formatter x2 and the default)", not bad, asg[0] if asg else diff, "; ".join(bad)[:400], key=f"{_R}:ComparisonReporter._diff:absolute-value")
        # the relative cell carries the sign and colour of the absolute cell (baseline != 0)
        bad = []
        for b_, c_ in PAIRS:
            for inc in (True, False):
                a_, r_ = cell(False, inc, False, b_, c_), cell(False, inc, True, b_, c_)
                if a_.crash or r_.crash or a_.sign is None or r_.sign is None or (a_.colour, a_.sign, a_.plus) != (r_.colour, r_.sign, r_.plus):
                    bad.append(f"({b_}, {c_}): Diff {a_.show()} but Diff % {r_.show()}")
        chk.ob("O20.3", "the relative cell has the sign and the colour of the absolute cell (baselines 10, -10, -4000, 4, -4, 2, -3, 2.5)", not bad, rel_n, "; ".join(bad)[:400],
               key=f"{_R}:ComparisonReporter._diff:relative-sign-agrees")
        # swapping baseline and contender flips every sign and colour (both cells, both directions; values != 0)
        bad = []
        flip = {G: S, S: G}
        for b_, c_ in PAIRS:
            for inc, pct in itertools.product((True, False), repeat=2):
                x_, y_ = cell(False, inc, pct, b_, c_), cell(False, inc, pct, c_, b_)
                if x_.crash or y_.crash or not x_.sign or not y_.sign or x_.sign != -y_.sign or flip.get(x_.colour) != y_.colour:
                    bad.append(f"{'Diff %' if pct else 'Diff'} ({b_}, {c_}) -> {x_.show()}, swapped -> {y_.show()}")
        chk.ob("O20.3", "swapping baseline and contender flips sign and colour of both cells (value table incl. negative values)", not bad, fnode, "; ".join(bad)[:400],
               key=f"{_R}:ComparisonReporter._diff:swap-flips")
        # comparing a value with itself: an unsigned zero in the neutral colour, both cells
        bad = [m_ for v_ in (3, -3, 0, 2.5, -4000.0, 0.0) for pct in (False, True) for m_ in [judge(pct, v_, v_, 0.0, dec[pct], unsigned_zero=True)] if m_]
        chk.ob("O20.3", "self comparison prints an unsigned zero in the neutral colour in both cells (values 3, -3, 0, 2.5, -4000.0)", not bad, fnode, "; ".join(bad)[:400],
               key=f"{_R}:ComparisonReporter._diff:self-neutral")
        # a change away from a ZERO baseline: the absolute cell is marked, so the relative cell must be marked the same way (not a neutral 0.00%)
        bad = []
        for c_ in (50, -50, 0.5):
            for inc in (True, False):
                a_, r_ = cell(False, inc, False, 0, c_), cell(False, inc, True, 0, c_)
                if a_.colour in (G, S) and (r_.crash or r_.colour != a_.colour or (r_.plus, r_.minus) != (a_.plus, a_.minus)):
                    bad.append(f"(0, {c_}) {'increase' if inc else 'decrease'}-good: Diff {a_.show()} but Diff % {r_.show()}")
        chk.ob("O20.3", "baseline 0, contender != 0: the relative cell is marked with the sign and colour of the absolute cell (not a neutral 0.00%)", not bad, div_n, "; ".join(bad)[:400],
               key=f"{_R}:ComparisonReporter._diff:relative-from-zero-baseline")

        # --- colour table over (plain, increase-good): the colour function applied for d = 2t, -2t and 0, read off the evaluated cells in both modes ---
        def at(pct, k):
            """(baseline, contender) whose difference in this mode is k * t, t = 10^-decimals of the mode"""
            base = 100.0 if pct else 1.0
            return base, base + k * 10.0 ** -dec[pct]

        want_tab = {(True, True): ("identity", "identity", "identity"), (True, False): ("identity", "identity", "identity"), (False, True): (G, S, N), (False, False): (S, G, N)}
        for plain, inc in itertools.product([True, False], repeat=2):
            per_mode = {}
            for pct in (False, True):
                cs = [cell(plain, inc, pct, *at(pct, k)) for k in (2, -2, 0)]
                per_mode[pct] = tuple("<" + c_.crash + ">" if c_.crash else (c_.colour or "identity") for c_ in cs)
            got3 = per_mode[False] if per_mode[False] != want_tab[(plain, inc)] or per_mode[True] == want_tab[(plain, inc)] else per_mode[True]
            g_, s_, n_ = got3
            mode = "plain" if plain else ("increase is improvement" if inc else "decrease is improvement")
            chk.ob("O20.3", f"colours for {mode}{' (flag ' + str(inc) + ')' if plain else ''}", all(per_mode[pct] == want_tab[(plain, inc)] for pct in per_mode), sel_node,
                   f"(+, -, 0) -> ({g_}, {s_}, {n_}); expected {want_tab[(plain, inc)]}", key=f"{_R}:_diff:colours:{plain}|{inc}")
        # --- the nine positions of d relative to t = 10^-decimals: 2t, t, 0.6t, 0.4t, 0, -0.4t, -0.6t, -t, -2t, in both modes and both directions: a cell whose printed value is
        # non-zero is signed and coloured, one that prints as zero is neutral (0.6t prints as 0.00001 / 0.01% and must be marked, 0.4t prints as zero) ---
        for pct in (True, False):
            mode = "relative" if pct else "absolute"
            t = 10.0 ** -dec[pct]

            def pos(*ks):
                return "; ".join(m_ for k in ks for m_ in [judge(pct, *at(pct, k), k * t, dec[pct])] if m_)[:400]

            m_ = pos(0.6, 0.4, -0.4, -0.6)
            chk.ob("O20.3", f"neutral exactly when the difference PRINTS as zero: d = +-0.6t (prints as +-{t:.{dec[pct]}f}) is signed and coloured, d = +-0.4t is neutral ({mode})", not m_, fnode, m_,
                   key=f"{_R}:_diff:threshold:{mode}")
            m_ = pos(2)
            chk.ob("O20.3", f"d = 2t -> colour for increase, '+' prefix ({mode}, both directions)", not m_, fnode, m_, key=f"{_R}:_diff:above:{mode}")
            m_ = pos(-2)
            chk.ob("O20.3", f"d = -2t -> colour for decrease, no prefix ({mode}, both directions)", not m_, fnode, m_, key=f"{_R}:_diff:below:{mode}")
            m_ = pos(0)
            chk.ob("O20.3", f"d = 0 -> neutral, no prefix ({mode})", not m_, fnode, m_, key=f"{_R}:_diff:between:{mode}")
            m_ = pos(1, -1)
            chk.ob("O20.3", f"mirrored: d = t and d = -t (print as +-{t:.{dec[pct]}f}) are both signed and coloured ({mode})", not m_, fnode, m_, key=f"{_R}:_diff:mirror:{mode}")
    except _CaseFailed as e:
        chk.unknown("O20.3", f"_diff cannot be evaluated on values: {e}", fnode)
        dec = None
    # every OTHER setting the cell construction reads: under each of its representative values (one setting varied at a time) the cells are still signed and coloured by the
    # printed value, and the plain cell is still the text of the rich cell - the file output is the console output without colour codes in EVERY configuration (a "+" dropped,
    # another precision or a colour kept for one report format on one of the two paths makes the two outputs differ)
    deferred_o4 = [("settings of the reporter the difference cells depend on besides the mode flag", True, diff, ", ".join(f"{a_} in {dom!r}" for a_, dom in settings.items()) or "none", None)]
    for a_, dom in settings.items() if dec else ():
        site_ = next((n for f_ in closure_of(diff) + closure_of(line) for n in ast.walk(f_) if isinstance(n, ast.Attribute) and n.attr == a_ and isinstance(n.value, ast.Name) and [n.value.id] == params_of(f_)[:1]), diff)
        for v_ in dom[1:]:
            keep_cfg, keep_pm = cfg_now[0], list(plain_mismatch)
            cfg_now[0] = dict(keep_cfg, **{a_: v_})
            del plain_mismatch[:]
            try:
                bad = [m_ for pct in (False, True) for b_, c_ in ((10, 12), (12, 10), (5, 5), (-4, -5), (2.5, 1.0)) for m_ in [judge(pct, b_, c_, rel(b_, c_) if pct else c_ - b_, dec[pct])] if m_]
                pm_ = list(plain_mismatch)
                chk.ob("O20.3", f"with self.{a_} = {v_!r}: every difference cell shows the difference, signed ('+' on positive values) and coloured by direction iff it prints as non-zero", not bad, site_,
                       "; ".join(bad)[:400], key=f"{_R}:ComparisonReporter._diff:setting:{a_}:{v_!r}:cells")
                deferred_o4.append((f"with self.{a_} = {v_!r}: the plain cell (report file) is the text of the rich cell (console) without a colour function", not pm_, site_,
                                    "; ".join(pm_[:3])[:400] if pm_ else "", f"{_R}:ComparisonReporter._diff:setting:{a_}:{v_!r}:plain-equals-rich"))
            except _CaseFailed as e:
                chk.unknown("O20.3", f"_diff cannot be evaluated on values with self.{a_} = {v_!r}: {e}", site_)
            finally:
                cfg_now[0] = keep_cfg
                plain_mismatch[:] = keep_pm
    # the function in the colour role of PLAIN mode returns its argument. By role, not by name: in every evaluated plain cell, the callable of the analysed code (nested helper,
    # lambda, method, static method, module-level function) that was applied LAST and whose value is the cell; decided on the (argument, result) pairs of those applications
    plain_cells = [c_ for k_, c_ in cells.items() if k_[0] is True and not c_.crash]
    if plain_cells:
        by_fn = {}
        for c_ in plain_cells:
            app = [(fv, a_, r_) for fv, a_, r_ in getattr(c_, "applied", []) if fv is not diff]
            if app and len(app[-1][1]) == 1 and isinstance(app[-1][1][0], str) and isinstance(app[-1][2], str) and app[-1][2] == c_.text:
                fv, a_, r_ = app[-1]
                fn_ = fv.fn if isinstance(fv, _Bound) else fv
                by_fn.setdefault(id(fn_), (fn_, []))[1].append((a_[0], r_))
        bad = [f"{getattr(fn_, 'name', 'lambda')}({a_!r}) -> {r_!r}" for fn_, prs in by_fn.values() for a_, r_ in prs if a_ != r_]
        names_ = sorted({getattr(fn_, "name", "lambda") for fn_, _ in by_fn.values()})
        chk.ob("O20.3", "identity returns its argument (the function applied to the cell text in plain mode, located by role)", not bad, next(iter(by_fn.values()))[0] if by_fn else sel_node,
               "; ".join(bad[:3])[:300] if bad else (f"{', '.join(names_)}: {sum(len(prs) for _, prs in by_fn.values())} application(s)" if by_fn else "no function is applied to the text in plain mode"),
               key=f"{_R}:ComparisonReporter._diff:plain-identity")
    # _line passes the same operands and flag to both _diff calls, in order, and builds the row [metric, task, baseline, contender, diff, unit, diff %]: decided on VALUES -
    # the statements of _line are evaluated (helpers and _diff interpreted with it) for sentinel texts and representative operands, both directions, rich and plain, the default
    # and a linear formatter; cell 4 must be the absolute and cell 6 the relative difference cell that _diff yields for (baseline, contender, flag, formatter) of the line
    dcalls = [n for n in walk_body(line) if isinstance(n, ast.Call) and u(n.func) == "self._diff"]
    ldefs = local_defs(line)

    def is_param(e, name):
        """e is the parameter `name` of _line (possibly through a single-assignment local)."""
        e = ldefs.get(e.id, e) if isinstance(e, ast.Name) and e.id not in lp else e
        return isinstance(e, ast.Name) and e.id == name

    def relative(c):
        v = bind_args(c, diff).get(pctp)
        if v is None:
            return False
        return True if source.is_const(v, True) else (False if source.is_const(v, False) else None)

    def passes_operands(c):
        b_ = bind_args(c, diff)
        return not any(isinstance(a, ast.Starred) for a in c.args) and all(b_.get(p_) is not None and is_param(b_[p_], q_) for p_, q_ in ((bpar, P_BASE), (cpar, P_CONT), (flagp, P_FLAG), (fmtp, P_FMT)))

    row = [n for n in walk_body(line) if isinstance(n, ast.Return) and isinstance(n.value, ast.List) and len(n.value.elts) == 7]
    syn_calls = len(dcalls) == 2 and all(passes_operands(c) for c in dcalls) and sorted(str(relative(c)) for c in dcalls) == ["False", "True"]
    syn_row = False
    if row:
        el = [ldefs.get(e.id, e) if isinstance(e, ast.Name) and e.id not in lp else e for e in row[0].value.elts]

        def formatted(e, name):
            return isinstance(e, ast.Call) and is_param(e.func, P_FMT) and len(e.args) == 1 and not e.keywords and is_param(e.args[0], name)

        syn_row = is_param(el[0], P_METRIC) and formatted(el[2], P_BASE) and formatted(el[3], P_CONT) and any(isinstance(x, ast.Name) and x.id == P_TASK for x in ast.walk(el[1])) and is_param(el[5], P_UNIT) and \
            el[4] in dcalls and relative(el[4]) is False and el[6] in dcalls and relative(el[6]) is True
    bad_cells, bad_row, n_rows, why_not = [], [], 0, None
    try:
        double_ = lambda x: x * 2  # noqa: E731
        for plain, inc, (b_, c_), fmt in itertools.product((False, True), (True, False), ((3.0, 5.0), (5.0, 3.0), (2.0, 2.0), (-4.0, 1.5)), (None, double_)):
            it = _Interp(cm, mod_funcs)
            kw = {P_FMT: fmt} if fmt is not None else ({} if P_FMT in line_defaults else {P_FMT: (lambda x: x)})
            try:
                r = it.call(line, [self_rec(plain), "<metric>", b_, c_, "<task>", "<unit>", inc], kw, {})
            except (Unsupported, UnknownAtom, minieval.CannotEval, TypeError, ValueError, AttributeError, KeyError, IndexError, ArithmeticError, RecursionError) as e:
                raise _CaseFailed(f"_line({b_}, {c_}, flag={inc}, plain={plain}): {type(e).__name__}: {e}")
            n_rows += 1
            tag = f"_line('<metric>', {b_}, {c_}, '<task>', '<unit>', {inc}{', x2' if fmt else ''}){' plain' if plain else ''}"
            if not isinstance(r, (list, tuple)) or len(r) != 7:
                bad_row.append(f"{tag} -> {r!r}: not a row of 7 cells")
                continue
            f_ = fmt or (lambda x: x)
            want5 = ["<metric>", "<task>", f_(b_), f_(c_), "<unit>"]
            got5 = [r[0], r[1], r[2], r[3], r[5]]
            if got5 != want5:
                bad_row.append(f"{tag} -> {got5} in the metric / task / baseline / contender / unit cells, expected {want5}")
            for i_, pct in ((4, False), (6, True)):
                w_ = cell(plain, inc, pct, b_, c_, fmt)
                got = (r[i_].colour, r[i_].text) if isinstance(r[i_], _Styled) else (None, r[i_])
                if not w_.crash and got != (w_.colour, w_.text):
                    bad_cells.append(f"{tag}: cell {i_} is {r[i_]!r}, _diff({b_}, {c_}, {inc}, as_percentage={pct}) is {w_.show()}")
    except _CaseFailed as e:
        why_not = str(e)
    if why_not is None:
        chk.ob("O20.3", "_line -> _diff(baseline, contender, flag, formatter) twice (absolute, relative)", not bad_cells, line, "; ".join(bad_cells[:2])[:400] if bad_cells else f"{n_rows} row(s) evaluated")
        chk.ob("O20.3", "row == [metric, task, baseline, contender, diff, unit, diff %]", not bad_row, row[0] if row else line, "; ".join(bad_row[:2])[:400] if bad_row else f"{n_rows} row(s) evaluated")
    else:
        # not evaluable: the syntactic reading decides when it recognises the shape, otherwise the shape is not recognised (never a finding)
        for what, syn in (("_line -> _diff(baseline, contender, flag, formatter) twice (absolute, relative)", syn_calls), ("row == [metric, task, baseline, contender, diff, unit, diff %]", syn_row)):
            if syn:
                chk.ob("O20.3", what, True, line, "read off the statements")
            else:
                chk.unknown("O20.3", f"{what}: _line cannot be evaluated on values ({why_not}) and is not in the literal shape either", line)

    # ---- O20.4 plain vs rich ---------------------------------------------------------------------------------------------------------------------------------
    chk.rule("O20.4", "the plain flag is read only at colour selection; both tables come from the same routine with only that flag differing; the writer applies the same formatter to both "
             "and sends plain to the file, rich to the console", 5,
             "the report file contains colour escape codes or differs from the console output")
    # "at colour selection" = in _diff or in a helper method reachable from it (an extracted colour-selection helper is part of the evaluated cell: the value tables of O20.3
    # interpret it together with _diff); a helper that code outside this closure uses as well would let the flag act on something else than the difference cell
    helpers_shared = [h for h in diff_closure if h is not diff and any(
        isinstance(n, ast.Attribute) and n.attr == h.name and isinstance(n.value, ast.Name) and n.value.id in (set(params_of(g)[:1]) | {CR.name}) and not within(n, diff_closure)
        for g in cm.values() for n in ast.walk(g))]

    def confined(nodes, what):
        """None when every node lies in _diff or an unshared helper of it, else the first offending node (inconclusive when it lies in a shared helper)."""
        told = set()
        for n in nodes:
            if not within(n, diff_closure):
                return n
            if within(n, helpers_shared) and source.enclosing_func(n).name not in told:
                told.add(source.enclosing_func(n).name)
                chk.unknown("O20.4", f"{what} in `{source.enclosing_func(n).name}`, a helper of _diff that is also used outside the difference cell", n)
        return None

    # a read of the flag: `<receiver>.plain`, the receiver being the first parameter of the method the read lies in (whatever it is called)
    reads = [n for m_ in cm.values() for n in ast.walk(m_) if isinstance(n, ast.Attribute) and n.attr == FLAG and isinstance(n.ctx, ast.Load) and isinstance(n.value, ast.Name) and
             n.value.id in params_of(m_)[:1] and not in_log(n)]
    if not reads:
        chk.unknown("O20.4", "no read of the plain flag located in the comparison reporter (how does the file table differ from the console table?)", CR)
    else:
        off = confined(reads, "the plain flag is read")
        chk.ob("O20.4", "self.plain read only in _diff (or a helper method only _diff uses)", off is None, off or reads[0],
               f"{len(reads)} read(s)" + ("" if off is None else f"; read in {source.qualname(off)}"))
    # file output == console output without colour codes, at the cell: every _diff case evaluated above (value tables of O20.3, rich and plain) gave the same text in both
    # modes and no colour function in plain mode
    if n_cases[0]:
        chk.ob("O20.4", "in plain mode every evaluated difference cell is the text of the rich cell without a colour function", not plain_mismatch, sel_node,
               f"{n_cases[0]} case(s)" if not plain_mismatch else "; ".join(plain_mismatch[:3])[:400], key=f"{_R}:ComparisonReporter._diff:plain-equals-rich-text")
    for inst_, ok_, node_, detail_, key_ in deferred_o4:
        chk.ob("O20.4", inst_, ok_, node_, detail_, key=key_)
    # every colour function assigned in the plain arm is identity — covered by the table; additionally no colour call outside _diff
    cols = [n for n in ast.walk(CR) if isinstance(n, ast.Attribute) and u(n).startswith("console.format.") and source.enclosing_func(n) is not None]
    off = confined(cols, "a colour function is selected")
    chk.ob("O20.4", "no colour formatting outside _diff (and the helper methods only _diff uses) in the comparison reporter", off is None, off or CR, "" if off is None else f"in {source.qualname(off)}")
    rdefs = local_defs(rep)

    def plain_arg(c):
        """the boolean a _metrics_table call passes as its plain flag (through single-assignment locals of report()), None when it is not a constant"""
        e = bind_args(c, mt).get(mtp[3])
        e = source.inline_node(e, rdefs) if e is not None else None
        return const_bool(e)

    def expand_display(e):
        """a comprehension / generator expression over a LITERAL table as the display it builds (one element per row, the loop variables substituted); a display is itself"""
        if isinstance(e, (ast.ListComp, ast.GeneratorExp, ast.SetComp, ast.DictComp)) and len(e.generators) == 1 and not e.generators[0].ifs:
            els = literal_elements(e.generators[0].iter, rdefs)
            rows = [bind_target(e.generators[0].target, el) for el in els] if els is not None else [None]
            if any(r_ is None for r_ in rows):
                return None
            if isinstance(e, ast.DictComp):
                return ast.Dict(keys=[source.inline_node(e.key, r_) for r_ in rows], values=[source.inline_node(e.value, r_) for r_ in rows])
            return ast.List(elts=[source.inline_node(e.elt, r_) for r_ in rows], ctx=ast.Load())
        return e if isinstance(e, (ast.List, ast.Tuple, ast.Dict)) else None

    # names of report() bound once by unpacking a display / a comprehension over a literal table (`plain_table, rich_table = (self._metrics_table(b, c, p) for p in (True, False))`)
    unpacked = {}
    stores = [x.id for x in ast.walk(rep) if isinstance(x, ast.Name) and isinstance(x.ctx, ast.Store)]
    for n in walk_body(rep):
        if isinstance(n, ast.Assign) and len(n.targets) == 1 and isinstance(n.targets[0], (ast.Tuple, ast.List)) and all(isinstance(t_, ast.Name) for t_ in n.targets[0].elts):
            disp = expand_display(source.inline_node(n.value, rdefs))
            if isinstance(disp, (ast.List, ast.Tuple)) and len(disp.elts) == len(n.targets[0].elts):
                unpacked.update({t_.id: v_ for t_, v_ in zip(n.targets[0].elts, disp.elts) if stores.count(t_.id) == 1})

    def table_expr(e, depth=0):
        """the expression that builds the table an expression of report() denotes: through single-assignment locals, tuple unpacking and constant subscripts of a display or of a
        comprehension over a literal table"""
        if e is None or depth > 6:
            return e
        if isinstance(e, ast.Name):
            return table_expr(rdefs[e.id], depth + 1) if e.id in rdefs else (table_expr(unpacked[e.id], depth + 1) if e.id in unpacked else e)
        if isinstance(e, ast.Subscript):
            base_ = table_expr(e.value, depth + 1)
            base_ = expand_display(base_) if base_ is not None else None
            try:
                k_ = ast.literal_eval(e.slice)
            except (ValueError, TypeError, SyntaxError):
                return e
            if isinstance(base_, (ast.List, ast.Tuple)) and isinstance(k_, int) and -len(base_.elts) <= k_ < len(base_.elts):
                return table_expr(base_.elts[k_], depth + 1)
            if isinstance(base_, ast.Dict):
                for kk, vv in zip(base_.keys, base_.values):
                    try:
                        if kk is not None and ast.literal_eval(kk) == k_:
                            return table_expr(vv, depth + 1)
                    except (ValueError, TypeError, SyntaxError):
                        return e
        return e

    # the tables report() builds: one per _metrics_table call, one per row when the call is made in a comprehension / loop over a literal table of flags
    minst = []
    for c in mcalls:
        for (fe,), _ in instantiate(c, [bind_args(c, mt).get(mtp[3])], lambda t_: const_bool(t_[0]) is not None) or [((None,), None)]:
            minst.append((c, const_bool(fe)))
    if len(minst) != 2 or any(f_ is None for _, f_ in minst):
        chk.unknown("O20.4", f"the two tables are not built by two _metrics_table calls with a constant plain flag in report() ({len(mcalls)} call(s) located)", mcalls[0] if mcalls else rep)
    else:
        a, b = bind_args(minst[0][0], mt), bind_args(minst[1][0], mt)
        same = all(a.get(p_) is not None and b.get(p_) is not None and source.inline(a[p_], rdefs) == source.inline(b[p_], rdefs) for p_ in (mtp[1], mtp[2]))
        chk.ob("O20.4", "both tables from the same routine, only `plain` differs", same and {f_ for _, f_ in minst} == {True, False}, mcalls[0],
               f"plain flags {[f_ for _, f_ in minst]}" + ("" if same else "; the race arguments differ"))
    recv_mt = params_of(mt)[0]
    sets = [n for n in walk_body(mt) if isinstance(n, ast.Assign) and any(isinstance(t, ast.Attribute) and t.attr == FLAG and isinstance(t.value, ast.Name) and t.value.id == recv_mt for t in n.targets)]
    if not sets:
        chk.unknown("O20.4", "_metrics_table does not assign the plain flag: the flag reaches the difference cells in a way this rule does not follow", mt)
    else:
        # "before building lines", by control flow: every call of a reporting method in _metrics_table is dominated by an assignment of the flag FROM THE PARAMETER (decided on
        # values: the assigned expression evaluates to True for True and to False for False), and no other assignment of the flag can reach such a call
        def from_param(s_):
            try:
                return all(minieval.ev(s_.value, {mtp[3]: v_}) is v_ for v_ in (True, False))
            except minieval.CannotEval:
                return None

        verdicts = [from_param(s_) for s_ in sets]
        if None in verdicts:
            chk.unknown("O20.4", f"the value `{short(sets[verdicts.index(None)].value, 50)}` assigned to the plain flag cannot be evaluated from the parameter", sets[verdicts.index(None)])
        else:
            gmt = cfg_of(mt)
            good = [gmt.node_of(s_) for s_, v_ in zip(sets, verdicts) if v_]
            bad_ = [gmt.node_of(s_) for s_, v_ in zip(sets, verdicts) if not v_]
            builds = [n for h, n, callee in call_graph() if h is mt and not (callee.name in plumbing and cm.get(callee.name) is callee)]
            if not builds:
                chk.unknown("O20.4", "no call of a reporting method located in _metrics_table: where the lines are built relative to the flag assignment cannot be told", mt)
            else:
                late = [n for n in builds if not (good and gmt.dominated_by_nodes(gmt.node_of(n), good))]
                stale = [n for n in builds for b_ in bad_ if gmt.path_exists(b_, gmt.node_of(n))]
                chk.ob("O20.4", "_metrics_table sets the flag from its parameter before building lines", not late and not stale, sets[0],
                       "" if not late and not stale else (f"`{short(late[0], 50)}` is not dominated by the assignment of the flag" if late else f"`{short(stale[0], 50)}` can be reached from an assignment of another value"))
    ws = rp.func("write_single_report")
    wr = cm.get("_write_report")
    wcall = [n for n in walk_body(rep) if isinstance(n, ast.Call) and isinstance(n.func, ast.Attribute) and n.func.attr == "_write_report"]
    wsr = [n for n in walk_body(wr) if isinstance(n, ast.Call) and last_attr(n.func) == "write_single_report"] if wr is not None else []
    # the two data parameters of the writer BY ROLE: the parameter the plain table reaches and the one the rich table reaches (report() -> _write_report -> write_single_report),
    # whatever they are called
    p_plain = p_rich = None
    if wcall and wsr:
        bw, bs = bind_args(wcall[0], wr), bind_args(wsr[0], ws)
        wdefs_ = local_defs(wr)

        def table_flag(e):
            """the plain flag of the table that reaches this argument of write_single_report: parameter of _write_report -> argument in report() -> _metrics_table call"""
            e = source.inline_node(e, wdefs_) if e is not None else None
            e = bw.get(e.id) if isinstance(e, ast.Name) else None
            e = table_expr(e) if e is not None else None
            return plain_arg(e) if isinstance(e, ast.Call) and isinstance(e.func, ast.Attribute) and e.func.attr == "_metrics_table" else None

        flags = {p_: table_flag(a_) for p_, a_ in bs.items()}
        plains, riches = [p_ for p_, v_ in flags.items() if v_ is True], [p_ for p_, v_ in flags.items() if v_ is False]
        if len(plains) == 1 and len(riches) == 1:
            p_plain, p_rich = plains[0], riches[0]
    # the rendering by role: a callable applied to (<headers>, <one of the two data parameters>) - positionally or by keyword - whose result reaches the console sink resp. the file
    # sink: directly, through a single-assignment local, or through a module-level helper function it is handed to (an extracted "append to the report file" helper)
    CONSOLE, FILE = ("print_internal", "println"), ("writelines", "write")

    def closure(e, defs):
        """the nodes of e and of the single-assignment locals it reads (a local that holds the rendered text)"""
        seen_, todo = [], [e]
        while todo and len(seen_) < 400:
            e_ = todo.pop()
            for x in ast.walk(e_):
                seen_.append(x)
                if isinstance(x, ast.Name) and isinstance(x.ctx, ast.Load) and x.id in defs and not (isinstance(source.parent(x), ast.Call) and source.parent(x).func is x):
                    todo.append(defs[x.id])
        return seen_

    def sinks_reached(fn, depth=0):
        """[(sink kind, nodes that reach it)] for the sink calls of fn, and for the calls of module-level helpers whose parameter reaches a sink there"""
        out = []
        defs = local_defs(fn)
        for n in walk_body(fn):
            if not isinstance(n, ast.Call):
                continue
            args = list(n.args) + [k_.value for k_ in n.keywords]
            if last_attr(n.func) in CONSOLE + FILE:
                out += [("console" if last_attr(n.func) in CONSOLE else "file", closure(a_, defs)) for a_ in args]
            elif isinstance(n.func, ast.Name) and n.func.id in mod_funcs and mod_funcs[n.func.id] is not fn and depth < 2:
                helper = mod_funcs[n.func.id]
                for kind, nodes in sinks_reached(helper, depth + 1):
                    for p_, a_ in bind_args(n, helper, skip_self=False).items():
                        if any(isinstance(x, ast.Name) and x.id == p_ and isinstance(x.ctx, ast.Load) for x in nodes):
                            out.append((kind, closure(a_, defs)))
        return out

    def data_args(x):
        return [a_ for a_ in list(x.args) + [k_.value for k_ in x.keywords] if isinstance(a_, ast.Name) and a_.id in (p_plain, p_rich)]

    def rendered_into(kind):
        found = {}
        for k_, nodes in sinks_reached(ws):
            if k_ == kind:
                for x in nodes:
                    if isinstance(x, ast.Call) and isinstance(x.func, ast.Name) and len(data_args(x)) == 1 and len(x.args) + len(x.keywords) >= 2:
                        found[id(x)] = x
        return list(found.values())

    if p_plain is None:
        chk.unknown("O20.4", "which table (plain / rich) reaches which parameter of write_single_report cannot be derived (report() -> _write_report -> write_single_report)", wcall[0] if wcall else rep)
    else:
        to_console, to_file = rendered_into("console"), rendered_into("file")
        if len(to_console) != 1 or len(to_file) != 1:
            chk.unknown("O20.4", f"the rendering of the two tables is not located in write_single_report ({len(to_console)} rendered table(s) reach the console, {len(to_file)} the file)", ws)
        else:
            got = (data_args(to_file[0])[0].id, data_args(to_console[0])[0].id)
            chk.ob("O20.4", "plain table -> data_plain, rich table -> data_rich", got == (p_plain, p_rich), wcall[0],
                   f"the plain table arrives as `{p_plain}`, the rich table as `{p_rich}`; written to the file: `{got[0]}`, printed on the console: `{got[1]}`")

            def others(x):
                return sorted([f"{i_}:{u(a_)}" for i_, a_ in enumerate(x.args) if a_ not in data_args(x)] + [f"{k_.arg}={u(k_.value)}" for k_ in x.keywords if k_.value not in data_args(x)])

            def where(x):
                return [i_ for i_, a_ in enumerate(x.args) if a_ in data_args(x)] + [k_.arg for k_ in x.keywords if k_.value in data_args(x)]

            ok = to_console[0].func.id == to_file[0].func.id and others(to_console[0]) == others(to_file[0]) and where(to_console[0]) == where(to_file[0])
            chk.ob("O20.4", "same formatter: rich -> console, plain -> file", ok and got == (p_plain, p_rich), ws, f"console <- {u(to_console[0])}; file <- {u(to_file[0])}")

    # ---- O20.5 only common metrics --------------------------------------------------------------------------------------------------------------------------------
    chk.rule("O20.5", "a line is emitted only when both values are not None (4-row table); tasks are the intersection; guards on scalar metric values use `is None`, never truthiness (0 is a value); optional members of a stored task result (throughput mean, processing time) are read with a default in both races; every element that both races' list-valued statistics contain gets its lines wherever it is stored in the lists (the pairing evaluated on lists in different orders); an operand selected from a race's mapping by a tolerant read is None on a mapping without the member", 6,
             "a metric missing in one race is printed (crash on None arithmetic), or a zero-valued metric present in both races is dropped / breaks swap symmetry")
    row_guard = guards(row[0], path_sensitive=True) if row else []

    def emits(bv, cv):
        """does _line yield a row for these operand VALUES (its statements evaluated with its helpers)? True also when it goes on to compute with a None operand (the guard let
        it through: crash on None arithmetic); raises _CaseFailed when _line cannot be evaluated at all."""
        it = _Interp(cm, mod_funcs)
        kw = {} if P_FMT in line_defaults else {P_FMT: (lambda x: x)}
        try:
            r = it.call(line, [self_rec(False), "<metric>", bv, cv, "<task>", "<unit>", False], kw, {})
        except minieval.CannotEval as e:
            if (bv is None or cv is None) and ("non-numeric" in str(e) or "NoneType" in str(e)):
                return True
            raise _CaseFailed(str(e))
        except (Unsupported, UnknownAtom, TypeError, ValueError, AttributeError, KeyError, IndexError, ArithmeticError, RecursionError) as e:
            if (bv is None or cv is None) and isinstance(e, TypeError):
                return True
            raise _CaseFailed(f"{type(e).__name__}: {e}")
        return bool(r)

    try:
        emits(3.0, 5.0)
        by_value = True
    except _CaseFailed:
        by_value = False
    for bn, cn in itertools.product([False, True], repeat=2):
        inst = f"line when baseline {'None' if bn else 'present'}, contender {'None' if cn else 'present'}"
        if by_value:
            # decided on values; "present" includes 0 and negative values (0 is a value: a truthiness guard drops the line)
            try:
                got = {(bv, cv): emits(bv, cv) for bv in ([None] if bn else [3.0, 0, -2.5, 0.0]) for cv in ([None] if cn else [5.0, 0, -1.0])}
            except _CaseFailed as e:
                chk.unknown("O20.5", f"{inst}: _line cannot be evaluated on values: {e}", line)
                continue
            wrong = [k_ for k_, v_ in got.items() if v_ != (not bn and not cn)]
            chk.ob("O20.5", inst, not wrong, row[0] if row else line, f"emits: {not bn and not cn}" if not wrong else
                   "; ".join(f"_line(baseline={k_[0]}, contender={k_[1]}) {'emits a line' if got[k_] else 'emits no line'}" for k_ in wrong[:3]) +
                   (" (a value of 0 must still be compared)" if not bn and not cn else ""))
            continue

        # _line cannot be interpreted as a whole (a statement kind the interpreter does not know): its DECISIONS are still evaluated on the same operand values - every test of
        # the operands (is None, == None, `None in (a, b)`, truthiness, ...) by minieval - and a line counts as emitted when the outcome is the 7-cell row; a test that cannot
        # be evaluated makes the case not recognised, never a finding
        if not row:
            chk.unknown("O20.5", f"{inst}: _line can neither be evaluated on values nor does it return a literal 7-cell row", line)
            continue
        got, undecided = {}, None
        for bv, cv in itertools.product([None] if bn else [3.0, 0, -2.5, 0.0], [None] if cn else [5.0, 0, -1.0]):
            def atom(n, env=None, bv=bv, cv=cv):
                try:
                    return bool(minieval.ev(n, {P_BASE: bv, P_CONT: cv}))
                except (minieval.CannotEval, TypeError, ValueError, KeyError, IndexError, AttributeError):
                    return None

            try:
                try:
                    # the whole body of _line evaluated for the case: a line is emitted iff the outcome is the 7-element row (early returns / arm order do not matter)
                    o_ = decide(own_stmts(line), atom, {})
                    got[(bv, cv)] = o_.kind == "return" and (o_.node is row[0] or (isinstance(o_.value, ast.List) and len(o_.value.elts) == 7))
                except Unsupported:
                    if not row_guard:
                        undecided = "the statements of _line are not a decision this rule can evaluate"
                        break
                    got[(bv, cv)] = all(bool_eval(t, atom) == pol for t, pol in row_guard)
            except UnknownAtom as e:
                undecided = f"the guard of the row tests `{e}`, which this rule cannot decide"
                break
        if undecided:
            chk.unknown("O20.5", f"{inst}: {undecided}", line)
            continue
        wrong = [k_ for k_, v_ in got.items() if v_ != (not bn and not cn)]
        chk.ob("O20.5", inst, not wrong, row[0], f"emits: {not bn and not cn} (decisions of _line evaluated)" if not wrong else
               "; ".join(f"_line(baseline={k_[0]}, contender={k_[1]}) {'emits a line' if got[k_] else 'emits no line'}" for k_ in wrong[:3]) +
               (" (a value of 0 must still be compared)" if not bn and not cn else ""))
    # per-task lines only for tasks of BOTH races. Shapes: a loop over one race's tasks (directly, through a hoisted local or wrapped in list / sorted / tuple) whose body
    # tests membership in the other race's tasks (`if t in X: ...` / `if t not in X: continue`), a loop over a comprehension that filters by that membership, or a comprehension
    # / generator expression whose generator over the tasks carries the membership test as its condition; in _metrics_table or in a helper method extracted from it
    _tenv = {}

    def unwrap(e, m_, depth=0):
        e = source.inline_node(e, local_defs(m_))
        while isinstance(e, ast.Call) and dotted(e.func) in ("set", "list", "tuple", "frozenset", "sorted") and len(e.args) == 1:
            e = e.args[0]
        # the task list computed by an extracted helper method with a single return: the returned expression with the arguments of the call in place of the parameters
        if isinstance(e, ast.Call) and isinstance(e.func, ast.Attribute) and isinstance(e.func.value, ast.Name) and e.func.value.id in params_of(m_)[:1] and e.func.attr in cm and depth < 2:
            callee = cm[e.func.attr]
            rets = [r_ for r_ in walk_body(callee) if isinstance(r_, ast.Return) and r_.value is not None]
            args = {p_: arg_at(e, callee, p_) for p_ in own_params(callee)}
            if len(rets) == 1 and all(a_ is not None for a_ in args.values()) and not any(assigned_in(callee, p_) for p_ in args):
                body = source.inline_node(rets[0].value, {k_: v_ for k_, v_ in local_defs(callee).items() if k_ not in args})
                return unwrap(source.inline_node(body, args), m_, depth + 1)
        return e

    def tasks_of(e, m_):
        """(text, role set) of the race whose tasks() this expression is, else None"""
        e = unwrap(e, m_)
        if isinstance(e, ast.Call) and isinstance(e.func, ast.Attribute) and e.func.attr == "tasks":
            if id(m_) not in _tenv:
                _tenv[id(m_)] = roles.env_for(m_)
            return u(e.func.value), frozenset(roles.deps(e.func.value, _tenv[id(m_)]))
        return None

    def other_race(a_, b_):
        return a_[0] != b_[0] and (not a_[1] or not b_[1] or (a_[1] != b_[1] and len(a_[1]) == 1 and len(b_[1]) == 1))

    def per_task_calls(stmts_or_nodes, var):
        """calls of a reporting method of the comparison (directly, through an alias or a table of bound methods) that are handed the task variable"""
        return [c_ for e_ in stmts_or_nodes for c_ in ast.walk(e_) if isinstance(c_, ast.Call) and any(isinstance(a_, ast.Name) and a_.id == var for a_ in list(c_.args) + [k_.value for k_ in c_.keywords]) and
                any(g_ is not line and g_ is not diff for g_ in callees(c_))]

    tl = []
    for m_ in cm.values():
        for n in walk_body(m_):
            if isinstance(n, ast.For) and isinstance(n.target, ast.Name) and per_task_calls(n.body, n.target.id):
                it_ = unwrap(n.iter, m_)
                if tasks_of(it_, m_) is not None:
                    tl.append(("loop", n, tasks_of(it_, m_), None, m_))
                elif isinstance(it_, (ast.ListComp, ast.GeneratorExp, ast.SetComp)) and len(it_.generators) == 1 and tasks_of(it_.generators[0].iter, m_) is not None and \
                        isinstance(it_.generators[0].target, ast.Name) and u(it_.elt) == u(it_.generators[0].target):
                    tl.append(("comp", n, tasks_of(it_.generators[0].iter, m_), it_.generators[0], m_))
            elif isinstance(n, (ast.ListComp, ast.GeneratorExp, ast.SetComp)):
                for i_, gen in enumerate(n.generators):
                    if isinstance(gen.target, ast.Name) and tasks_of(gen.iter, m_) is not None and per_task_calls(list(n.generators[i_ + 1:]) + [n.elt], gen.target.id):
                        tl.append(("gen", n, tasks_of(gen.iter, m_), gen, m_))
    if len(tl) != 1:
        chk.unknown("O20.5", f"the loop that builds the per-task lines from a race's tasks() is not located in the comparison reporter ({len(tl)} candidate(s))", mt)
    else:
        kind, loop, src_, gen_, m_ = tl[0]
        var = loop.target.id if kind == "loop" else gen_.target.id
        if kind == "loop":
            cond_nodes = [n_.test for n_ in ast.walk(loop) if isinstance(n_, ast.If)]
        elif kind == "comp":
            cond_nodes = list(gen_.ifs)
        else:
            cond_nodes = [c_ for g2 in loop.generators[loop.generators.index(gen_):] for c_ in g2.ifs]
        tests = [t_ for c_ in cond_nodes for t_ in ast.walk(c_) if isinstance(t_, ast.Compare) and len(t_.ops) == 1 and isinstance(t_.ops[0], (ast.In, ast.NotIn)) and u(t_.left) == var and
                 tasks_of(t_.comparators[0], m_) is not None]
        detail = f"`{var}` of {src_[0]}.tasks()"
        if not tests:
            other_cond = cond_nodes or any(isinstance(n_, (ast.Try, ast.IfExp)) for n_ in ast.walk(loop))
            if other_cond:
                chk.unknown("O20.5", f"per-task lines: no membership test of {detail} in the other race's tasks() located (the loop is conditional in another way)", loop)
            else:
                chk.ob("O20.5", "per-task lines for the intersection of tasks", False, loop, detail + ": lines are built for every task of one race, no membership test in the other race's tasks")
        else:
            coll = tasks_of(tests[0].comparators[0], m_)
            detail += f" kept when in {coll[0]}.tasks()"
            ok = other_race(src_, coll)
            if not ok:
                detail += "; membership is tested in the tasks of the SAME race"
            elif kind in ("comp", "gen"):
                # polarity by evaluation of the generator's condition(s) for a member and for a non-member (other conditions taken as true)
                def keeps(member):
                    def atom(n):
                        if any(n is t_ for t_ in tests):
                            return member if isinstance(n.ops[0], ast.In) else not member
                        return None if isinstance(n, (ast.BoolOp, ast.UnaryOp)) else True

                    return all(bool_eval(c_, atom) for c_ in cond_nodes)

                try:
                    ok = keeps(True) and not keeps(False)
                    detail += "" if ok else "; the comprehension does not keep exactly the tasks that are in the other race"
                except UnknownAtom:
                    pass
            else:
                # polarity by evaluation of the loop body: lines for the task are produced when it is a member of the other race's tasks and none when it is not
                # (`if t in X: ...` and `if t not in X: continue` read the same); switches on reporter attributes are taken as on
                def produces(member):
                    def atom(n, env):
                        if any(n is t_ for t_ in tests):
                            return member if isinstance(n.ops[0], ast.In) else not member
                        if isinstance(n, ast.Attribute) and isinstance(n.value, ast.Name) and n.value.id == params_of(m_)[0]:
                            return True
                        return None

                    o_ = decide(loop.body, atom, {})
                    return bool(per_task_calls(o_.effects, var))

                try:
                    ok = produces(True) and not produces(False)
                    if not ok:
                        detail += "; but the per-task lines are not produced exactly for the members"
                except (Unsupported, UnknownAtom):
                    pass  # the membership test in the other race's tasks was located; only its polarity could not be evaluated on this body
            chk.ob("O20.5", "per-task lines for the intersection of tasks", ok, loop, detail)
    # the task list is consulted once per baseline task: it must be a re-iterable collection (a generator would be exhausted by the first membership test)
    met_ = repo.module("esrally/metrics.py")
    tk_ = met_.methods(met_.cls("GlobalStats")).get("tasks")
    if tk_ is None:
        raise AnchorMissing("GlobalStats.tasks")
    trets = [n for n in walk_body(tk_) if isinstance(n, ast.Return)]
    gen = [r for r in trets if isinstance(r.value, ast.GeneratorExp) or (isinstance(r.value, ast.Call) and dotted(r.value.func) in ("map", "filter", "iter", "zip", "reversed"))] + \
          [n for n in walk_body(tk_) if isinstance(n, (ast.Yield, ast.YieldFrom))]
    if not trets and not gen:
        chk.unknown("O20.5", "GlobalStats.tasks() has no return statement this rule can read", tk_)
    else:
        chk.ob("O20.5", "GlobalStats.tasks() returns a re-iterable collection", not gen, gen[0] if gen else tk_,
               "" if not gen else "single-use iterator: after the first membership test in the comparison loop every later common task is missed (and swapping the races changes the set of lines)",
               key="esrally/metrics.py:GlobalStats.tasks:re-iterable")
    from rules.C08 import record_key_agreement

    chk.use(met_)
    record_key_agreement(chk, "O20.5", met_)
    # optional members of a stored per-task result: a race written by an older version (or without that measurement) does not contain them, and the comparison must then skip
    # the line, not abort with a KeyError. Every value the comparison selects from `<race>.metrics(task)` is evaluated on a record that has every member EXCEPT the optional
    # ones: the read must evaluate (mandatory members may stay subscripts) and yield None / an empty mapping (no line) — in BOTH races; where the value is handed to a helper
    # that dereferences it, None is not enough.
    OPTIONAL = {("throughput", "mean"): "results written before Rally 2.0.4 contain no throughput mean (CHANGELOG #1146, #1160)",
                ("processing_time",): "per-task processing time is newer than latency / service time and is only present in some stored results"}
    if met_.methods(met_.cls("GlobalStats")).get("metrics") is None:
        raise AnchorMissing("GlobalStats.metrics(task)")
    n_opt = 0
    opt_seen = {"B": set(), "C": set()}
    absent = frozenset(OPTIONAL)
    # roots of the reads: every `<race>.metrics(...)` call; a record (or sub-record) that is kept in a single-assignment local or handed to a helper method of the reporter is
    # followed to the places where that local / parameter is read (hoisted lookups, extracted helpers), carrying the member path reached so far
    work = []
    for name, f in cm.items():
        env = roles.env_for(f)
        for root in [n for n in walk_body(f) if isinstance(n, ast.Call) and isinstance(n.func, ast.Attribute) and n.func.attr == "metrics"]:
            # a helper both races are handed to in turn reads the record for each of them
            work += [(f, root, r_, (), 0) for r_ in sorted(roles.deps(root.func.value, env) & {"B", "C"})]
    done = set()
    while work:
        f, root, role, path, depth = work.pop(0)
        name = f.name
        top = root
        while True:
            p_ = source.parent(top)
            if (isinstance(p_, (ast.Subscript, ast.Attribute)) and p_.value is top) or (isinstance(p_, ast.Call) and p_.func is top) or isinstance(p_, (ast.BoolOp, ast.IfExp)):
                top = p_
            else:
                break
        if (id(top), role) in done:
            continue
        done.add((id(top), role))
        root_text = u(root)

        class _Sub(ast.NodeTransformer):
            def visit_Call(self, n):
                return ast.Name(id="__rec__", ctx=ast.Load()) if isinstance(root, ast.Call) and u(n) == root_text else self.generic_visit(n)

            def visit_Name(self, n):
                return ast.Name(id="__rec__", ctx=ast.Load()) if isinstance(root, ast.Name) and n.id == root.id else n

        expr0 = _Sub().visit(source.clone(top))
        # a read whose member key is the loop variable of a literal table (`record.get(stat) for stat in ("min", "mean", ...)`) stands for one read per row
        rows_, names_ = table_rows(top)
        variants = [source.inline_node(expr0, r_) for r_ in rows_] if rows_ and (free_names(expr0) & names_) else [expr0]
        results = []
        for expr in variants:
            touched = []
            val, err = None, None
            try:
                val = _Interp().ev(expr, {"__rec__": _Rec(absent, path=path, touched=touched)})
            except minieval.CannotEval as e:
                err = str(e)
            except (Unsupported, UnknownAtom, TypeError, ValueError, AttributeError, KeyError, IndexError, ArithmeticError, RecursionError) as e:
                err = f"{type(e).__name__}: {e}" if not isinstance(e, KeyError) else f"KeyError {e}"
            results.append((touched, val, err))
        stmt = source.enclosing_stmt(top)
        local = stmt.targets[0].id if isinstance(stmt, ast.Assign) and stmt.value is top and len(stmt.targets) == 1 and isinstance(stmt.targets[0], ast.Name) else None
        if not any(t_ for t_, _, _ in results):
            touched, val, err = results[0]
            # selects mandatory members only (or its keys are not constants): a (sub-)record that is stored or handed on is followed
            if err is None and isinstance(val, _Rec) and depth < 4:
                if local is not None and local in local_defs(f):
                    work += [(f, x, role, val.path, depth + 1) for x in walk_body(f) if isinstance(x, ast.Name) and x.id == local and isinstance(x.ctx, ast.Load)]
                if isinstance(stmt, ast.Return) and stmt.value is top and cm.get(f.name) is f:
                    # the helper RETURNS the (sub-)record: followed to the calls of the helper that hand it this race
                    base_ = root.func.value if isinstance(root, ast.Call) else root
                    while isinstance(base_, (ast.Attribute, ast.Subscript)):
                        base_ = base_.value
                    for g in cm.values():
                        genv = None
                        for c_ in ast.walk(g):
                            if isinstance(c_, ast.Call) and isinstance(c_.func, ast.Attribute) and c_.func.attr == f.name and isinstance(c_.func.value, ast.Name) and c_.func.value.id in params_of(g)[:1]:
                                genv = genv if genv is not None else roles.env_for(g)
                                arg_ = bind_args(c_, f).get(base_.id) if isinstance(base_, ast.Name) else None
                                if arg_ is not None and roles.deps(arg_, genv) == {role}:
                                    work.append((g, c_, role, val.path, depth + 1))
                call_ = source.parent(top)
                if isinstance(call_, ast.keyword):
                    call_ = source.parent(call_)
                if isinstance(call_, ast.Call) and isinstance(call_.func, ast.Attribute) and isinstance(call_.func.value, ast.Name) and call_.func.value.id in params_of(f)[:1] and \
                        call_.func.attr in cm and cm[call_.func.attr] is not line:
                    callee = cm[call_.func.attr]
                    for p_, a_ in bind_args(call_, callee).items():
                        if a_ is top and not any(isinstance(x, ast.Name) and x.id == p_ and isinstance(x.ctx, ast.Store) for x in ast.walk(callee)):
                            work += [(callee, x, role, val.path, depth + 1) for x in walk_body(callee) if isinstance(x, ast.Name) and x.id == p_ and isinstance(x.ctx, ast.Load)]
            continue
        for touched, val, err in results:
            if not touched:
                continue  # a row that selects a mandatory member
            if err is not None and "KeyError" not in err:
                chk.unknown("O20.5", f"{name}: the read `{short(top, 70)}` of an optional member cannot be evaluated on a record without it: {err}", top)
                continue
            # is the value dereferenced by the helper it is handed to (directly or through the local it is assigned to)?
            needs_mapping = False
            for c_ in walk_body(f):
                if isinstance(c_, ast.Call) and isinstance(c_.func, ast.Attribute) and isinstance(c_.func.value, ast.Name) and c_.func.value.id == params_of(f)[0] and c_.func.attr in cm and cm[c_.func.attr] is not line:
                    for p_, a_ in bind_args(c_, cm[c_.func.attr]).items():
                        if (a_ is top or (local is not None and isinstance(a_, ast.Name) and a_.id == local)) and \
                                any(isinstance(x, (ast.Attribute, ast.Subscript)) and isinstance(x.value, ast.Name) and x.value.id == p_ for x in ast.walk(cm[c_.func.attr])):
                            needs_mapping = True
            member = ".".join(touched[0])
            opt_seen[role].add(touched[0])
            n_opt += 1
            empty = val is None or (isinstance(val, dict) and not isinstance(val, _Rec) and len(val) == 0)
            ok = err is None and empty and (isinstance(val, dict) or not needs_mapping)
            why = "" if ok else (f"`{short(top, 70)}` raises KeyError: the whole comparison aborts ('Cannot compare') instead of skipping the line" if err is not None else
                                 (f"`{short(top, 70)}` yields {val!r} for a race without the member: a line would be built from a value the race does not contain" if not empty else
                                  f"`{short(top, 70)}` yields None, but the helper it is handed to dereferences it"))
            chk.ob("O20.5", f"{name}: optional member `{member}` of the {'baseline' if role == 'B' else 'contender'}'s task result is read with a default ({OPTIONAL[touched[0]]})", ok, top, why,
                   key=f"{_R}:ComparisonReporter.{name}:optional-member:{role}:{member}")
    # the summary is about reads that WERE located: a member whose read could not be located in one of the races is "not recognised", never a finding
    missing = [f"{'baseline' if r_ == 'B' else 'contender'}: {'.'.join(m_)}" for r_ in ("B", "C") for m_ in sorted(OPTIONAL) if m_ not in opt_seen[r_]]
    if missing:
        chk.unknown("O20.5", f"the read of an optional task-result member was not located ({'; '.join(missing)}): the record is selected in a shape this rule does not follow", rep)
    else:
        chk.ob("O20.5", "optional task-result members are read from both races alike (throughput mean, processing time: one read per race)", n_opt >= 4 and opt_seen["B"] == opt_seen["C"] == set(OPTIONAL), rep,
               f"{n_opt} read(s); baseline: {sorted('.'.join(p_) for p_ in opt_seen['B'])}; contender: {sorted('.'.join(p_) for p_ in opt_seen['C'])}", key=f"{_R}:ComparisonReporter:optional-members-symmetric")
    # scalar guards: a test on a value that is compared (an operand of a line construction: an attribute of a race, a local, or - in an extracted helper - the parameter the value
    # arrives in and the argument expression at each call of the helper) must not depend on whether the value is ZERO. Decided on values: the test is evaluated with the
    # operand 0 and with the operand 5 (the other operand of the line non-zero; atoms about other things tried both ways): `x is None`, `x == 0 and y == 0` (both-zero
    # lines skipped on purpose) evaluate alike, `not x`, `x`, `x > 0` do not - a value of 0 would drop the line
    def zero_sensitive(test, e_text, other_text):
        """True / False: the truth of the test does / does not change with the compared value being 0 instead of non-zero; None: not decidable (too many foreign atoms)"""
        class _Ph(ast.NodeTransformer):
            def visit(self, n):
                if isinstance(n, ast.expr) and u(n) == e_text:
                    return ast.Name(id="__x__", ctx=ast.Load())
                if isinstance(n, ast.expr) and other_text and u(n) == other_text:
                    return ast.Name(id="__y__", ctx=ast.Load())
                return self.generic_visit(n)

        t = _Ph().visit(source.clone(test))
        if not any(isinstance(x, ast.Name) and x.id == "__x__" for x in ast.walk(t)):
            return False

        def evaluable(n):
            try:
                minieval.ev(n, {"__x__": 5, "__y__": 5})
                minieval.ev(n, {"__x__": 0, "__y__": 5})
                return True
            except (minieval.CannotEval, TypeError, ValueError, KeyError, IndexError, AttributeError):
                return False

        foreign = sorted({u(a_) for a_ in atoms_of(t) if not evaluable(a_)})
        if len(foreign) > 4:
            return None
        for vals in itertools.product([False, True], repeat=len(foreign)):
            asg = dict(zip(foreign, vals))

            def truth(x):
                def atom(n):
                    if u(n) in asg:
                        return asg[u(n)]
                    try:
                        return bool(minieval.ev(n, {"__x__": x, "__y__": 5}))
                    except (minieval.CannotEval, TypeError, ValueError, KeyError, IndexError, AttributeError):
                        return None

                return bool_eval(t, atom)

            try:
                if truth(0) != truth(5) or truth(0.0) != truth(5):
                    return True
            except UnknownAtom:
                return None
        return False

    n_guard = 0
    told = set()
    for f, c in sites:
        b = bind_args(c, line)
        g_ = source.enclosing_func(c) or f
        for side, other_side in ((P_BASE, P_CONT), (P_CONT, P_BASE)):
            opnd, other = b.get(side), b.get(other_side)
            if opnd is None or not isinstance(opnd, (ast.Attribute, ast.Name, ast.Subscript)):
                continue
            places = [(g_, opnd, other)]
            if isinstance(opnd, ast.Name):
                o1 = origins(g_, opnd, c)
                o2 = origins(g_, other, c) if isinstance(other, ast.Name) else []
                for i_, (h_, e_, _, _, lv_) in enumerate(o1):
                    if lv_ and isinstance(e_, (ast.Attribute, ast.Name, ast.Subscript)):
                        places.append((h_, e_, o2[i_][1] if len(o2) == len(o1) and o2[i_][0] is h_ else None))
            for h_, e_, oth_ in places:
                tests = [(n, n.test) for n in walk_body(h_) if isinstance(n, (ast.If, ast.IfExp, ast.While))] + [(n, t_) for n in walk_body(h_) if isinstance(n, ast.comprehension) for t_ in n.ifs]
                for n, test in tests:
                    if (id(n), u(e_)) in told or not any(isinstance(x, ast.expr) and u(x) == u(e_) for x in ast.walk(test)):
                        continue
                    told.add((id(n), u(e_)))
                    zs = zero_sensitive(test, u(e_), u(oth_) if oth_ is not None else None)
                    if zs is None:
                        chk.unknown("O20.5", f"{h_.name}: whether the test `{short(test, 60)}` depends on the compared value `{u(e_)}` being zero cannot be decided", n)
                    elif zs:
                        chk.ob("O20.5", f"{h_.name}: guard on `{u(e_)}`", False, n, f"`{u(test)}` decides differently for a value of 0 than for any other value of `{u(e_)}`: a value of 0 drops the line (and breaks swap symmetry / self-comparison)",
                               key=f"{_R}:{h_.name}:truthiness:{u(e_)}")
                    else:
                        n_guard += 1
                        chk.ob("O20.5", f"{h_.name}: `{short(test, 70)}`", True, n, f"decides alike for `{u(e_)}` = 0 and = 5")
    # a statistic that is absent from an (older) stored race reads back as None: a list-valued one that is ITERATED must be None-tested for the race it is read from — the baseline's
    # guard does not protect the loop over the contender's list (comparing new-vs-old would crash while old-vs-new works)
    met2 = repo.module("esrally/metrics.py")
    gsi = met2.methods(met2.cls("GlobalStats")).get("__init__")
    nullable = set()
    for n in walk_body(gsi):
        if isinstance(n, ast.Assign) and is_self_attr(n.targets[0]) and isinstance(n.value, ast.Call) and u(n.value.func) == "self.v" and len(n.value.args) == 2 and not n.value.keywords:
            nullable.add(n.targets[0].attr)
    n_it = 0

    def early_exit_tests(h, is_tested, anchor):
        """the `<tested> is None [or ...]` tests of function h with an early return / raise that dominate `anchor`, plus the enclosing positive guards of anchor that state the
        same fact (`if <tested> is not None [and ...]: ...`, or the else arm of an `is None [or ...]` test); is_tested(expression) says whether the operand is the one looked for."""
        def none_test(d_, op=ast.Is):
            """d_ states that the tested list is absent (op Is: `X is None`, `X == None`, `not X`) resp. present (op IsNot: `X is not None`, `X != None`, bare `X`); for a list-valued
            statistic the truthiness forms are as good as the None test (an empty list yields no line either way)"""
            if isinstance(d_, ast.Compare) and len(d_.ops) == 1 and isinstance(d_.ops[0], (op, ast.Eq if op is ast.Is else ast.NotEq)) and source.is_const(d_.comparators[0], None):
                return is_tested(d_.left)
            if op is ast.Is:
                return isinstance(d_, ast.UnaryOp) and isinstance(d_.op, ast.Not) and is_tested(d_.operand)
            return is_tested(d_)

        gh = cfg_of(h)
        found = []
        try:
            target = gh.node_of(anchor)
        except KeyError:
            return found
        for t in [n for n in walk_body(h) if isinstance(n, ast.If)]:
            parts = t.test.values if isinstance(t.test, ast.BoolOp) and isinstance(t.test.op, ast.Or) else [t.test]
            if any(none_test(d_) for d_ in parts) and any(isinstance(x, (ast.Return, ast.Raise)) for x in t.body) and gh.dominated_by_nodes(target, [gh.node_of(t)]):
                found.append(t)
        for t_, pol in guards(anchor, path_sensitive=True):
            conj = t_.values if isinstance(t_, ast.BoolOp) and isinstance(t_.op, ast.And if pol else ast.Or) else [t_]
            if any(none_test(d_, ast.IsNot if pol else ast.Is) for d_ in conj):
                found.append(t_)
        return found

    for name, f in cm.items():
        # every iteration of the reporter (for statement or comprehension); the iterated list by role: `<race parameter>.<optional statistic>`, directly, through a hoisted
        # single-assignment local, defaulted (`... or []`), or - in an extracted helper that iterates a PARAMETER - the argument of each call of the helper
        for loop_ in [n for n in walk_body(f) if isinstance(n, (ast.For, ast.comprehension))]:
            for h, it_, anchor, defaulted, levels in [(h_, x_, a_, d_, l_) for h_, e_, a_, d_, l_ in origins(f, loop_.iter, loop_) for x_ in attr_forms(a_, e_)]:
                hm = h
                while hm is not None and cm.get(hm.name) is not hm:
                    hm = source.enclosing_func(hm)
                if hm is None or not (isinstance(it_, ast.Attribute) and isinstance(it_.value, ast.Name) and it_.value.id in params_of(hm)[1:] and it_.attr in nullable):
                    continue
                race = it_.value.id
                k_ = f"{_R}:ComparisonReporter.{hm.name}:iterated-nullable:{u(it_)}"
                n_it += 1
                # a None test of (a statistic of) the race the list is read from, before the list is handed on / iterated; or of the very parameter inside the helper that iterates it
                tests = [loop_] if defaulted else []
                tests += early_exit_tests(h, lambda e_: isinstance(e_, ast.Attribute) and isinstance(e_.value, ast.Name) and e_.value.id == race, anchor)
                for g_, p_, a_ in levels:
                    tests += early_exit_tests(g_, lambda e_, p_=p_: isinstance(e_, ast.Name) and e_.id == p_, a_)
                via = "" if not levels else f" (iterated in {levels[0][0].name} as `{levels[0][1]}`)"
                chk.ob("O20.5", f"{hm.name}: `{u(it_)}` (None for a race stored without it) is None-tested before it is iterated{via}", bool(tests), anchor,
                       "" if tests else f"no `{race}.<statistic> is None` test with an early return dominates the loop: the comparison crashes when only this race lacks the statistic",
                       key=k_)
    located(n_it >= 2, "O20.5", "iterated optional statistics located", rep, f"{n_it} loop(s) over optional list-valued statistics")
    # what the comparison reads as statistic X of a stored race IS statistic X: every results attribute the comparison selects is initialised from the stored key of the same name
    init_keys = {}
    for n in walk_body(gsi):
        if isinstance(n, ast.Assign) and is_self_attr(n.targets[0]) and isinstance(n.value, ast.Call) and u(n.value.func) == "self.v" and len(n.value.args) > 1 and isinstance(n.value.args[1], ast.Constant):
            init_keys[n.targets[0].attr] = (n.value.args[1].value, n)
    read_attrs = set()
    for name, f in cm.items():
        env = roles.env_for(f)
        for x in ast.walk(f):
            # an attribute of a RACE: the receiver is a name the role dataflow reaches from one of the two compared races (whatever it is called)
            if isinstance(x, ast.Attribute) and isinstance(x.value, ast.Name) and env.get(x.value.id) and x.attr in init_keys:
                read_attrs.add(x.attr)
            if isinstance(x, ast.Call) and dotted(x.func) == "getattr" and len(x.args) >= 2 and isinstance(x.args[1], ast.JoinedStr):
                suffix = "".join(str(v.value) for v in x.args[1].values if isinstance(v, ast.Constant))
                read_attrs |= {a_ for a_ in init_keys if suffix and a_.endswith(suffix)}
            if isinstance(x, ast.Call) and dotted(x.func) == "getattr" and len(x.args) >= 2 and isinstance(x.args[1], ast.Name) and env.get(getattr(x.args[0], "id", None)):
                # the attribute name is a column of a literal table the call is iterated over
                for row_ in table_rows(x)[0] or []:
                    v_ = row_.get(x.args[1].id)
                    if isinstance(v_, ast.Constant) and v_.value in init_keys:
                        read_attrs.add(v_.value)
    for a_ in sorted(read_attrs):
        k_, n_ = init_keys[a_]
        chk.ob("O20.2", f"compared statistic `{a_}` is read back from the stored key of the same name", k_ == a_, n_, f"GlobalStats.{a_} <- key '{k_}'", key=f"esrally/metrics.py:GlobalStats.__init__:{a_}")
    located(len(read_attrs) >= 30, "O20.2", "compared statistics located in the results class", gsi, f"{len(read_attrs)} attribute(s)")
    # the Diff column is formatter(contender - baseline) while the value columns show formatter(baseline) / formatter(contender): that is the same difference only for a LINEAR
    # formatter (a fixed unit conversion). A formatter that picks its unit per value (by magnitude) scales the three numbers independently.
    cv = repo.module("esrally/utils/convert.py")
    chk.use(cv)

    def _nonlinear(fn, vparam, depth=0):
        """the convert function compares its value (or something derived from it) by magnitude, directly or through another convert function."""
        derived = {vparam}
        for _ in range(3):
            for n in walk_body(fn):
                if isinstance(n, ast.Assign) and any(isinstance(x, ast.Name) and x.id in derived for x in ast.walk(n.value)):
                    for t in n.targets:
                        derived |= {x.id for x in ast.walk(t) if isinstance(x, ast.Name)}
        for n in walk_body(fn):
            if isinstance(n, ast.Compare) and any(isinstance(o, (ast.Lt, ast.Gt, ast.LtE, ast.GtE)) for o in n.ops) and any(isinstance(x, ast.Name) and x.id in derived for x in ast.walk(n)):
                return True
            if isinstance(n, ast.Call) and isinstance(n.func, ast.Name) and depth < 3 and any(isinstance(x, ast.Name) and x.id in derived for a_ in n.args for x in ast.walk(a_)):
                try:
                    callee = cv.func(n.func.id)
                except AnchorMissing:
                    continue
                pos = next((i_ for i_, a_ in enumerate(n.args) if any(isinstance(x, ast.Name) and x.id in derived for x in ast.walk(a_))), 0)
                cps_ = params_of(callee)
                if pos < len(cps_) and _nonlinear(callee, cps_[pos], depth + 1):
                    return True
        return False

    n_fmt = 0
    for f, c in sites:
        fm = bind_args(c, line).get(P_FMT)
        if fm is None:
            continue
        n_fmt += 1
        lab = label_text(bind_args(c, line).get(P_METRIC)) or site_label.get(id(c)) or "?"
        # the formatter by value: through single-assignment locals of the enclosing function(s) and module-level names of the reporter module
        encl = [g for g in [source.enclosing_func(c), f] if g is not None]
        for g in encl:
            fm = source.inline_node(fm, local_defs(g))
        if isinstance(fm, ast.Name) and rp.module_constant(fm.id) is not None:
            fm = rp.module_constant(fm.id)
        verdict, why = True, "linear"
        tgt, nbound = fm, 0
        if isinstance(fm, ast.Call) and last_attr(fm.func) == "partial" and fm.args:
            tgt, nbound = fm.args[0], len(fm.args) - 1
        if isinstance(tgt, ast.Lambda) and len(tgt.args.args) == 1 and isinstance(tgt.body, ast.Call) and (dotted(tgt.body.func) or "").startswith("convert.") and not tgt.body.keywords and \
                [u(a_) for a_ in tgt.body.args] == [tgt.args.args[0].arg]:
            tgt = tgt.body.func  # lambda v: convert.f(v) is convert.f
        if isinstance(tgt, ast.Lambda):
            if any(isinstance(x, (ast.Compare, ast.IfExp)) for x in ast.walk(tgt.body)):
                verdict, why = False, "lambda that decides by the value"
            elif any(isinstance(x, ast.Call) for x in ast.walk(tgt.body)):
                verdict, why = None, f"lambda that calls a function: {short(tgt, 50)}"
            else:
                why = "lambda"
        elif isinstance(tgt, ast.Call) and dotted(tgt.func) == "convert.factor":
            why = "constant factor"
        elif (dotted(tgt) or "").startswith("convert."):
            try:
                fn_ = cv.func(dotted(tgt).split(".", 1)[1])
                ps_ = params_of(fn_)
                verdict = nbound < len(ps_) and not _nonlinear(fn_, ps_[nbound])
                why = f"convert.{fn_.name}" + ("" if verdict else " chooses its scale from the magnitude of the value")
            except AnchorMissing:
                verdict, why = None, f"{dotted(tgt)} not found in convert.py"
        else:
            verdict, why = None, f"unrecognised formatter {short(fm, 40)}"
        if verdict is None:
            # the formatter was not resolved to a function this rule can read: not recognised, never a finding
            chk.unknown("O20.3", f"{f.name}: '{lab}': whether the line's formatter is a fixed (linear) unit conversion cannot be decided: {why}", c)
            continue
        chk.ob("O20.3", f"{f.name}: the line's formatter is a fixed (linear) unit conversion", verdict, c, why + ("" if verdict else ": baseline, contender and their difference are each scaled to their own unit, so the Diff column is not contender minus baseline in the line's unit"),
               key=f"{_R}:ComparisonReporter.{f.name}:linear-formatter:{lab}")
    located(n_fmt >= 10, "O20.3", "formatters of comparison lines located", line, f"{n_fmt} line(s) with a formatter")
    # list-valued statistics are paired by id: for every element of the baseline's list the element of the contender's list with the same id is looked up - by a nested iteration
    # (for b in baseline.X: for c in contender.X: if c[K] == <id>; statement loops or comprehensions / next(<generator>)) or through an index (`by_id = {c[K]: c for c in contender.X}`
    # ... `by_id.get(b[K])`). The id compared with is the one of the CURRENT baseline element: bound inside this outer iteration from its loop variable, same member (a name left
    # over from an earlier loop pairs every element with the last one of that loop). A pairing inside an extracted helper that iterates its PARAMETERS stands for one pairing per
    # call of the helper.
    from sa.cfg import conjuncts

    def iterations(f):
        """the iterations of f: (node, target, iterable, nodes evaluated once per element) of every for statement and of every generator of a comprehension"""
        out = []
        for n in walk_body(f):
            if isinstance(n, ast.For):
                out.append((n, n.target, n.iter, list(n.body)))
            elif isinstance(n, (ast.ListComp, ast.SetComp, ast.GeneratorExp, ast.DictComp)):
                for i_, gen in enumerate(n.generators):
                    out.append((gen, gen.target, gen.iter, list(gen.ifs) + list(n.generators[i_ + 1:]) + ([n.key, n.value] if isinstance(n, ast.DictComp) else [n.elt])))
        return out

    def elem_key(e, var):
        """the member text K when e is `var[K]` / `var.get(K)`, else None"""
        m_ = pat.match(e, "V_v[E_k]", binds={"v": var}) or pat.match(e, "V_v.get(E_k)", binds={"v": var}) or pat.match(e, "V_v.get(E_k, E_d)", binds={"v": var})
        return m_["k"] if m_ else None

    n_pair = 0
    paired = {}  # id(method) -> (method, [(outer iteration, inner iteration, match test)]) of every located pairing (the index shape: inner iteration = the generator of the index)
    for name, f in cm.items():
        its = iterations(f)
        scope = {id(it_[0]): {id(x) for s_ in it_[3] for x in ast.walk(s_)} for it_ in its}
        fdefs_p = local_defs(f)

        def bound_from(idv, outer_n, outer_t, before):
            """the member K when the name idv is bound exactly once inside the outer iteration (before line `before`) as `<outer element>[K]` / `.get(K)`;
            ('stale', None) when it is only bound outside the iteration, None when it cannot be derived (bound from the element in another way: a converted / derived id)"""
            inside = scope[id(outer_n)]
            asg = [n for n in ast.walk(f) if isinstance(n, (ast.Assign, ast.NamedExpr)) and
                   any(isinstance(x, ast.Name) and x.id == idv and isinstance(x.ctx, ast.Store) for t_ in (n.targets if isinstance(n, ast.Assign) else [n.target]) for x in ast.walk(t_))]
            here = [n for n in asg if id(n) in inside and n.lineno <= before]
            loops = [it_ for it_ in its if any(isinstance(x, ast.Name) and x.id == idv for x in ast.walk(it_[1]))]
            if loops:
                return None  # the id is itself a loop variable (iteration over a keyed container): which member it is cannot be read off here
            if len(here) == 1 and elem_key(here[0].value, outer_t) is not None:
                return elem_key(here[0].value, outer_t)
            if not here and asg and not any(id(n) in inside for n in asg):
                return ("stale", None)
            return None

        def weight(inner_n, inner_iter):
            return max(1, sum(len(attr_forms(a_, e_)) for _, e_, a_, _, _ in origins(f, inner_iter, inner_n)))

        for outer_n, outer_tg, outer_iter, _ in its:
            if not isinstance(outer_tg, ast.Name):
                continue
            direct = [it_ for it_ in its if id(it_[0]) in scope[id(outer_n)] and not any(id(y[0]) in scope[id(outer_n)] and id(it_[0]) in scope[id(y[0])] for y in its if y[0] is not outer_n and y[0] is not it_[0])]
            for inner_n, inner_tg, inner_iter, inner_scope in direct:
                if not isinstance(inner_tg, ast.Name):
                    continue
                tests = [x.test for s_ in inner_scope for x in ast.walk(s_) if isinstance(x, (ast.If, ast.IfExp))] + [c_ for s_ in inner_scope for x in ast.walk(s_) if isinstance(x, ast.comprehension) for c_ in x.ifs] + \
                        (list(inner_n.ifs) if isinstance(inner_n, ast.comprehension) else [])
                seen_t = set()
                for t in [a_ for t_ in tests for a_ in conjuncts(t_)]:
                    if id(t) in seen_t or not (isinstance(t, ast.Compare) and len(t.ops) == 1 and isinstance(t.ops[0], ast.Eq)):
                        continue
                    seen_t.add(id(t))
                    sides = [t.left, t.comparators[0]]
                    ks = [elem_key(x, inner_tg.id) for x in sides]
                    if ks.count(None) != 1:
                        continue
                    k_in, other = next(k_ for k_ in ks if k_ is not None), sides[ks.index(None)]
                    inst = f"{name}: `{u(inner_iter)}` paired with the current element of `{u(outer_iter)}`"
                    if elem_key(other, outer_tg.id) is not None:
                        n_pair += weight(inner_n, inner_iter)
                        paired.setdefault(id(f), (f, []))[1].append((outer_n, inner_n, t))
                        chk.ob("O20.2", inst, k_in == elem_key(other, outer_tg.id), t, u(t))
                        continue
                    if not isinstance(other, ast.Name):
                        continue
                    n_pair += weight(inner_n, inner_iter)
                    paired.setdefault(id(f), (f, []))[1].append((outer_n, inner_n, t))
                    idv = other.id
                    got = bound_from(idv, outer_n, outer_tg.id, inner_n.lineno if hasattr(inner_n, "lineno") else source.enclosing_stmt(inner_n).lineno)
                    if got is None:
                        chk.unknown("O20.2", f"{inst}: where `{idv}` in `{u(t)}` comes from cannot be derived", t)
                        continue
                    if isinstance(got, tuple):
                        ok = False
                        why = f": `{idv}` is not bound from `{outer_tg.id}[{k_in}]` inside this loop — it still holds the value an earlier loop left behind"
                    else:
                        ok = got == k_in
                        why = "" if ok else f": `{idv}` is `{outer_tg.id}[{got}]`, the contender's element is selected by `[{k_in}]` - the two lists are paired by different members"
                    chk.ob("O20.2", inst, ok, t, f"`{u(t)}`" + why, key=f"{_R}:ComparisonReporter.{name}:pairing:{u(outer_iter)}")
        # the index shape: `idx = {c[K]: c for c in <list>}`, or a local mapping FILLED by a loop over the list under the member of each element (`idx[c[K]] = c`; a grouping:
        # `idx.setdefault(c[K], []).append(c)`, `idx[c[K]].append(c)` on a defaultdict; the key possibly bound to a local of the loop first), looked up (`idx[<id>]`,
        # `idx.get(<id>[, default])` - also as the iterable of a loop over the group) with the id of the current element of an iteration over the other list
        indexes = []  # (name of the mapping, the iteration that fills it, the list it iterates, member the elements are filed under)
        for idx, d_ in fdefs_p.items():
            if isinstance(d_, ast.DictComp) and len(d_.generators) == 1 and isinstance(d_.generators[0].target, ast.Name) and not d_.generators[0].ifs and \
                    isinstance(d_.value, ast.Name) and d_.value.id == d_.generators[0].target.id and elem_key(d_.key, d_.generators[0].target.id) is not None:
                indexes.append((idx, d_.generators[0], d_.generators[0].iter, elem_key(d_.key, d_.generators[0].target.id)))
            elif (isinstance(d_, ast.Dict) and not d_.keys) or (isinstance(d_, ast.Call) and (dotted(d_.func) or "").rsplit(".", 1)[-1] in ("dict", "defaultdict", "OrderedDict") and
                                                                 not any(isinstance(a_, (ast.Dict, ast.DictComp, ast.Call)) or (isinstance(a_, ast.Name) and a_.id not in ("list", "set", "tuple", "dict")) for a_ in d_.args) and not d_.keywords):
                for fill_n, fill_tg, fill_iter, _ in its:
                    if not (isinstance(fill_n, ast.For) and isinstance(fill_tg, ast.Name)):
                        continue
                    keys = []
                    for x in [x for x in ast.walk(fill_n) if id(x) in scope[id(fill_n)]]:
                        if isinstance(x, ast.Subscript) and isinstance(x.value, ast.Name) and x.value.id == idx and not isinstance(x.slice, ast.Slice):
                            keys.append((x.slice, x))
                        elif isinstance(x, ast.Call) and isinstance(x.func, ast.Attribute) and x.func.attr == "setdefault" and isinstance(x.func.value, ast.Name) and x.func.value.id == idx and x.args:
                            keys.append((x.args[0], x))
                    if not keys:
                        continue
                    members = {elem_key(k_, fill_tg.id) if not isinstance(k_, ast.Name) else bound_from(k_.id, fill_n, fill_tg.id, x_.lineno) for k_, x_ in keys}
                    # the elements themselves are filed (the loop variable is stored / appended), not one of their members
                    files_elem = any(isinstance(y, ast.Name) and y.id == fill_tg.id and isinstance(y.ctx, ast.Load) and not isinstance(source.parent(y), (ast.Subscript, ast.Attribute)) for s_ in fill_n.body for y in ast.walk(s_))
                    if len(members) == 1 and isinstance(next(iter(members)), str) and files_elem:
                        indexes.append((idx, fill_n, fill_iter, next(iter(members))))
        for idx, fill_n, fill_iter, k_in in indexes:
            for x in ast.walk(f):
                key_e = None
                if isinstance(x, ast.Subscript) and isinstance(x.value, ast.Name) and x.value.id == idx and isinstance(x.ctx, ast.Load) and not isinstance(x.slice, ast.Slice):
                    key_e = x.slice
                elif isinstance(x, ast.Call) and isinstance(x.func, ast.Attribute) and x.func.attr == "get" and isinstance(x.func.value, ast.Name) and x.func.value.id == idx and x.args:
                    key_e = x.args[0]
                if key_e is None or id(x) in scope.get(id(fill_n), ()):
                    continue
                # the iterations the lookup is evaluated in, innermost last; the one whose element the key is read from is the pairing (a table-driven loop over the statistics
                # in between is not), else the innermost
                cands = [(o_n, o_tg, o_iter) for o_n, o_tg, o_iter, _ in its if isinstance(o_tg, ast.Name) and o_n is not fill_n and id(x) in scope[id(o_n)] and id(o_n) not in scope.get(id(fill_n), ())]
                if not cands:
                    continue
                cands.sort(key=lambda c_: len(scope[id(c_[0])]), reverse=True)
                gots = [elem_key(key_e, o_tg.id) if not isinstance(key_e, ast.Name) else bound_from(key_e.id, o_n, o_tg.id, x.lineno) for o_n, o_tg, o_iter in cands]
                pick = next((i_ for i_ in reversed(range(len(cands))) if isinstance(gots[i_], str)), len(cands) - 1)
                (outer_n, outer_tg, outer_iter), got = cands[pick], gots[pick]
                inst = f"{name}: `{u(fill_iter)}` (indexed by `{k_in}`) paired with the current element of `{u(outer_iter)}`"
                n_pair += weight(fill_n, fill_iter)
                paired.setdefault(id(f), (f, []))[1].append((outer_n, fill_n, None))
                if got is None:
                    chk.unknown("O20.2", f"{inst}: where the key `{u(key_e)}` of the lookup comes from cannot be derived", x)
                elif isinstance(got, tuple):
                    chk.ob("O20.2", inst, False, x, f"`{u(x)}`: the key is not the `{k_in}` of the current element" + (f" (bound from `{got[1]}`)" if got[1] else " (bound outside this loop)"),
                           key=f"{_R}:ComparisonReporter.{name}:pairing:{u(outer_iter)}")
                else:
                    chk.ob("O20.2", inst, got == k_in, x, f"`{u(x)}`" + ("" if got == k_in else f": looked up by `[{got}]` in an index built on `[{k_in}]`"), key=f"{_R}:ComparisonReporter.{name}:pairing:{u(outer_iter)}")
    located(n_pair >= 5, "O20.2", "id-paired statistics located", rep, f"{n_pair} pairing test(s)")
    # KEYED series (the percentiles of a task): a loop of the reporter over a series computed by a function of the metrics module builds one line per element, both operands read
    # from the two races' records under a key COMPUTED from the element. Each line must compare the stored values of ITS element: decided on values - the series and the key
    # expressions are evaluated (functions of the metrics module interpreted): the keys of distinct elements are pairwise distinct (two elements that share a key show the same
    # stored values; one of the two lines is not about its element, the values stored for it are never shown), the two races are read under the same key, and the key is the one
    # the results writer computes for the element (the key expression of every `<record>[<key function>(k)] = v` store in the metrics module that uses the same key function).
    import sys as _sys

    met_funcs = {n.name: n for n in met_.tree.body if isinstance(n, ast.FunctionDef)}
    met_alias = {(a_.asname or a_.name) for n in rp.tree.body if isinstance(n, ast.ImportFrom) and n.module == "esrally" for a_ in n.names if a_.name == "metrics"}

    def met_ev(e, env):
        """e evaluated with the functions of the metrics module it calls (`metrics.f(...)`, or `f(...)` inside that module) interpreted"""
        class R_(ast.NodeTransformer):
            def visit_Attribute(self, n):
                if isinstance(n.value, ast.Name) and n.value.id in met_alias and n.attr in met_funcs:
                    return ast.Name(id=n.attr, ctx=ast.Load())
                return self.generic_visit(n)

        e2 = ast.fix_missing_locations(R_().visit(ast.parse(u(e), mode="eval").body))
        return _Interp({}, met_funcs).ev(e2, dict(env, sys=minieval.Record(maxsize=_sys.maxsize)))

    def met_calls(e):
        return {x.func.attr if isinstance(x.func, ast.Attribute) else x.func.id for x in ast.walk(e) if isinstance(x, ast.Call) and
                ((isinstance(x.func, ast.Attribute) and isinstance(x.func.value, ast.Name) and x.func.value.id in met_alias and x.func.attr in met_funcs) or (isinstance(x.func, ast.Name) and x.func.id in met_funcs))}

    n_series = 0
    EVAL_ERR = (Unsupported, UnknownAtom, minieval.CannotEval, TypeError, ValueError, AttributeError, KeyError, IndexError, ArithmeticError, RecursionError)
    for name, f in cm.items():
        fdefs_s = local_defs(f)
        for it_n, it_tg, it_iter, it_scope in iterations(f):
            # the series by value: through a module-level name of the reporter module (a table computed once at import time)
            if isinstance(it_iter, ast.Name) and it_iter.id not in fdefs_s and it_iter.id not in params_of(f):
                mdef = [n.value for n in rp.tree.body if isinstance(n, ast.Assign) and len(n.targets) == 1 and isinstance(n.targets[0], ast.Name) and n.targets[0].id == it_iter.id]
                it_iter = mdef[0] if len(mdef) == 1 else it_iter
            tg_names = {y.id for y in ast.walk(it_tg) if isinstance(y, ast.Name)}
            if not tg_names or not met_calls(it_iter):
                continue
            in_scope = {id(x) for s_ in it_scope for x in ast.walk(s_)}
            reads = {}  # role -> [key expression]
            for f2, c in sites:
                if f2 is not f or id(c) not in in_scope:
                    continue
                b = bind_args(c, line)
                for role_, prm in (("B", P_BASE), ("C", P_CONT)):
                    e_ = b.get(prm)
                    e_ = source.inline_node(e_, {k_: v_ for k_, v_ in fdefs_s.items() if k_ not in tg_names and k_ not in params_of(f)}) if e_ is not None else None
                    for x in ast.walk(e_) if e_ is not None else ():
                        k_e = x.slice if isinstance(x, ast.Subscript) and not isinstance(x.slice, ast.Slice) else (
                            x.args[0] if isinstance(x, ast.Call) and isinstance(x.func, ast.Attribute) and x.func.attr == "get" and x.args else None)
                        if k_e is not None and any(isinstance(y, ast.Name) and y.id in tg_names for y in ast.walk(k_e)) and (met_calls(k_e) or isinstance(it_tg, (ast.Tuple, ast.List))):
                            reads.setdefault(role_, []).append(k_e)
            if set(reads) != {"B", "C"}:
                continue
            n_series += 1
            inst = f"{name}: the lines of the series `{short(it_iter, 60)}`"
            try:
                series = met_ev(it_iter, {})
                if not isinstance(series, (list, tuple)) or not series:
                    raise minieval.CannotEval(f"series {series!r}")
                series = [tuple(p_) if isinstance(p_, list) else p_ for p_ in series]

                def env_of(p_):
                    env_ = {}
                    _Interp()._bind(it_tg, p_, env_)
                    return env_

                keys = {r_: [[met_ev(k_e, env_of(p_)) for p_ in series] for k_e in ks] for r_, ks in reads.items()}
            except EVAL_ERR as e:
                chk.unknown("O20.2", f"{inst}: the series / the keys the operands are read under cannot be evaluated: {type(e).__name__}: {e}", it_n)
                continue
            kb = keys["B"][0]
            dup = sorted({f"{series[i_]!r} and {series[j_]!r} -> {kb[i_]!r}" for i_ in range(len(series)) for j_ in range(i_ + 1, len(series)) if kb[i_] == kb[j_] and series[i_] != series[j_]})
            chk.ob("O20.2", f"{inst}: distinct elements are read under distinct keys (each line shows the values stored for ITS element)", not dup, it_n,
                   "; ".join(dup)[:300] + ": both lines show the same stored values, the values stored for one of the elements are never compared" if dup else f"{list(series)!r} -> {kb!r}",
                   key=f"{_R}:ComparisonReporter.{name}:series-keys-distinct")
            diff_ = [f"{series[i_]!r}: {sorted({repr(ks_[i_]) for ks_ in keys['B'] + keys['C']})}" for i_ in range(len(series)) if len({ks_[i_] for ks_ in keys["B"] + keys["C"]}) > 1]
            chk.ob("O20.2", f"{inst}: baseline and contender are read under the same key for every element", not diff_, it_n, "; ".join(diff_)[:300], key=f"{_R}:ComparisonReporter.{name}:series-keys-same")
            # the writer: stores `<record>[<key>] = v` in the metrics module whose key calls the same function(s) of the metrics module, the key a function of ONE local name
            # (also a (key, value) pair / a key of a comprehension the record is built from); the element of a tuple-valued series stands for its first number
            kfs = met_calls(reads["B"][0]) or met_calls(it_iter)
            scal = [p_ if not isinstance(p_, tuple) else next((y for y in p_ if isinstance(y, (int, float)) and not isinstance(y, bool)), None) for p_ in series]
            n_w = 0
            for w in ast.walk(met_.tree) if None not in scal else ():
                k_w = None
                if isinstance(w, ast.Assign) and len(w.targets) == 1 and isinstance(w.targets[0], ast.Subscript) and not isinstance(w.targets[0].slice, ast.Slice):
                    k_w = w.targets[0].slice
                elif isinstance(w, ast.DictComp):
                    k_w = w.key
                elif isinstance(w, (ast.GeneratorExp, ast.ListComp)) and isinstance(w.elt, ast.Tuple) and len(w.elt.elts) == 2:
                    k_w = w.elt.elts[0]
                if k_w is not None and met_calls(k_w) and met_calls(k_w) <= kfs:
                    free = sorted({y.id for y in ast.walk(k_w) if isinstance(y, ast.Name)} - set(met_funcs))
                    if len(free) != 1:
                        continue
                    try:
                        wk = [met_ev(k_w, {free[0]: p_}) for p_ in scal]
                    except EVAL_ERR:
                        continue
                    n_w += 1
                    bad_w = [f"{series[i_]!r}: stored under {wk[i_]!r}, read under {kb[i_]!r}" for i_ in range(len(series)) if wk[i_] != kb[i_]]
                    chk.ob("O20.2", f"{inst}: every element is read under the key the results writer stores it under (`{short(w, 50)}`)", not bad_w, w, "; ".join(bad_w)[:300],
                           key=f"{_R}:ComparisonReporter.{name}:series-keys-writer:{source.qualname(w)}")
            if not n_w and None not in scal:
                chk.unknown("O20.2", f"{inst}: the store of the results writer that computes its key with {sorted(kfs)} was not located", it_n)
    located(n_series >= 1, "O20.2", "keyed series (percentiles) located", rep, f"{n_series} loop(s)")
    # every element (id) BOTH lists contain gets its lines - wherever it is stored in the two lists -, paired with ITSELF, and every such element the same number of lines.
    # Decided on VALUES: each method that pairs two list-valued statistics is evaluated (its helpers interpreted with it; the line constructor replaced by a recorder of its
    # operands: when _line emits is the 4-row table above) on two races whose lists hold three common entities in DIFFERENT ORDER (the match is the contender's 3rd, 4th and 1st
    # element), one entity only the baseline and one only the contender has - and with the two lists exchanged. A search that stops early (a `break` / `return` that is not
    # under the match), looks at a slice, or pairs by position loses a common element or pairs two different ones. Where the method cannot be evaluated, the exits of the two
    # iterations are read off the control flow instead: the inner search is left early only where the match test held, the outer iteration is never left early.
    stub_line = ast.parse(f"def {line.name}({ast.unparse(line.args)}):\n    return ['\\x00row', {P_METRIC}, {P_TASK}, {P_BASE}, {P_CONT}] if {P_BASE} is not None and {P_CONT} is not None else []").body[0]
    ORDERS = ((("e1", "e2", "e5", "e3"), ("e3", "e4", "e1", "e2")), (("e3", "e4", "e1", "e2"), ("e1", "e2", "e5", "e3")))
    COMMON = ("e1", "e2", "e3")

    def stub_rows(v, out):
        if isinstance(v, (list, tuple)):
            if len(v) == 5 and isinstance(v[0], str) and v[0] == "\x00row":
                out.append(v)
            else:
                for x in v:
                    stub_rows(x, out)
        return out

    def loop_exits(loop_node):
        """(node, kind) of the statements that leave a `for` statement early: its own breaks, and every return / raise in its body (nested functions not entered)"""
        out = []

        def rec(stmts, own):
            for s_ in stmts:
                for x in source.walk_local(s_):
                    if isinstance(x, (ast.Return, ast.Raise)):
                        out.append((x, "return" if isinstance(x, ast.Return) else "raise"))
                    elif isinstance(x, ast.Break) and own and source.enclosing(x, (ast.For, ast.While, ast.AsyncFor)) is loop_node:
                        out.append((x, "break"))

        rec(loop_node.body, True)
        return out

    def under_match(x, t):
        return t is not None and any(pol and any(c_ is t for c_ in conjuncts(test_)) for test_, pol in guards(x, path_sensitive=True))

    for f, prs in paired.values():
        ps = own_params(f)
        side = {p_: next(iter(r_)) for p_ in ps for r_ in [roles.param_roles.get((f.name, p_)) or set()] if r_ in ({"B"}, {"C"})}
        is_race = {p_: any((isinstance(x, ast.Attribute) and isinstance(x.value, ast.Name) and x.value.id == p_) or
                           (isinstance(x, ast.Call) and dotted(x.func) == "getattr" and x.args and isinstance(x.args[0], ast.Name) and x.args[0].id == p_) for x in ast.walk(f)) for p_ in side}
        inst = f"{f.name}: every element that both races' lists contain gets its lines (paired with itself), wherever it is stored in the lists"
        k_ = f"{_R}:ComparisonReporter.{f.name}:paired-exhaustive"
        why_not, bad, n_rows = None, [], 0
        if sorted(set(side.values())) != ["B", "C"] or f.args.vararg or f.args.kwarg:
            why_not = "the parameters that carry the two races (or their lists) are not derived"
        for lb, lc in ORDERS if why_not is None else ():
            lists = {"B": [_Elem(e_) for e_ in lb], "C": [_Elem(e_) for e_ in lc]}
            vals = []
            for p_ in ps:
                if p_ not in side:
                    vals.append(f"<{p_}>")
                elif is_race[p_]:
                    rec_ = minieval.Record()
                    rec_.fields = _AnyFields(lists[side[p_]])
                    vals.append(rec_)
                else:
                    vals.append(lists[side[p_]])
            it = _Interp(dict(cm, **{line.name: stub_line}), mod_funcs)
            try:
                r = it.call(f, ([] if _is_static(f) else [self_rec(False)]) + vals, {}, {})
            except (Unsupported, UnknownAtom, minieval.CannotEval, TypeError, ValueError, AttributeError, KeyError, IndexError, ArithmeticError, RecursionError) as e:
                why_not = f"{type(e).__name__}: {e}"
                break
            rows_ = stub_rows(r, [])
            ents = []
            for row_ in rows_:
                be, ce = (c_.split(":", 1)[0] if isinstance(c_, str) and ":" in c_ and c_.split(":", 1)[0] in lb + lc else None for c_ in row_[3:5])
                if be is None or ce is None:
                    why_not = f"the operands {row_[3]!r} / {row_[4]!r} of a line are not members of an element of the lists"
                    break
                ents.append((be, ce))
            if why_not is not None:
                break
            n_rows += len(rows_)
            order = f"baseline list {list(lb)}, contender list {list(lc)}"
            mixed = sorted({f"{be} with {ce}" for be, ce in ents if be != ce})
            if mixed:
                bad.append(f"{order}: a line compares element {mixed[0]}")
            per = {e_: sum(1 for be, ce in ents if be == ce == e_) for e_ in COMMON}
            if ents and len(set(per.values())) > 1:
                bad.append(f"{order}: lines per common element {per} - " + ", ".join(e_ for e_ in COMMON if per[e_] < max(per.values())) + " (present in both races) is not compared")
        if why_not is None and n_rows == 0:
            why_not = "it yields no line at all for two races whose lists share three elements"
        if why_not is None:
            chk.ob("O20.5", inst, not bad, f, "; ".join(bad[:2])[:500] if bad else f"{n_rows} line(s) for 3 common elements in 2 orders", key=k_)
            continue
        # not evaluable: the exits of the located iterations, read off the control flow
        verdicts, undecided = [], []
        for outer_n, inner_n, t in prs:
            for loop_, is_inner in ((inner_n, True), (outer_n, False)):
                if not isinstance(loop_, ast.For):
                    continue  # a comprehension has no early exit
                for x, kind in loop_exits(loop_):
                    if is_inner and kind == "break":
                        verdicts.append((x, under_match(x, t), "the search through the inner list stops here before the element with the same id was seen"))
                    elif is_inner and source.enclosing(x, (ast.For,)) is not loop_:
                        continue  # judged with the loop it belongs to
                    elif under_match(x, t) or not guards(x, stop=loop_, path_sensitive=True):
                        verdicts.append((x, False, f"the {'whole method' if kind != 'break' else 'outer iteration'} is left here: the remaining elements of the lists are never compared"))
                    else:
                        undecided.append(x)
        wrong = [(x, why) for x, ok_, why in verdicts if not ok_]
        if wrong:
            chk.ob("O20.5", inst, False, wrong[0][0], f"`{short(wrong[0][0], 40)}` (line {wrong[0][0].lineno}): {wrong[0][1]}", key=k_)
        elif undecided or not any(isinstance(l_, ast.For) for o_, i_, _ in prs for l_ in (o_, i_)):
            chk.unknown("O20.5", f"{inst}: the method cannot be evaluated on values ({why_not}) and " +
                        (f"whether `{short(undecided[0], 40)}` leaves the iteration before every element was compared cannot be decided" if undecided else "its pairing is not a pair of nested loops"), undecided[0] if undecided else f)
        else:
            chk.ob("O20.5", inst, True, f, f"read off the control flow ({why_not}): no iteration of the pairing is left early except under the match test", key=k_)
    # a TOLERANT read hands on None when the race lacks the member. An operand of a comparison line that is selected from a mapping a reporting method receives from one race
    # (a parameter: the per-shard statistics - {} in a race without shard level statistics and in results of older versions -, the percentile record of a task) by a lookup that
    # tolerates absence (`.get(...)`, with or without default, `... or <default>`) is evaluated on the EMPTY mapping: it must yield None, the only value _line reads as "this
    # race does not contain the metric" (4-row table above). Any other value (`.get(k, 0)`, `.get(k) or 0`) is compared as if it were stored: an invented line, a difference in
    # the regression / improvement colour for a metric one race does not have. A mandatory member (read by subscript) is not an instance; values a module-level function
    # computes from the race (collated disk usage: a field an index does not have occupies 0 bytes) are outside this rule.
    n_tol = 0
    for f, c in sites:
        b = bind_args(c, line)
        g_ = source.enclosing_func(c) or f
        gdefs = {k_: v_ for k_, v_ in local_defs(g_).items() if k_ not in params_of(g_)}
        lab = label_text(b.get(P_METRIC)) or site_label.get(id(c)) or "?"
        for side_, who in ((P_BASE, "baseline"), (P_CONT, "contender")):
            e = b.get(side_)
            if e is None:
                continue
            e = source.clone(source.inline_node(e, gdefs))
            gets = [x for x in ast.walk(e) if isinstance(x, ast.Call) and isinstance(x.func, ast.Attribute) and x.func.attr == "get" and 1 <= len(x.args) <= 2 and not x.keywords]
            if not gets:
                continue
            for x in gets:
                x.args[0] = ast.Constant(value="\x00member")  # which member is looked up does not matter on the empty mapping
            fn_ = free_names(e)
            if len(fn_) != 1:
                continue
            r_ = next(iter(fn_))
            if r_ not in own_params(g_) or assigned_in(g_, r_) or not ((roles.param_roles.get((g_.name, r_)) or set()) & {"B", "C"}) or \
                    not any(isinstance(x.func.value, ast.Name) and x.func.value.id == r_ for x in gets):
                continue
            try:
                val = _Interp().ev(e, {r_: {}})
            except (Unsupported, UnknownAtom, minieval.CannotEval, TypeError, ValueError, AttributeError, KeyError, IndexError, ArithmeticError, RecursionError):
                continue  # not a selection that tolerates absence (a mandatory member, a computation on the value)
            n_tol += 1
            chk.ob("O20.5", f"{g_.name}: '{lab}': the {who} operand `{short(b.get(side_), 60)}` is None when `{r_}` lacks the member", val is None, c,
                   "" if val is None else f"`{short(source.inline_node(b.get(side_), gdefs), 70)}` yields {val!r} on a mapping without the member: the line is built from a value the {who} race does not contain "
                   "(compared with the other race's value, coloured as a regression / improvement; with both races lacking it an invented line)",
                   key=f"{_R}:ComparisonReporter.{g_.name}:tolerant-read:{who}:{lab}")
    located(n_tol >= 4, "O20.5", "operands selected from a mapping by a tolerant read located", rep, f"{n_tol} operand(s)")
    # asymmetric None guards -> advisory
    for name, f in cm.items():
        for n in walk_body(f):
            if isinstance(n, ast.If) and isinstance(n.test, ast.Compare) and isinstance(n.test.ops[0], ast.Is) and "baseline" in u(n.test.left) and any(isinstance(x, ast.Return) for x in n.body):
                twin = u(n.test.left).replace("baseline", "contender")
                if not any(isinstance(m, ast.If) and twin in u(m.test) for m in walk_body(f)):
                    chk.adv("O20.5", f"{name}: baseline value guarded for None but the contender's `{twin}` is not", n)


from sa.selftest import V  # noqa: E402

VARIANTS = [
    V("flip direction: mean throughput", "break", _R, 'self._line("Mean Throughput", b_mean, c_mean, task, b_unit, treat_increase_as_improvement=True),', 'self._line("Mean Throughput", b_mean, c_mean, task, b_unit, treat_increase_as_improvement=False),', "O20.1"),
    V("flip direction: store size", "break", _R, '                "Store size",\n                baseline_stats.store_size,\n                contender_stats.store_size,\n                "",\n                "GB",\n                treat_increase_as_improvement=False,', '                "Store size",\n                baseline_stats.store_size,\n                contender_stats.store_size,\n                "",\n                "GB",\n                treat_increase_as_improvement=True,', "O20.1"),
    V("seed m2: transform throughput direction", "break", _R, '                            "Transform throughput",\n                            baseline["mean"],\n                            contender["mean"],\n                            transform_id,\n                            baseline["unit"],\n                            treat_increase_as_improvement=True,', '                            "Transform throughput",\n                            baseline["mean"],\n                            contender["mean"],\n                            transform_id,\n                            baseline["unit"],\n                            treat_increase_as_improvement=False,', "O20.1"),
    V("swap operands: segment count", "break", _R, '                "Segment count",\n                baseline_stats.segment_count,\n                contender_stats.segment_count,', '                "Segment count",\n                contender_stats.segment_count,\n                baseline_stats.segment_count,', "O20.2"),
    V("contender median from baseline", "break", _R, '        c_median = contender_stats.metrics(task)["throughput"]["median"]', '        c_median = baseline_stats.metrics(task)["throughput"]["median"]', "O20.2"),
    V("GC helper reads baseline twice", "break", _R, '                getattr(contender_stats, f"{metric_prefix}_gc_time"),', '                getattr(baseline_stats, f"{metric_prefix}_gc_time"),', "O20.2"),
    V("baseline - contender", "break", _R, "            diff = formatter(contender - baseline)", "            diff = formatter(baseline - contender)", "O20.3"),
    V("divide by contender", "break", _R, "            diff = _safe_divide(contender - baseline, abs(baseline)) * 100.0", "            diff = _safe_divide(contender - baseline, abs(contender)) * 100.0", "O20.3"),
    V("green/red swapped in the decrease arm", "break", _R, "        else:\n            color_greater = console.format.red\n            color_smaller = console.format.green", "        else:\n            color_greater = console.format.green\n            color_smaller = console.format.red", "O20.3"),
    V("> instead of >= on one side", "break", _R, "        if printed > 0:", "        if printed >= 0:", "O20.3"),
    V("seed m1: neutral colour hoisted out of the plain arm", "break", _R, "            color_neutral = identity\n        elif treat_increase_as_improvement:", "            color_neutral = console.format.neutral\n        elif treat_increase_as_improvement:", "O20.3"),
    V("plain/rich swapped at the writer", "break", _R, "        self._write_report(metric_table_plain, metric_table_rich)", "        self._write_report(metric_table_rich, metric_table_plain)", "O20.4"),
    V("file gets the rich data", "break", _R, "            f.writelines(formatter(headers, data_plain))", "            f.writelines(formatter(headers, data_rich))", "O20.4"),
    V("line when either present", "break", _R, "        if baseline is not None and contender is not None:", "        if baseline is not None or contender is not None:", "O20.5"),
    V("seed m3: truthiness guard on a scalar metric", "break", _R, "        if baseline_stats.ingest_pipeline_cluster_failed is None:", "        if not baseline_stats.ingest_pipeline_cluster_failed:", "O20.5"),
    V("line guard by truthiness", "break", _R, "        if baseline is not None and contender is not None:", "        if baseline and contender:", "O20.5"),
    # preserving
    V("locals renamed", "keep", _R, "b_median", "base_median", count=2),
    V("strict mirrored thresholds", "keep", _R, "        if printed > 0:\n            return color_greater(f\"+{formatted}\")\n        elif printed < 0:", "        if printed >= 10**-precision:\n            return color_greater(f\"+{formatted}\")\n        elif printed <= -(10**-precision):"),
    V("De Morgan line guard", "keep", _R, "        if baseline is not None and contender is not None:", "        if not (baseline is None or contender is None):"),
    # hunt F31 (aff9c7a): relative difference over the signed baseline
    V("F31 reverted: relative difference divided by the signed baseline", "break", _R, "_safe_divide(contender - baseline, abs(baseline)) * 100.0", "_safe_divide(contender - baseline, baseline) * 100.0", "O20.3"),
    V("F31 respelled: magnitude by conditional negation, no helper", "keep", _R, "            diff = _safe_divide(contender - baseline, abs(baseline)) * 100.0",
      "            magnitude = -baseline if baseline < 0 else baseline\n            diff = ((contender - baseline) / magnitude if magnitude != 0 else 0) * 100.0"),
    V("F31 respelled: sign restored after dividing by the signed baseline", "keep", _R, "            diff = _safe_divide(contender - baseline, abs(baseline)) * 100.0",
      "            diff = _safe_divide(contender - baseline, baseline) * (100.0 if baseline > 0 else -100.0) + 0.0"),
    # hunt F33 (9732d2d): neutral band decided on the unrounded value
    V("F33 reverted: neutral band on the unrounded difference", "break", _R, "        if printed > 0:\n            return color_greater(f\"+{formatted}\")\n        elif printed < 0:",
      "        if diff >= 10**-precision:\n            return color_greater(f\"+{formatted}\")\n        elif diff <= -(10**-precision):", "O20.3"),
    V("F33 respelled: printed value parsed from the formatted text", "keep", _R, "        printed = float(f\"{diff:.{precision}f}\")", "        printed = float(formatted.rstrip(\"%\"))"),
    V("F33 respelled: zero test on the digits of the text", "keep", _R, "        if printed > 0:\n            return color_greater(f\"+{formatted}\")\n        elif printed < 0:",
      "        if printed == 0:\n            return color_neutral(formatted)\n        elif diff > 0:\n            return color_greater(f\"+{formatted}\")\n        elif diff < 0:"),
    # hunt F32 (7f539ff): optional members of a task result read by subscript
    V("F32 reverted: baseline throughput mean by subscript", "break", _R, '        b_mean = baseline_stats.metrics(task)["throughput"].get("mean")', '        b_mean = baseline_stats.metrics(task)["throughput"]["mean"]', "O20.5"),
    V("F32 reverted: contender processing time by subscript", "break", _R, '        contender_processing_time = contender_stats.metrics(task).get("processing_time") or {}', '        contender_processing_time = contender_stats.metrics(task)["processing_time"]', "O20.5"),
    V("F32 half repaired: processing time read with .get() but None handed to the percentile helper", "break", _R, '        baseline_processing_time = baseline_stats.metrics(task).get("processing_time") or {}', '        baseline_processing_time = baseline_stats.metrics(task).get("processing_time")', "O20.5"),
    [V("F32 respelled: explicit defaults (both races)", "keep", _R, '        c_mean = contender_stats.metrics(task)["throughput"].get("mean")', '        c_mean = contender_stats.metrics(task)["throughput"].get("mean", None)'),
     V("", "keep", _R, '        b_mean = baseline_stats.metrics(task)["throughput"].get("mean")', '        b_mean = baseline_stats.metrics(task)["throughput"].get("mean", None)')],
    [V("F32 respelled: membership test instead of .get() (both races)", "keep", _R, '        baseline_processing_time = baseline_stats.metrics(task).get("processing_time") or {}',
       '        baseline_processing_time = (baseline_stats.metrics(task)["processing_time"] if "processing_time" in baseline_stats.metrics(task) else None) or {}'),
     V("", "keep", _R, '        contender_processing_time = contender_stats.metrics(task).get("processing_time") or {}',
       '        contender_processing_time = (contender_stats.metrics(task)["processing_time"] if "processing_time" in contender_stats.metrics(task) else None) or {}')],
    # benign x7: the divisor is a magnitude since F31, `d > 0` and `d` decide alike
    V("zero-safe division tests d > 0 (divisor is |baseline|)", "keep", _R, "            return n / d if d else 0", "            return n / d if d > 0 else 0"),
]

# ---- hardening round 2: realistic refactored shapes (benign b1 / b3 and relatives) and the same defects placed INSIDE the refactored shape ----
_DIFF_HEAD = (
    "    def _diff(self, baseline, contender, treat_increase_as_improvement, formatter=lambda x: x, as_percentage=False):\n"
    "        def identity(x):\n            return x\n\n        def _safe_divide(n, d):\n            return n / d if d else 0\n\n"
    "        if self.plain:\n            color_greater = identity\n            color_smaller = identity\n            color_neutral = identity\n"
    "        elif treat_increase_as_improvement:\n            color_greater = console.format.green\n            color_smaller = console.format.red\n            color_neutral = console.format.neutral\n"
    "        else:\n            color_greater = console.format.red\n            color_smaller = console.format.green\n            color_neutral = console.format.neutral\n\n"
    "        if as_percentage:\n"
    "            # relative to the magnitude of the baseline: the sign is the one of the absolute difference also for negative baselines\n"
    "            diff = _safe_divide(contender - baseline, abs(baseline)) * 100.0\n"
)


def _extracted(uncolored="message", plain_zero="self._uncolored", dec_arm="console.format.red, console.format.green", shared=False):
    """the b1 shape: colour selection in a helper method that returns a tuple, identity and zero-safe division as static methods"""
    return (
        "    @staticmethod\n    def _uncolored(message):\n        return " + uncolored + "\n\n"
        "    @staticmethod\n    def _safe_divide(n, d):\n        return n / d if d else 0\n\n"
        "    def _diff_colors(self, treat_increase_as_improvement):\n"
        "        \"\"\"Chooses how differences are highlighted.\"\"\"\n"
        "        if self.plain:\n            return self._uncolored, self._uncolored, " + plain_zero + "\n"
        "        if treat_increase_as_improvement:\n            return console.format.green, console.format.red, console.format.neutral\n"
        "        return " + dec_arm + ", console.format.neutral\n\n"
        + ("    def _headline(self, text):\n        return self._diff_colors(True)[0](text)\n\n" if shared else "") +
        "    def _diff(self, baseline, contender, treat_increase_as_improvement, formatter=lambda x: x, as_percentage=False):\n"
        "        color_greater, color_smaller, color_neutral = self._diff_colors(treat_increase_as_improvement)\n\n"
        "        if as_percentage:\n"
        "            # relative to the magnitude of the baseline: the sign is the one of the absolute difference also for negative baselines\n"
        "            diff = self._safe_divide(contender - baseline, abs(baseline)) * 100.0\n"
    )


_THR_OLD = (
    '        b_min = baseline_stats.metrics(task)["throughput"]["min"]\n        b_mean = baseline_stats.metrics(task)["throughput"].get("mean")\n'
    '        b_median = baseline_stats.metrics(task)["throughput"]["median"]\n        b_max = baseline_stats.metrics(task)["throughput"]["max"]\n'
    '        b_unit = baseline_stats.metrics(task)["throughput"]["unit"]\n\n'
    '        c_min = contender_stats.metrics(task)["throughput"]["min"]\n        c_mean = contender_stats.metrics(task)["throughput"].get("mean")\n'
    '        c_median = contender_stats.metrics(task)["throughput"]["median"]\n        c_max = contender_stats.metrics(task)["throughput"]["max"]\n'
)


def _hoisted(b_mean='baseline_throughput.get("mean")', c_median='contender_throughput["median"]'):
    """the b3 shape: the throughput record of each race looked up once"""
    return (
        '        baseline_throughput = baseline_stats.metrics(task)["throughput"]\n        b_min = baseline_throughput["min"]\n        b_mean = ' + b_mean + '\n'
        '        b_median = baseline_throughput["median"]\n        b_max = baseline_throughput["max"]\n        b_unit = baseline_throughput["unit"]\n\n'
        '        contender_throughput = contender_stats.metrics(task)["throughput"]\n        c_min = contender_throughput["min"]\n        c_mean = contender_throughput.get("mean")\n'
        '        c_median = ' + c_median + '\n        c_max = contender_throughput["max"]\n'
    )


_TASK_LOOP = (
    "        for t in baseline_stats.tasks():\n            if t in contender_stats.tasks():\n"
    "                metrics_table.extend(self._report_throughput(baseline_stats, contender_stats, t))\n"
    "                metrics_table.extend(self._report_latency(baseline_stats, contender_stats, t))\n"
    "                metrics_table.extend(self._report_service_time(baseline_stats, contender_stats, t))\n"
    "                if self.show_processing_time:\n"
    "                    metrics_table.extend(self._report_processing_time(baseline_stats, contender_stats, t))\n"
    "                metrics_table.extend(self._report_error_rate(baseline_stats, contender_stats, t))\n"
)


def _filtered_loop(cond="t in contender_tasks"):
    return (
        "        contender_tasks = contender_stats.tasks()\n        common_tasks = [t for t in baseline_stats.tasks() if " + cond + "]\n        for t in common_tasks:\n"
        "            metrics_table.extend(self._report_throughput(baseline_stats, contender_stats, t))\n"
        "            metrics_table.extend(self._report_latency(baseline_stats, contender_stats, t))\n"
        "            metrics_table.extend(self._report_service_time(baseline_stats, contender_stats, t))\n"
        "            if self.show_processing_time:\n"
        "                metrics_table.extend(self._report_processing_time(baseline_stats, contender_stats, t))\n"
        "            metrics_table.extend(self._report_error_rate(baseline_stats, contender_stats, t))\n"
    )


_ROW_OLD = (
    "        if baseline is not None and contender is not None:\n            return [\n                metric,\n                str(task),\n                formatter(baseline),\n"
    "                formatter(contender),\n                self._diff(baseline, contender, treat_increase_as_improvement, formatter),\n                unit,\n"
    "                self._diff(baseline, contender, treat_increase_as_improvement, formatter, as_percentage=True),\n            ]\n        else:\n            return []\n"
)


def _row_by_parts(operands="baseline, contender", guard="baseline is None or contender is None"):
    return (
        "        if " + guard + ":\n            return []\n"
        "        operands = (" + operands + ", treat_increase_as_improvement, formatter)\n"
        "        absolute = self._diff(*operands)\n        relative = self._diff(*operands, as_percentage=True)\n"
        "        row = [metric, str(task)]\n        row += [formatter(baseline), formatter(contender)]\n        row += [absolute, unit, relative]\n        return row\n"
    )


_THR_FLAG = 'task, b_unit, treat_increase_as_improvement=True'
_THR_JOIN = '        return self._join(\n            self._line("Min Throughput", b_min'
_CONSOLE = "    print_internal(formatter(headers, data_rich))\n"

VARIANTS += [
    # b1: colour selection extracted into a helper method (tuple result), identity / division as static methods
    V("h2 b1 shape: colour selection in a helper method, static identity and division", "keep", _R, _DIFF_HEAD, _extracted()),
    V("h2 b1 shape, defect in the helper: red/green exchanged in the decrease arm of _diff_colors", "break", _R, _DIFF_HEAD, _extracted(dec_arm="console.format.green, console.format.red"), "O20.3"),
    V("h2 b1 shape, defect in the helper: plain arm keeps the neutral colour function for zero", "break", _R, _DIFF_HEAD, _extracted(plain_zero="console.format.neutral"), "O20.3"),
    V("h2 b1 shape, defect in the static identity: it drops the '+' of the text", "break", _R, _DIFF_HEAD, _extracted(uncolored='message.lstrip("+")'), "O20.3"),
    V("h2 colour table as a dict lookup on the flag", "keep", _R,
      "        elif treat_increase_as_improvement:\n            color_greater = console.format.green\n            color_smaller = console.format.red\n            color_neutral = console.format.neutral\n"
      "        else:\n            color_greater = console.format.red\n            color_smaller = console.format.green\n            color_neutral = console.format.neutral\n",
      "        else:\n            color_greater, color_smaller = {True: (console.format.green, console.format.red), False: (console.format.red, console.format.green)}[bool(treat_increase_as_improvement)]\n"
      "            color_neutral = console.format.neutral\n"),
    V("h2 colour table as a dict lookup, rows exchanged", "break", _R,
      "        elif treat_increase_as_improvement:\n            color_greater = console.format.green\n            color_smaller = console.format.red\n            color_neutral = console.format.neutral\n"
      "        else:\n            color_greater = console.format.red\n            color_smaller = console.format.green\n            color_neutral = console.format.neutral\n",
      "        else:\n            color_greater, color_smaller = {False: (console.format.green, console.format.red), True: (console.format.red, console.format.green)}[bool(treat_increase_as_improvement)]\n"
      "            color_neutral = console.format.neutral\n", "O20.3"),
    V("h2 the plain flag read outside the difference cell (task cell emphasised on the console only)", "break", _R, "                str(task),\n                formatter(baseline),",
      "                str(task) if self.plain else console.format.bold(str(task)),\n                formatter(baseline),", "O20.4"),
    # b3: hoisted lookups
    V("h2 b3 shape: throughput record of each race looked up once", "keep", _R, _THR_OLD, _hoisted()),
    V("h2 b3 shape, defect behind the hoisted local: contender median selects max", "break", _R, _THR_OLD, _hoisted(c_median='contender_throughput["max"]'), "O20.2"),
    V("h2 b3 shape, defect behind the hoisted local: optional mean by subscript", "break", _R, _THR_OLD, _hoisted(b_mean='baseline_throughput["mean"]'), "O20.5"),
    # task intersection as a filtering comprehension over a hoisted task list
    V("h2 common tasks by a filtering comprehension", "keep", _R, _TASK_LOOP, _filtered_loop()),
    V("h2 common tasks by a filtering comprehension: keeps the tasks missing in the contender", "break", _R, _TASK_LOOP, _filtered_loop("t not in contender_tasks"), "O20.5"),
    V("h2 common tasks by a filtering comprehension: membership in the same race", "break", _R, _TASK_LOOP, _filtered_loop("t in baseline_stats.tasks()"), "O20.5"),
    # _line built in parts (guard clause, operands tuple, star call, row assembled incrementally)
    V("h2 _line: guard clause, operands tuple passed with *, row assembled in parts", "keep", _R, _ROW_OLD, _row_by_parts()),
    V("h2 _line in parts: operands tuple in the wrong order", "break", _R, _ROW_OLD, _row_by_parts(operands="contender, baseline"), "O20.3"),
    V("h2 _line in parts: truthiness guard clause", "break", _R, _ROW_OLD, _row_by_parts(guard="not baseline or not contender"), "O20.5"),
    # direction flag through a local
    [V("h2 direction flag of the throughput lines through a local", "keep", _R, _THR_FLAG, "task, b_unit, treat_increase_as_improvement=higher_is_better", count=4),
     V("", "keep", _R, _THR_JOIN, "        higher_is_better = True\n" + _THR_JOIN)],
    [V("h2 direction flag of the throughput lines through a local holding the wrong value", "break", _R, _THR_FLAG, "task, b_unit, treat_increase_as_improvement=higher_is_better", "O20.1", count=4),
     V("", "break", _R, _THR_JOIN, "        higher_is_better = False\n" + _THR_JOIN)],
    # writer: rendered text kept in a local
    V("h2 writer renders into a local first", "keep", _R, _CONSOLE, "    rendered_for_console = formatter(headers, data_rich)\n    print_internal(rendered_for_console)\n"),
    V("h2 writer renders into a local first: the plain table goes to the console", "break", _R, _CONSOLE, "    rendered_for_console = formatter(headers, data_plain)\n    print_internal(rendered_for_console)\n", "O20.4"),
    # optional list statistics guarded positively instead of by an early return
    V("h2 nullable list statistics: defaulted iteration instead of relying on the early return", "keep", _R,
      "        for baseline in baseline_stats.total_transform_processing_times:", "        for baseline in baseline_stats.total_transform_processing_times or []:"),
]


# the throughput record looked up by an extracted helper method (the most common refactoring): roles, selections and optional reads are followed through the helper
_REC_RE = r'(baseline|contender)_stats\.metrics\(task\)\["throughput"\]'
_REC_NEW = r"self._throughput_of(\1_stats, task)"
_REC_DEF = "    def _report_throughput(self, baseline_stats, contender_stats, task):\n"
_REC_HELPER = '    def _throughput_of(self, stats, task):\n        return stats.metrics(task)["throughput"]\n\n' + _REC_DEF


def _via_helper(name, kind, old=None, new=None, rule=None):
    head = [V(name, kind, _R, _REC_RE, _REC_NEW, rule, count=9, regex=True), V("", kind, _R, _REC_DEF, _REC_HELPER)]
    return head + ([V("", kind, _R, old, new)] if old else [])


VARIANTS += [
    _via_helper("h2 throughput record by an extracted helper method", "keep"),
    _via_helper("h2 helper shape: contender median selects max", "break", 'c_median = self._throughput_of(contender_stats, task)["median"]', 'c_median = self._throughput_of(contender_stats, task)["max"]', "O20.2"),
    _via_helper("h2 helper shape: contender median read from the baseline race", "break", 'c_median = self._throughput_of(contender_stats, task)["median"]',
                'c_median = self._throughput_of(baseline_stats, task)["median"]', "O20.2"),
    _via_helper("h2 helper shape: optional mean by subscript on the helper's record", "break", 'b_mean = self._throughput_of(baseline_stats, task).get("mean")',
                'b_mean = self._throughput_of(baseline_stats, task)["mean"]', "O20.5"),
]


# a sequence of line constructions turned into a loop over a literal table: one line per row
_SEG_RE = r"    def _report_segment_memory\(self, baseline_stats, contender_stats\):\n.*?(?=    def _report_segment_counts)"


def _seg_table(flag="False", swap=False):
    ops = ("getattr(contender_stats, attribute),\n                getattr(baseline_stats, attribute),\n" if swap else "getattr(baseline_stats, attribute),\n                getattr(contender_stats, attribute),\n")
    return (
        "    def _report_segment_memory(self, baseline_stats, contender_stats):\n        lines = []\n        for label, attribute in (\n"
        '            ("Heap used for segments", "memory_segments"),\n            ("Heap used for doc values", "memory_doc_values"),\n            ("Heap used for terms", "memory_terms"),\n'
        '            ("Heap used for norms", "memory_norms"),\n            ("Heap used for points", "memory_points"),\n            ("Heap used for stored fields", "memory_stored_fields"),\n        ):\n'
        "            line = self._line(\n                label,\n                " + ops + '                "",\n                "MB",\n'
        "                treat_increase_as_improvement=" + flag + ",\n                formatter=convert.bytes_to_mb,\n            )\n            self._append_non_empty(lines, line)\n        return lines\n\n"
    )


VARIANTS += [
    V("h2 segment memory lines from a literal table", "keep", _R, _SEG_RE, _seg_table(), regex=True),
    V("h2 segment memory lines from a literal table: direction flag inverted", "break", _R, _SEG_RE, _seg_table(flag="True"), "O20.1", regex=True),
    V("h2 segment memory lines from a literal table: operands exchanged", "break", _R, _SEG_RE, _seg_table(swap=True), "O20.2", regex=True),
]


# ---- hardening round 3: a construct inside an extracted helper stands for one instance per call of the helper, one inside a loop / comprehension over a literal table for one per
# row; calls through a table of bound methods; pairs unpacked from a generator / a helper; the writer by role. Each shape as `keep`, the defect INSIDE the shape as `break` ----
_TRANS_RE = r"    def _report_transform_processing_times\(self, baseline_stats, contender_stats\):\n.*?(?=    def _report_ingest_pipeline_counts)"
_TRANS_GUARD = "        if baseline_stats.total_transform_processing_times is None or contender_stats.total_transform_processing_times is None:\n            return lines\n"


def _transform_helper(search_flag="False", index_args="baseline_stats.total_transform_index_times,\n                contender_stats.total_transform_index_times", guard=_TRANS_GUARD, id_member="id"):
    """the b5 shape: the four copies of the pairing loop extracted into one helper that iterates its parameters"""
    def call(label, attr, flag, args=None):
        args = args or f"baseline_stats.{attr},\n                contender_stats.{attr}"
        return f'        lines.extend(\n            self._report_transform_metric(\n                "{label}",\n                {args},\n                treat_increase_as_improvement={flag},\n            )\n        )\n'

    return (
        "    def _report_transform_processing_times(self, baseline_stats, contender_stats):\n        lines = []\n" + guard +
        call("Transform processing time", "total_transform_processing_times", "False") + call("Transform indexing time", "total_transform_index_times", "False", index_args) +
        call("Transform search time", "total_transform_search_times", search_flag) + call("Transform throughput", "total_transform_throughput", "True") +
        "        return lines\n\n"
        "    def _report_transform_metric(self, name, baseline_transforms, contender_transforms, treat_increase_as_improvement):\n        lines = []\n"
        "        for baseline in baseline_transforms:\n            transform_id = baseline[\"" + id_member + "\"]\n            for contender in contender_transforms:\n"
        "                if contender[\"id\"] == transform_id:\n                    lines.append(\n                        self._line(\n                            name,\n"
        "                            baseline[\"mean\"],\n                            contender[\"mean\"],\n                            transform_id,\n                            baseline[\"unit\"],\n"
        "                            treat_increase_as_improvement=treat_increase_as_improvement,\n                        )\n                    )\n        return lines\n\n"
    )


def _transform_table(thr_flag="True", guard=_TRANS_GUARD, helper=True, contender_attr="attribute"):
    """the transform lines driven by a literal table (label, attribute, direction), the lists read with getattr; with or without the extracted helper"""
    head = (
        "    def _report_transform_processing_times(self, baseline_stats, contender_stats):\n        lines = []\n" + guard +
        "        for label, attribute, higher_is_better in (\n"
        '            ("Transform processing time", "total_transform_processing_times", False),\n            ("Transform indexing time", "total_transform_index_times", False),\n'
        '            ("Transform search time", "total_transform_search_times", False),\n            ("Transform throughput", "total_transform_throughput", ' + thr_flag + "),\n        ):\n"
    )
    loop = (
        "{i}for baseline in {b}:\n{i}    transform_id = baseline[\"id\"]\n{i}    for contender in {c}:\n{i}        if contender[\"id\"] == transform_id:\n"
        "{i}            lines.append(self._line(label, baseline[\"mean\"], contender[\"mean\"], transform_id, baseline[\"unit\"], treat_increase_as_improvement=higher_is_better))\n"
    )
    if not helper:
        return head + loop.format(i=" " * 12, b="getattr(baseline_stats, attribute)", c=f"getattr(contender_stats, {contender_attr})") + "        return lines\n\n"
    return (
        head + f"            lines.extend(self._transform_lines(label, getattr(baseline_stats, attribute), getattr(contender_stats, {contender_attr}), higher_is_better))\n        return lines\n\n"
        "    def _transform_lines(self, label, baseline_transforms, contender_transforms, higher_is_better):\n        lines = []\n" +
        loop.format(i=" " * 8, b="baseline_transforms", c="contender_transforms") + "        return lines\n\n"
    )


_ML_RE = r"    def _report_ml_processing_times\(self, baseline_stats, contender_stats\):\n.*?(?=    def _report_transform_processing_times)"


def _ml_table(flag="False", ops="baseline[stat],\n                            contender[stat]", shape="generator", key="job"):
    """the b8 shape: the four ML lines from a generator over a literal (label, key) table; or the contender looked up through a filtering generator / an index"""
    lines = (
        '{i}lines.extend(\n{i}    self._line(\n{i}        f"{{label}} ML processing time",\n{i}        ' + ops.replace("\n                            ", "\n{i}        ") + ",\n{i}        job_name,\n{i}        unit,\n"
        "{i}        treat_increase_as_improvement=" + flag + ",\n{i}    )\n"
        '{i}    for label, stat in (("Min", "min"), ("Mean", "mean"), ("Median", "median"), ("Max", "max"))\n{i})\n'
    )
    head = "    def _report_ml_processing_times(self, baseline_stats, contender_stats):\n        lines = []\n"
    if shape == "generator":
        return (head + '        for baseline in baseline_stats.ml_processing_time:\n            job_name = baseline["job"]\n            unit = baseline["unit"]\n'
                '            for contender in contender_stats.ml_processing_time:\n                if contender["job"] == job_name:\n' + lines.format(i=" " * 20) + "        return lines\n\n")
    if shape == "filter":
        return (head + '        for baseline in baseline_stats.ml_processing_time:\n            job_name = baseline["job"]\n            unit = baseline["unit"]\n'
                '            for contender in (c for c in contender_stats.ml_processing_time if c["' + key + '"] == job_name):\n' + lines.format(i=" " * 16) + "        return lines\n\n")
    return (head + '        contender_by_job = {contender["' + key + '"]: contender for contender in contender_stats.ml_processing_time}\n'
            '        for baseline in baseline_stats.ml_processing_time:\n            job_name = baseline["job"]\n            contender = contender_by_job.get(job_name)\n'
            "            if contender is None:\n                continue\n            unit = baseline[\"unit\"]\n" + lines.format(i=" " * 12) + "        return lines\n\n")


_SECTIONS_OLD = "".join(f"        metrics_table.extend(self.{m}(baseline_stats, contender_stats))\n" for m in (
    "_report_total_times", "_report_ml_processing_times", "_report_gc_metrics", "_report_disk_usage", "_report_segment_memory", "_report_segment_counts",
    "_report_transform_processing_times", "_report_ingest_pipeline_counts", "_report_ingest_pipeline_times", "_report_ingest_pipeline_failed"))


def _sections_table(args="baseline_stats, contender_stats"):
    return ("        for section in (\n" + "".join(f"            self.{m},\n" for m in (
        "_report_total_times", "_report_ml_processing_times", "_report_gc_metrics", "_report_disk_usage", "_report_segment_memory", "_report_segment_counts",
        "_report_transform_processing_times", "_report_ingest_pipeline_counts", "_report_ingest_pipeline_times", "_report_ingest_pipeline_failed")) +
        f"        ):\n            metrics_table.extend(section({args}))\n")


_THR_RE = r"    def _report_throughput\(self, baseline_stats, contender_stats, task\):\n.*?(?=    def _report_latency)"


def _thr_generator(read="baseline_throughput.get(stat)", flag="True"):
    return (
        "    def _report_throughput(self, baseline_stats, contender_stats, task):\n"
        '        baseline_throughput = baseline_stats.metrics(task)["throughput"]\n        contender_throughput = contender_stats.metrics(task)["throughput"]\n'
        "        return self._join(\n            *(\n                self._line(\n                    f\"{label} Throughput\",\n                    " + read + ",\n"
        "                    contender_throughput.get(stat),\n                    task,\n                    baseline_throughput[\"unit\"],\n                    treat_increase_as_improvement=" + flag + ",\n"
        '                )\n                for label, stat in (("Min", "min"), ("Mean", "mean"), ("Median", "median"), ("Max", "max"))\n            )\n        )\n\n'
    )


_THR_LINES = (
    '        return self._join(\n            self._line("Min Throughput", b_min, c_min, task, b_unit, treat_increase_as_improvement=True),\n'
    '            self._line("Mean Throughput", b_mean, c_mean, task, b_unit, treat_increase_as_improvement=True),\n'
    '            self._line("Median Throughput", b_median, c_median, task, b_unit, treat_increase_as_improvement=True),\n'
    '            self._line("Max Throughput", b_max, c_max, task, b_unit, treat_increase_as_improvement=True),\n        )'
)


def _thr_nested(inner="baseline_value, contender_value", median="b_median, c_median"):
    return (
        "        def throughput_line(label, baseline_value, contender_value):\n            return self._line(label, " + inner + ", task, b_unit, treat_increase_as_improvement=True)\n\n"
        '        return self._join(\n            throughput_line("Min Throughput", b_min, c_min),\n            throughput_line("Mean Throughput", b_mean, c_mean),\n'
        '            throughput_line("Median Throughput", ' + median + '),\n            throughput_line("Max Throughput", b_max, c_max),\n        )'
    )


_ING_RE = r"    def _report_ingest_pipeline_counts\(self, baseline_stats, contender_stats\):\n.*?(?=    def _report_disk_usage_stats_per_field)"


def _ingest_helper(guard="baseline_value is None"):
    def m(name, label, attr, unit):
        return (f"    def {name}(self, baseline_stats, contender_stats):\n        return self._ingest_pipeline_line(\n"
                f'            "{label}", baseline_stats.{attr}, contender_stats.{attr}, "{unit}"\n        )\n\n')

    return (m("_report_ingest_pipeline_counts", "Total Ingest Pipeline count", "ingest_pipeline_cluster_count", "") + m("_report_ingest_pipeline_times", "Total Ingest Pipeline time", "ingest_pipeline_cluster_time", "ms") +
            m("_report_ingest_pipeline_failed", "Total Ingest Pipeline failed", "ingest_pipeline_cluster_failed", "") +
            "    def _ingest_pipeline_line(self, name, baseline_value, contender_value, unit):\n        if " + guard + ":\n            return []\n"
            '        return self._join(self._line(name, baseline_value, contender_value, "", unit, treat_increase_as_improvement=False))\n\n')


_TT_RE = r"    def _report_total_times\(self, baseline_stats, contender_stats\):\n.*?(?=    def _report_total_time\()"
_TT_TABLE = (
    "    def _report_total_times(self, baseline_stats, contender_stats):\n        lines = []\n        for name, attribute, count_attribute in (\n"
    '            ("indexing", "total_time", None),\n            ("indexing throttle", "indexing_throttle_time", None),\n            ("merge", "merge_time", "merge_count"),\n'
    '            ("merge throttle", "merge_throttle_time", None),\n            ("refresh", "refresh_time", "refresh_count"),\n            ("flush", "flush_time", "flush_count"),\n        ):\n'
    '            lines.extend(self._report_total_time(f"{name} time", getattr(baseline_stats, attribute), getattr(contender_stats, attribute)))\n'
    "            if count_attribute:\n"
    '                lines.extend(self._report_total_count(f"{name} count", getattr(baseline_stats, count_attribute), getattr(contender_stats, count_attribute)))\n'
    "            lines.extend(\n                self._report_total_time_per_shard(\n"
    '                    f"{name} time", getattr(baseline_stats, f"{attribute}_per_shard"), getattr(contender_stats, f"{attribute}_per_shard")\n                )\n            )\n        return lines\n\n'
)

_WRITE_FILE_OLD = (
    "    if len(report_file) > 0:\n        normalized_report_file = rio.normalize_path(report_file, cwd)\n        # ensure that the parent folder already exists when we try to write the file...\n"
    "        rio.ensure_dir(rio.dirname(normalized_report_file))\n        with open(normalized_report_file, mode=\"a+\", encoding=\"utf-8\") as f:\n            f.writelines(formatter(headers, data_plain))\n"
)


def _write_file_helper(data="data_plain"):
    return (
        "    if len(report_file) > 0:\n        _append_to_report_file(report_file, cwd, formatter(headers, " + data + "))\n\n\n"
        "def _append_to_report_file(report_file, cwd, content):\n    normalized_report_file = rio.normalize_path(report_file, cwd)\n"
        "    rio.ensure_dir(rio.dirname(normalized_report_file))\n    with open(normalized_report_file, mode=\"a+\", encoding=\"utf-8\") as f:\n        f.writelines(content)\n"
    )


_REPORT_TABLES = (
    "        metric_table_plain = self._metrics_table(baseline_stats, contender_stats, plain=True)\n        metric_table_rich = self._metrics_table(baseline_stats, contender_stats, plain=False)\n"
    "        # Writes metric_table_rich to console, writes metric_table_plain to file\n        self._write_report(metric_table_plain, metric_table_rich)\n"
)
_TASK_TAIL = _TASK_LOOP + "        return metrics_table\n"


def _task_helper(head):
    return (
        head + "        return metrics_table\n\n    def _report_task(self, baseline_stats, contender_stats, task):\n        lines = []\n"
        "        lines.extend(self._report_throughput(baseline_stats, contender_stats, task))\n        lines.extend(self._report_latency(baseline_stats, contender_stats, task))\n"
        "        lines.extend(self._report_service_time(baseline_stats, contender_stats, task))\n        if self.show_processing_time:\n"
        "            lines.extend(self._report_processing_time(baseline_stats, contender_stats, task))\n        lines.extend(self._report_error_rate(baseline_stats, contender_stats, task))\n        return lines\n"
    )


def _task_generator(cond="if t in contender_tasks "):
    return _task_helper("        contender_tasks = contender_stats.tasks()\n        metrics_table.extend(\n"
                        "            line for t in baseline_stats.tasks() " + cond + "for line in self._report_task(baseline_stats, contender_stats, t)\n        )\n")


def _task_continue(test="t not in contender_stats.tasks()"):
    return _task_helper("        for t in baseline_stats.tasks():\n            if " + test + ":\n                continue\n            metrics_table += self._report_task(baseline_stats, contender_stats, t)\n")


def _row_loop(order="cells[0], unit, cells[1]"):
    return (
        "        if None in (baseline, contender):\n            return []\n        cells = []\n        for relative in (False, True):\n"
        "            cells.append(self._diff(baseline, contender, treat_increase_as_improvement, formatter, as_percentage=relative))\n"
        "        return [metric, str(task), formatter(baseline), formatter(contender), " + order + "]\n"
    )


def _row_appended(guard="baseline is None or contender is None"):
    return (
        "        if " + guard + ":\n            return []\n        row = [metric, str(task), formatter(baseline), formatter(contender)]\n"
        "        row.append(self._diff(baseline, contender, treat_increase_as_improvement, formatter))\n        row.append(unit)\n"
        "        row.append(self._diff(baseline, contender, treat_increase_as_improvement, formatter, as_percentage=True))\n        return row\n"
    )


def _row_with_try(guard="None in (baseline, contender)"):
    return (
        "        if " + guard + ":\n            return []\n        try:\n            absolute = self._diff(baseline, contender, treat_increase_as_improvement, formatter)\n"
        "        finally:\n            self.logger.debug(\"compared %s\", metric)\n"
        "        return [\n            metric,\n            str(task),\n            formatter(baseline),\n            formatter(contender),\n            absolute,\n            unit,\n"
        "            self._diff(baseline, contender, treat_increase_as_improvement, formatter, as_percentage=True),\n        ]\n"
    )


_LAT_OLD = '        baseline_latency = baseline_stats.metrics(task)["latency"]\n        contender_latency = contender_stats.metrics(task)["latency"]\n'
_SVC_DEF = "    def _report_service_time(self, baseline_stats, contender_stats, task):\n"
_PT_OLD = ('        baseline_processing_time = baseline_stats.metrics(task).get("processing_time") or {}\n'
           '        contender_processing_time = contender_stats.metrics(task).get("processing_time") or {}\n')


def _pt_pair(read='stats.metrics(task).get("processing_time") or {}'):
    return "        baseline_processing_time, contender_processing_time = (\n            " + read + " for stats in (baseline_stats, contender_stats)\n        )\n"


VARIANTS += [
    # b5: the pairing loop in a helper that iterates its parameters; label, lists and direction flag arrive as arguments
    V("h3 b5 shape: transform lines through a helper that iterates its parameters", "keep", _R, _TRANS_RE, _transform_helper(), regex=True),
    V("h3 b5 shape: the helper is called with increase-is-improvement for the search time", "break", _R, _TRANS_RE, _transform_helper(search_flag="True"), "O20.1", regex=True),
    V("h3 b5 shape: the helper is handed the contender's list first", "break", _R, _TRANS_RE,
      _transform_helper(index_args="contender_stats.total_transform_index_times,\n                baseline_stats.total_transform_index_times"), "O20.2", regex=True),
    V("h3 b5 shape: the helper is handed two different statistics", "break", _R, _TRANS_RE,
      _transform_helper(index_args="baseline_stats.total_transform_index_times,\n                contender_stats.total_transform_search_times"), "O20.2", regex=True),
    V("h3 b5 shape: the caller's None guard covers the baseline only", "break", _R, _TRANS_RE,
      _transform_helper(guard="        if baseline_stats.total_transform_processing_times is None:\n            return lines\n"), "O20.5", regex=True),
    V("h3 b5 shape: the helper pairs by different members", "break", _R, _TRANS_RE, _transform_helper(id_member="unit"), "O20.2", regex=True),
    # the same lines driven by a literal table, the lists read with getattr
    V("h3 transform lines from a literal table + getattr + helper", "keep", _R, _TRANS_RE, _transform_table(), regex=True),
    V("h3 transform lines from a literal table, no helper", "keep", _R, _TRANS_RE, _transform_table(helper=False), regex=True),
    V("h3 transform table: direction of the throughput row inverted", "break", _R, _TRANS_RE, _transform_table(thr_flag="False"), "O20.1", regex=True),
    V("h3 transform table: contender list is always the search times", "break", _R, _TRANS_RE, _transform_table(contender_attr='"total_transform_search_times"'), "O20.2", regex=True),
    V("h3 transform table, no helper: None guard covers the baseline only", "break", _R, _TRANS_RE,
      _transform_table(helper=False, guard="        if baseline_stats.total_transform_processing_times is None:\n            return lines\n"), "O20.5", regex=True),
    # b8: lines from a generator over a literal (label, key) table
    V("h3 b8 shape: ML lines from a generator over a literal table", "keep", _R, _ML_RE, _ml_table(), regex=True),
    V("h3 b8 shape: direction flag of the generated ML lines inverted", "break", _R, _ML_RE, _ml_table(flag="True"), "O20.1", regex=True),
    V("h3 b8 shape: operands of the generated ML lines exchanged", "break", _R, _ML_RE, _ml_table(ops="contender[stat],\n                            baseline[stat]"), "O20.2", regex=True),
    V("h3 ML contender found by a filtering generator", "keep", _R, _ML_RE, _ml_table(shape="filter"), regex=True),
    V("h3 ML contender found by a filtering generator on another member", "break", _R, _ML_RE, _ml_table(shape="filter", key="unit"), "O20.2", regex=True),
    V("h3 ML contender found through an index by job", "keep", _R, _ML_RE, _ml_table(shape="index"), regex=True),
    V("h3 ML contender found through an index built on another member", "break", _R, _ML_RE, _ml_table(shape="index", key="unit"), "O20.2", regex=True),
    # calls through a literal table of bound methods
    V("h3 sections of the table called through a tuple of bound methods", "keep", _R, _SECTIONS_OLD, _sections_table()),
    V("h3 sections through a tuple of bound methods: races exchanged at the call", "break", _R, _SECTIONS_OLD, _sections_table("contender_stats, baseline_stats"), "O20.2"),
    # throughput lines from a generator; optional member read with the loop variable as key
    V("h3 throughput lines from a generator over (label, key)", "keep", _R, _THR_RE, _thr_generator(), regex=True),
    V("h3 throughput generator: baseline member read by subscript", "break", _R, _THR_RE, _thr_generator(read="baseline_throughput[stat]"), "O20.5", regex=True),
    V("h3 throughput generator: direction flag inverted", "break", _R, _THR_RE, _thr_generator(flag="False"), "O20.1", regex=True),
    # a nested helper with parameters
    V("h3 throughput lines through a nested helper with parameters", "keep", _R, _THR_LINES, _thr_nested()),
    V("h3 nested helper passes its parameters in the wrong order", "break", _R, _THR_LINES, _thr_nested(inner="contender_value, baseline_value"), "O20.2"),
    V("h3 nested helper called with the operands exchanged", "break", _R, _THR_LINES, _thr_nested(median="c_median, b_median"), "O20.2"),
    # scalar lines through one helper that guards its parameter
    V("h3 ingest pipeline lines through one helper with a None guard on its parameter", "keep", _R, _ING_RE, _ingest_helper(), regex=True),
    V("h3 ingest pipeline helper guards its parameter by truthiness", "break", _R, _ING_RE, _ingest_helper(guard="not baseline_value"), "O20.5", regex=True),
    V("h3 total times driven by a literal table (getattr, optional count column)", "keep", _R, _TT_RE, _TT_TABLE, regex=True),
    # the writer by role
    V("h3 writer: the file is written by an extracted module-level helper", "keep", _R, _WRITE_FILE_OLD, _write_file_helper()),
    V("h3 writer: the extracted file helper is handed the rich rendering", "break", _R, _WRITE_FILE_OLD, _write_file_helper("data_rich"), "O20.4"),
    [V("h3 writer: formatter called with keywords", "keep", _R, "    print_internal(formatter(headers, data_rich))\n", "    print_internal(formatter(headers=headers, data=data_rich))\n"),
     V("", "keep", _R, "            f.writelines(formatter(headers, data_plain))\n", "            f.writelines(formatter(headers=headers, data=data_plain))\n")],
    [V("h3 writer: formatter called with keywords, console gets the plain table", "break", _R, "    print_internal(formatter(headers, data_rich))\n", "    print_internal(formatter(headers=headers, data=data_plain))\n", "O20.4"),
     V("", "break", _R, "            f.writelines(formatter(headers, data_plain))\n", "            f.writelines(formatter(headers=headers, data=data_plain))\n")],
    [V("h3 writer: data parameters renamed consistently", "keep", _R, "data_plain", "rows_for_file", count=4), V("", "keep", _R, "data_rich", "rows_for_console", count=4)],
    [V("h3 writer: data parameters renamed, tables exchanged at _write_report", "break", _R, "data_plain", "rows_for_file", "O20.4", count=4), V("", "break", _R, "data_rich", "rows_for_console", count=4),
     V("", "break", _R, "            rows_for_file=metrics_table,\n            rows_for_console=metrics_table_console,", "            rows_for_file=metrics_table_console,\n            rows_for_console=metrics_table,")],
    # the two tables built in a comprehension over the flags
    V("h3 report(): both tables from a dict comprehension over the flags", "keep", _R, _REPORT_TABLES,
      "        tables = {plain: self._metrics_table(baseline_stats, contender_stats, plain=plain) for plain in (True, False)}\n        self._write_report(tables[True], tables[False])\n"),
    V("h3 report(): tables from a dict comprehension, subscripts exchanged", "break", _R, _REPORT_TABLES,
      "        tables = {plain: self._metrics_table(baseline_stats, contender_stats, plain=plain) for plain in (True, False)}\n        self._write_report(tables[False], tables[True])\n", "O20.4"),
    V("h3 report(): tables unpacked from a generator over the flags", "keep", _R, _REPORT_TABLES,
      "        metric_table_plain, metric_table_rich = (self._metrics_table(baseline_stats, contender_stats, plain=flag) for flag in (True, False))\n        self._write_report(metric_table_plain, metric_table_rich)\n"),
    V("h3 report(): tables unpacked from a generator over the flags in the wrong order", "break", _R, _REPORT_TABLES,
      "        metric_table_plain, metric_table_rich = (self._metrics_table(baseline_stats, contender_stats, plain=flag) for flag in (False, True))\n        self._write_report(metric_table_plain, metric_table_rich)\n", "O20.4"),
    # per-task lines from a generator expression / a guard clause with an extracted per-task helper
    V("h3 per-task lines from a generator expression with the membership test as its condition", "keep", _R, _TASK_TAIL, _task_generator()),
    V("h3 per-task generator keeps the tasks missing in the contender", "break", _R, _TASK_TAIL, _task_generator("if t not in contender_tasks "), "O20.5"),
    V("h3 per-task generator without membership test", "break", _R, _TASK_TAIL, _task_generator(""), "O20.5"),
    V("h3 per-task helper behind a guard clause", "keep", _R, _TASK_TAIL, _task_continue()),
    V("h3 per-task helper behind a guard clause of the wrong polarity", "break", _R, _TASK_TAIL, _task_continue("t in contender_stats.tasks()"), "O20.5"),
    # _line built by statements the interpreter now follows (loop + append), or cannot follow (try): decided on values either way
    V("h3 _line: difference cells collected in a loop over (False, True)", "keep", _R, _ROW_OLD, _row_loop()),
    V("h3 _line: cells collected in a loop, relative and absolute cell exchanged", "break", _R, _ROW_OLD, _row_loop("cells[1], unit, cells[0]"), "O20.3"),
    V("h3 _line: row appended cell by cell", "keep", _R, _ROW_OLD, _row_appended()),
    V("h3 _line: row appended cell by cell behind a truthiness guard", "break", _R, _ROW_OLD, _row_appended("not (baseline and contender)"), "O20.5"),
    V("h3 _line with a try statement (not interpretable as a whole): `None in (...)` guard", "keep", _R, _ROW_OLD, _row_with_try()),
    V("h3 _line with a try statement: truthiness guard", "break", _R, _ROW_OLD, _row_with_try("not baseline or not contender"), "O20.5"),
    # pairs unpacked from a generator over (baseline, contender) / from a helper that returns a pair
    V("h3 latency records unpacked from a generator over both races", "keep", _R, _LAT_OLD,
      '        baseline_latency, contender_latency = (stats.metrics(task)["latency"] for stats in (baseline_stats, contender_stats))\n'),
    V("h3 latency records unpacked from a generator over (contender, baseline)", "break", _R, _LAT_OLD,
      '        baseline_latency, contender_latency = (stats.metrics(task)["latency"] for stats in (contender_stats, baseline_stats))\n', "O20.2"),
    [V("h3 latency records from a helper that returns a pair", "keep", _R, _LAT_OLD, '        baseline_latency, contender_latency = self._both(baseline_stats, contender_stats, task, "latency")\n'),
     V("", "keep", _R, _SVC_DEF, "    def _both(self, baseline_stats, contender_stats, task, key):\n        return baseline_stats.metrics(task)[key], contender_stats.metrics(task)[key]\n\n" + _SVC_DEF)],
    [V("h3 latency records from a helper that returns the pair in the wrong order", "break", _R, _LAT_OLD, '        baseline_latency, contender_latency = self._both(baseline_stats, contender_stats, task, "latency")\n', "O20.2"),
     V("", "break", _R, _SVC_DEF, "    def _both(self, baseline_stats, contender_stats, task, key):\n        return contender_stats.metrics(task)[key], baseline_stats.metrics(task)[key]\n\n" + _SVC_DEF)],
    V("h3 optional processing time of both races read in one generator", "keep", _R, _PT_OLD, _pt_pair()),
    V("h3 optional processing time of both races read by subscript in one generator", "break", _R, _PT_OLD, _pt_pair('stats.metrics(task)["processing_time"]'), "O20.5"),
]

_MT_HEAD = "    def _metrics_table(self, baseline_stats, contender_stats, plain):\n        self.plain = plain\n"
_MT_FIRST = "        self.plain = plain\n        metrics_table = []\n        metrics_table.extend(self._report_total_times(baseline_stats, contender_stats))\n"
_PER_TASK_HEAD = "        for t in baseline_stats.tasks():\n            if t in contender_stats.tasks():\n                metrics_table.extend(self._report_throughput"

VARIANTS += [
    # additive log lines read the flag / one race only: no selection of a compared value, no effect on the report
    V("h3 debug log line in _metrics_table mentions the flag and the baseline's task count", "keep", _R, _MT_HEAD,
      _MT_HEAD + '        self.logger.debug("Comparing [%d] baseline tasks (plain=%s).", len(baseline_stats.tasks()), self.plain)\n'),
    # list-valued statistics guarded by truthiness (None and empty both yield no line)
    V("h3 nullable list statistics guarded by truthiness", "keep", _R, _TRANS_GUARD,
      "        if not baseline_stats.total_transform_processing_times or not contender_stats.total_transform_processing_times:\n            return lines\n"),
    V("h3 nullable list statistics: truthiness guard on the baseline only", "break", _R, _TRANS_GUARD, "        if not baseline_stats.total_transform_processing_times:\n            return lines\n", "O20.5"),
    # the flag assignment by control flow
    V("h3 the flag is assigned after logging and list creation, through bool()", "keep", _R, "        self.plain = plain\n        metrics_table = []\n",
      '        metrics_table = []\n        self.logger.debug("Building the comparison table.")\n        self.plain = bool(plain)\n'),
    V("h3 the flag is assigned after the first section was built", "break", _R, _MT_FIRST,
      "        metrics_table = []\n        metrics_table.extend(self._report_total_times(baseline_stats, contender_stats))\n        self.plain = plain\n", "O20.4"),
    V("h3 the flag is reset before the per-task lines", "break", _R, _PER_TASK_HEAD, "        self.plain = False\n" + _PER_TASK_HEAD, "O20.4"),
]

_BOTH_ZERO = "                    if baseline_value == 0 and contender_value == 0:\n                        continue\n"
_STATS_OLD = "        baseline_stats = metrics.GlobalStats(r1.results)\n        contender_stats = metrics.GlobalStats(r2.results)\n"
_HDR_RE = r'        print_internal\(""\)\n        print_internal\("Comparing baseline"\)\n.*?        print_header\(FINAL_SCORE\)\n'
_MT_DEF = "    def _metrics_table(self, baseline_stats, contender_stats, plain):\n"


def _common_tasks(cond="t in contender_tasks"):
    return (
        "        for t in self._common_tasks(baseline_stats, contender_stats):\n"
        "            metrics_table.extend(self._report_throughput(baseline_stats, contender_stats, t))\n            metrics_table.extend(self._report_latency(baseline_stats, contender_stats, t))\n"
        "            metrics_table.extend(self._report_service_time(baseline_stats, contender_stats, t))\n            if self.show_processing_time:\n"
        "                metrics_table.extend(self._report_processing_time(baseline_stats, contender_stats, t))\n            metrics_table.extend(self._report_error_rate(baseline_stats, contender_stats, t))\n"
        "        return metrics_table\n\n    def _common_tasks(self, baseline_stats, contender_stats):\n        contender_tasks = contender_stats.tasks()\n"
        "        return [t for t in baseline_stats.tasks() if " + cond + "]\n"
    )


VARIANTS += [
    # tests on compared values are decided on values (operand 0 vs 5): skipping a line whose values are BOTH zero is the existing behaviour, whatever the spelling
    V("h3 both-zero disk usage lines skipped by truthiness of both values", "keep", _R, _BOTH_ZERO, "                    if not baseline_value and not contender_value:\n                        continue\n"),
    V("h3 both-zero disk usage lines skipped by a chained comparison", "keep", _R, _BOTH_ZERO, "                    if baseline_value == contender_value == 0:\n                        continue\n"),
    V("h3 disk usage lines skipped when EITHER value is zero", "break", _R, _BOTH_ZERO, "                    if not baseline_value or not contender_value:\n                        continue\n", "O20.5"),
    V("h3 scalar guard `is None or <= 0`", "break", _R, "        if baseline_stats.ingest_pipeline_cluster_failed is None:",
      "        if baseline_stats.ingest_pipeline_cluster_failed is None or baseline_stats.ingest_pipeline_cluster_failed <= 0:", "O20.5"),
    # the task intersection computed by an extracted helper method
    V("h3 common tasks computed by an extracted helper method", "keep", _R, _TASK_TAIL, _common_tasks()),
    V("h3 common tasks helper keeps the tasks missing in the contender", "break", _R, _TASK_TAIL, _common_tasks("t not in contender_tasks"), "O20.5"),
    V("h3 common tasks helper tests membership in the same race", "break", _R, _TASK_TAIL, _common_tasks("t in baseline_stats.tasks()"), "O20.5"),
    V("h3 pairing id read with .get() and a default", "keep", _R, '            job_name = baseline["job"]\n', '            job_name = baseline.get("job", "")\n'),
    # report(): both statistics objects from one generator; the race headers through a helper
    V("h3 report(): statistics of both races unpacked from a generator over (r1, r2)", "keep", _R, _STATS_OLD, "        baseline_stats, contender_stats = (metrics.GlobalStats(race.results) for race in (r1, r2))\n"),
    V("h3 report(): statistics unpacked from a generator over (r2, r1)", "break", _R, _STATS_OLD, "        baseline_stats, contender_stats = (metrics.GlobalStats(race.results) for race in (r2, r1))\n", "O20.2"),
    [V("h3 report(): race headers printed by a helper called once per race", "keep", _R, _HDR_RE,
       '        print_internal("")\n        self._print_race("Comparing baseline", r1)\n        print_internal("")\n        self._print_race("with contender", r2)\n        print_header(FINAL_SCORE)\n', regex=True),
     V("", "keep", _R, _MT_DEF, '    def _print_race(self, title, race):\n        print_internal(title)\n        print_internal("  Race ID: %s" % race.race_id)\n'
       '        print_internal("  Race timestamp: %s" % race.race_timestamp)\n        if race.challenge_name:\n            print_internal("  Challenge: %s" % race.challenge_name)\n'
       '        print_internal("  Car: %s" % race.car_name)\n\n' + _MT_DEF)],
]

# ---- hardening round 4 (benign b9): the sections of the table as LISTS of bound methods that are grown in place (optional sections appended behind their condition) and walked by loops ----
_MT_BODY_RE = r"        metrics_table = \[\]\n        metrics_table\.extend\(self\._report_total_times\(.*?(?=        return metrics_table\n\n    def _write_report)"
_RACE_SECTIONS = ("_report_total_times", "_report_ml_processing_times", "_report_gc_metrics", "_report_disk_usage", "_report_segment_memory", "_report_segment_counts",
                  "_report_transform_processing_times", "_report_ingest_pipeline_counts", "_report_ingest_pipeline_times", "_report_ingest_pipeline_failed")


def _section_lists(race_args="baseline_stats, contender_stats", task_args="baseline_stats, contender_stats, t", member="t in contender_stats.tasks()", grow="append"):
    if grow == "append":
        tasks = ("        task_sections = [self._report_throughput, self._report_latency, self._report_service_time]\n        if self.show_processing_time:\n"
                 "            task_sections.append(self._report_processing_time)\n        task_sections.append(self._report_error_rate)\n")
    elif grow == "insert":
        tasks = ("        task_sections = [self._report_throughput, self._report_latency, self._report_service_time, self._report_error_rate]\n        if self.show_processing_time:\n"
                 "            task_sections.insert(3, self._report_processing_time)\n")
    else:
        tasks = ("        task_sections = []\n        task_sections.extend((self._report_throughput, self._report_latency, self._report_service_time))\n        if self.show_processing_time:\n"
                 "            task_sections += [self._report_processing_time]\n        task_sections.extend([self._report_error_rate])\n") if grow == "extend" else grow
    return ("        race_sections = [\n" + "".join(f"            self.{m},\n" for m in _RACE_SECTIONS) + "        ]\n"
            "        if baseline_stats.disk_usage_total and contender_stats.disk_usage_total:\n            race_sections.append(self._report_disk_usage_stats_per_field)\n\n" + tasks +
            "\n        metrics_table = []\n        for race_section in race_sections:\n            metrics_table.extend(race_section(" + race_args + "))\n\n"
            "        for t in baseline_stats.tasks():\n            if " + member + ":\n                for task_section in task_sections:\n"
            "                    metrics_table.extend(task_section(" + task_args + "))\n")


_SECTION_LOOP = "                for task_section in task_sections:\n                    metrics_table.extend(task_section(baseline_stats, contender_stats, t))\n"


def _section_comp(args="baseline_stats, contender_stats, t"):
    return "                metrics_table += [row for task_section in task_sections for row in task_section(" + args + ")]\n"


VARIANTS += [
    V("h4 sections as two lists of bound methods, optional sections appended behind their condition, walked by loops (benign b9)", "keep", _R, _MT_BODY_RE, _section_lists(), regex=True),
    V("h4 section lists: the optional per-task section inserted at its position", "keep", _R, _MT_BODY_RE, _section_lists(grow="insert"), regex=True),
    V("h4 section lists: built by extend() of displays and `+=` from an empty list", "keep", _R, _MT_BODY_RE, _section_lists(grow="extend"), regex=True),
    V("h4 section lists: the optional per-task section removed again when it is switched off", "keep", _R, _MT_BODY_RE, _section_lists(
        grow="        task_sections = [self._report_throughput, self._report_latency, self._report_service_time, self._report_processing_time, self._report_error_rate]\n"
             "        if not self.show_processing_time:\n            task_sections.remove(self._report_processing_time)\n"), regex=True),
    V("h4 section lists: races exchanged at the call of the per-task sections", "break", _R, _MT_BODY_RE, _section_lists(task_args="contender_stats, baseline_stats, t"), "O20.2", regex=True),
    V("h4 section lists: races exchanged at the call of the race sections (incl. the appended one)", "break", _R, _MT_BODY_RE, _section_lists(race_args="contender_stats, baseline_stats"), "O20.2", regex=True),
    V("h4 section lists: per-task sections for the tasks MISSING in the contender", "break", _R, _MT_BODY_RE, _section_lists(member="t not in contender_stats.tasks()"), "O20.5", regex=True),
    V("h4 section lists: the per-task sections walked by a nested comprehension", "keep", _R, _MT_BODY_RE, _section_lists().replace(_SECTION_LOOP, _section_comp()), regex=True),
    V("h4 section lists walked by a nested comprehension: races exchanged at the call", "break", _R, _MT_BODY_RE,
      _section_lists().replace(_SECTION_LOOP, _section_comp("contender_stats, baseline_stats, t")), "O20.2", regex=True),
    V("h4 section lists: per-task sections for every baseline task", "break", _R, _MT_BODY_RE, _section_lists(member="t in baseline_stats.tasks()"), "O20.5", regex=True),
    # the appended section is the only one that is handed the races the wrong way round: detected only when the appended element is a row of the table
    V("h4 section lists: the appended section is called separately with the races exchanged", "break", _R, _MT_BODY_RE,
      _section_lists().replace("        for t in baseline_stats.tasks():\n", "        late_sections = []\n        late_sections.append(self._report_disk_usage_stats_per_field)\n"
                               "        for late_section in late_sections:\n            metrics_table.extend(late_section(contender_stats, baseline_stats))\n        for t in baseline_stats.tasks():\n"), "O20.2", regex=True),
]

# ---- seeding round 5 (m14, m15): the pairing of list-valued statistics evaluated on lists in different orders; tolerant reads evaluated on the empty mapping ----
_ML_MAX_TAIL = (
    '                            "Max ML processing time", baseline["max"], contender["max"], job_name, unit, treat_increase_as_improvement=False\n'
    "                        )\n                    )\n"
)


def _ml_loops(inner='contender_stats.ml_processing_time', test='contender["job"] == job_name', in_match="", after_match="", pre="", wrap_try=False):
    """the ML pairing in its original shape (nested loops, four appends); in_match: statements after the appends under the match test, after_match: statements after the `if`
    in the inner loop; pre: statements before the match test; wrap_try: the appends inside a try / finally (a statement kind the interpreter does not follow)"""
    ind = " " * ((24 if wrap_try else 20) - (0 if test else 4))
    appends = "".join(f'{ind}lines.append(self._line("{lab} ML processing time", baseline["{k}"], contender["{k}"], job_name, unit, treat_increase_as_improvement=False))\n'
                      for lab, k in (("Min", "min"), ("Mean", "mean"), ("Median", "median"), ("Max", "max")))
    if wrap_try:
        appends = " " * 20 + "try:\n" + appends + " " * 20 + "finally:\n" + " " * 24 + 'self.logger.debug("compared ML job %s", job_name)\n'
    return (
        "    def _report_ml_processing_times(self, baseline_stats, contender_stats):\n        lines = []\n"
        '        for baseline in baseline_stats.ml_processing_time:\n            job_name = baseline["job"]\n            unit = baseline["unit"]\n'
        "            for contender in " + inner + ":\n" + pre + ("                if " + test + ":\n" if test else "") + appends + in_match + after_match + "        return lines\n\n"
    )


_SHARD_RE = r"    def _report_total_time_per_shard\(self, name, baseline_per_shard, contender_per_shard\):\n.*?(?=    def _report_total_count)"


def _shard_generator(read="baseline_per_shard.get(stat)"):
    return (
        "    def _report_total_time_per_shard(self, name, baseline_per_shard, contender_per_shard):\n        unit = \"min\"\n        return self._join(\n            *(\n"
        "                self._line(\n                    f\"{label} cumulative {name} across primary shard\",\n                    " + read + ",\n                    contender_per_shard.get(stat),\n"
        "                    \"\",\n                    unit,\n                    treat_increase_as_improvement=False,\n                    formatter=convert.ms_to_minutes,\n                )\n"
        '                for label, stat in (("Min", "min"), ("Median", "median"), ("Max", "max"))\n            )\n        )\n\n'
    )


_HELPER_TAIL = "                            treat_increase_as_improvement=treat_increase_as_improvement,\n                        )\n                    )\n"

VARIANTS += [
    # m14: every element both lists contain gets its lines, wherever it is stored
    V("seed m14: `break` one level too far out - only the contender's first ML job is looked at", "break", _R, _ML_MAX_TAIL + "        return lines\n",
      _ML_MAX_TAIL + "                # job names are unique, no need to look any further\n                break\n        return lines\n", "O20.5"),
    V("s5 ML pairing: the method returns after the first matched job", "break", _R, _ML_MAX_TAIL + "        return lines\n", _ML_MAX_TAIL + "                    return lines\n        return lines\n", "O20.5"),
    V("s5 ML pairing: only the first element of the contender's list is searched (slice)", "break", _R, "            for contender in contender_stats.ml_processing_time:\n",
      "            for contender in contender_stats.ml_processing_time[:1]:\n", "O20.5"),
    V("s5 ML pairing: the search gives up at the first job with another name (`else: break`)", "break", _R, _ML_RE, _ml_loops(after_match="                else:\n                    break\n"), "O20.5", regex=True),
    V("s5 ML pairing: the outer loop is left after the first baseline job", "break", _R, _ML_RE, _ml_loops(after_match="            break\n"), "O20.5", regex=True),
    [V("s5 b5 shape: the extracted transform helper stops searching at the first transform with another id", "break", _R, _TRANS_RE, _transform_helper(), "O20.5", regex=True),
     V("", "break", _R, _HELPER_TAIL, _HELPER_TAIL + "                else:\n                    break\n")],
    V("s5 ML pairing with a try statement (not evaluable) and the misplaced `break`: read off the control flow", "break", _R, _ML_RE,
      _ml_loops(wrap_try=True, after_match="                break\n"), "O20.5", regex=True),
    V("s5 ML pairing respelled: same shape, appends on one line each", "keep", _R, _ML_RE, _ml_loops(), regex=True),
    V("s5 ML pairing: `break` UNDER the match (job names are unique)", "keep", _R, _ML_MAX_TAIL + "        return lines\n", _ML_MAX_TAIL + "                    break\n        return lines\n"),
    V("s5 ML pairing: guard clause `continue` for the jobs with another name", "keep", _R, _ML_RE,
      _ml_loops(pre='                if contender["job"] != job_name:\n                    continue\n', test=None), regex=True),
    V("s5 ML pairing with a try statement (not evaluable), `break` under the match", "keep", _R, _ML_RE, _ml_loops(wrap_try=True, in_match="                    break\n"), regex=True),
    # m15: a tolerant read hands on None when the race lacks the member
    V("seed m15: per-shard statistics read with a default of 0", "break", _R, r'(baseline|contender)_per_shard\.get\("(min|median|max)"\)', r'\1_per_shard.get("\2", 0)', "O20.5", count=6, regex=True),
    V("s5 per-shard: the contender's median falls back to 0 (`or 0`)", "break", _R, '                contender_per_shard.get("median"),\n', '                contender_per_shard.get("median") or 0,\n', "O20.5"),
    V("s5 percentiles: the baseline's percentile read with a default of 0", "break", _R, "            baseline_value = baseline_values.get(metrics.encode_float_key(percentile))\n",
      "            baseline_value = baseline_values.get(metrics.encode_float_key(percentile), 0)\n", "O20.5"),
    V("s5 per-shard lines from a generator over (label, key): baseline read with a default of 0.0", "break", _R, _SHARD_RE, _shard_generator("baseline_per_shard.get(stat, 0.0)"), "O20.5", regex=True),
    V("s5 per-shard: explicit None defaults", "keep", _R, r'(baseline|contender)_per_shard\.get\("(min|median|max)"\)', r'\1_per_shard.get("\2", None)', count=6, regex=True),
    V("s5 per-shard lines from a generator over (label, key)", "keep", _R, _SHARD_RE, _shard_generator(), regex=True),
    [V("s5 per-shard: minimum of each race hoisted into a local", "keep", _R, '                baseline_per_shard.get("min"),\n                contender_per_shard.get("min"),\n', "                baseline_min,\n                contender_min,\n"),
     V("", "keep", _R, '    def _report_total_time_per_shard(self, name, baseline_per_shard, contender_per_shard):\n        unit = "min"\n',
       '    def _report_total_time_per_shard(self, name, baseline_per_shard, contender_per_shard):\n        unit = "min"\n        baseline_min = baseline_per_shard.get("min")\n        contender_min = contender_per_shard.get("min")\n')],
    [V("s5 per-shard: hoisted minimum of the baseline defaults to 0", "break", _R, '                baseline_per_shard.get("min"),\n                contender_per_shard.get("min"),\n', "                baseline_min,\n                contender_min,\n", "O20.5"),
     V("", "break", _R, '    def _report_total_time_per_shard(self, name, baseline_per_shard, contender_per_shard):\n        unit = "min"\n',
       '    def _report_total_time_per_shard(self, name, baseline_per_shard, contender_per_shard):\n        unit = "min"\n        baseline_min = baseline_per_shard.get("min", 0)\n        contender_min = contender_per_shard.get("min")\n')],
]

# ---- hardening round 5 (benign C20-b12): the contender's list GROUPED by id in a local mapping filled by a loop, each baseline element looks its group up ----
_ML_CONST_AT = "def summarize(results, cfg: types.Config):\n"
_ML_CONST = 'ML_PROCESSING_TIME_STATISTICS = (("Min", "min"), ("Mean", "mean"), ("Median", "median"), ("Max", "max"))\n\n\n'


def _ml_grouped(fill='            contenders_by_job.setdefault(contender["job"], []).append(contender)\n', init="{}", lookup="contenders_by_job.get(job_name, ())", bind='baseline["job"]',
                table="ML_PROCESSING_TIME_STATISTICS", flag="False", ops="baseline[statistic],\n                            contender[statistic]", guard="baseline_stats"):
    """the b12 shape: contender jobs grouped by name once (setdefault / a defaultdict / membership test), one loop over the (label, key) table per matched pair"""
    return (
        "    def _report_ml_processing_times(self, baseline_stats, contender_stats):\n"
        "        if not " + guard + ".ml_processing_time:\n            return []\n"
        "        contenders_by_job = " + init + "\n        for contender in contender_stats.ml_processing_time:\n" + fill + "\n"
        "        lines = []\n        for baseline in baseline_stats.ml_processing_time:\n            job_name = " + bind + '\n            unit = baseline["unit"]\n'
        "            for contender in " + lookup + ":\n                for label, statistic in " + table + ":\n"
        '                    lines.append(\n                        self._line(\n                            f"{label} ML processing time",\n                            ' + ops + ",\n"
        "                            job_name,\n                            unit,\n                            treat_increase_as_improvement=" + flag + ",\n                        )\n                    )\n"
        "        return lines\n\n"
    )


_ML_TABLE_LIT = '(("Min", "min"), ("Mean", "mean"), ("Median", "median"), ("Max", "max"))'
_ML_FILL_TEST = ('            key = contender["job"]\n            if key not in contenders_by_job:\n                contenders_by_job[key] = []\n'
                 "            contenders_by_job[key].append(contender)\n")


def _ml_index_stat_loop(key="job"):
    """the contender found through an index, the lookup inside a loop over the statistics (an iteration between the pairing iteration and the lookup)"""
    return (
        "    def _report_ml_processing_times(self, baseline_stats, contender_stats):\n        lines = []\n"
        '        contender_by_job = {contender["' + key + '"]: contender for contender in contender_stats.ml_processing_time}\n'
        '        for baseline in baseline_stats.ml_processing_time:\n            job_name = baseline["job"]\n            unit = baseline["unit"]\n'
        '            for stat in ("min", "mean", "median", "max"):\n                contender = contender_by_job.get(job_name)\n                if contender is not None:\n'
        '                    lines.append(self._line(f"{stat.title()} ML processing time", baseline[stat], contender[stat], job_name, unit, treat_increase_as_improvement=False))\n'
        "        return lines\n\n"
    )


VARIANTS += [
    [V("h5 b12 shape: contender ML jobs grouped by name (setdefault), one loop over a module-level (label, key) table", "keep", _R, _ML_RE, _ml_grouped(), regex=True),
     V("", "keep", _R, _ML_CONST_AT, _ML_CONST + _ML_CONST_AT)],
    V("h5 b12 shape with the table inline", "keep", _R, _ML_RE, _ml_grouped(table=_ML_TABLE_LIT), regex=True),
    V("h5 ML jobs grouped behind a membership test, the key kept in a local of the filling loop", "keep", _R, _ML_RE, _ml_grouped(fill=_ML_FILL_TEST, table=_ML_TABLE_LIT), regex=True),
    V("h5 ML jobs indexed by a loop (`idx[c['job']] = [c]`), looked up by subscript behind a membership test", "keep", _R, _ML_RE,
      _ml_grouped(fill='            contenders_by_job[contender["job"]] = [contender]\n', lookup="(contenders_by_job[job_name] if job_name in contenders_by_job else ())", table=_ML_TABLE_LIT), regex=True),
    V("h5 ML jobs grouped: the lookup key read directly from the baseline element", "keep", _R, _ML_RE, _ml_grouped(lookup='contenders_by_job.get(baseline["job"], ())', table=_ML_TABLE_LIT), regex=True),
    V("h5 ML contender found through an index, lookup inside a loop over the statistics", "keep", _R, _ML_RE, _ml_index_stat_loop(), regex=True),
    V("h5 grouped ML jobs filed under another member than the one looked up", "break", _R, _ML_RE,
      _ml_grouped(fill='            contenders_by_job.setdefault(contender["unit"], []).append(contender)\n', table=_ML_TABLE_LIT), "O20.2", regex=True),
    V("h5 grouped ML jobs looked up by another member of the baseline job", "break", _R, _ML_RE, _ml_grouped(bind='baseline["unit"]', table=_ML_TABLE_LIT), "O20.2", regex=True),
    V("h5 grouped ML jobs: the grouping loop stops after the contender's first job", "break", _R, _ML_RE,
      _ml_grouped(fill='            contenders_by_job.setdefault(contender["job"], []).append(contender)\n            break\n', table=_ML_TABLE_LIT), "O20.5", regex=True),
    V("h5 grouped ML jobs: only a slice of the contender's list is grouped", "break", _R, _ML_RE,
      _ml_grouped(table=_ML_TABLE_LIT).replace("for contender in contender_stats.ml_processing_time:", "for contender in contender_stats.ml_processing_time[1:]:"), "O20.5", regex=True),
    V("h5 grouped ML jobs: the method returns inside the loop over the baseline's jobs", "break", _R, _ML_RE,
      _ml_grouped(table=_ML_TABLE_LIT).replace("                    )\n        return lines\n", "                    )\n            return lines\n        return lines\n"), "O20.5", regex=True),
    V("h5 grouped ML jobs: direction flag of the table-driven lines inverted", "break", _R, _ML_RE, _ml_grouped(flag="True", table=_ML_TABLE_LIT), "O20.1", regex=True),
    V("h5 grouped ML jobs: operands of the table-driven lines exchanged", "break", _R, _ML_RE,
      _ml_grouped(ops="contender[statistic],\n                            baseline[statistic]", table=_ML_TABLE_LIT), "O20.2", regex=True),
    V("h5 ML index with a statistics loop in between, built on another member", "break", _R, _ML_RE, _ml_index_stat_loop(key="unit"), "O20.2", regex=True),
]

_ML_FILL_DD = '            contenders_by_job[contender["job"]].append(contender)\n'
VARIANTS += [
    [V("h5 ML jobs grouped in a defaultdict(list) (not evaluable: read off the control flow)", "keep", _R, _ML_RE,
       _ml_grouped(init="collections.defaultdict(list)", fill=_ML_FILL_DD, lookup="contenders_by_job[job_name]", table=_ML_TABLE_LIT), regex=True),
     V("", "keep", _R, "import csv\n", "import collections\nimport csv\n")],
    [V("h5 ML jobs grouped in a defaultdict(list): the grouping loop stops after the first job", "break", _R, _ML_RE,
       _ml_grouped(init="collections.defaultdict(list)", fill=_ML_FILL_DD + "            break\n", lookup="contenders_by_job[job_name]", table=_ML_TABLE_LIT), "O20.5", regex=True),
     V("", "break", _R, "import csv\n", "import collections\nimport csv\n")],
    [V("h5 ML jobs grouped in a defaultdict(list) under another member", "break", _R, _ML_RE,
       _ml_grouped(init="collections.defaultdict(list)", fill='            contenders_by_job[contender["unit"]].append(contender)\n', lookup="contenders_by_job[job_name]", table=_ML_TABLE_LIT), "O20.2", regex=True),
     V("", "break", _R, "import csv\n", "import collections\nimport csv\n")],
]

# ---- seeding round 6 (m17, m18): keyed series read under distinct keys / the writer's keys; the cells evaluated under every other setting of the reporter _diff reads ----
_M = "esrally/metrics.py"
_POS_OLD = '        if printed > 0:\n            return color_greater(f"+{formatted}")\n        elif printed < 0:\n            return color_smaller(formatted)\n'
_POS_TAIL = '            return color_greater(f"{sign}{formatted}")\n        elif printed < 0:\n            return color_smaller(formatted)\n'
_ENC_OLD = '    return str(float(k)).replace(".", "_")\n'
_PCT_READS = ("            baseline_value = baseline_values.get(metrics.encode_float_key(percentile))\n"
              "            contender_value = contender_values.get(metrics.encode_float_key(percentile))\n")

VARIANTS += [
    V("seed m18: the '+' of positive differences is dropped for csv on the plain path", "break", _R, _POS_OLD,
      '        if printed > 0:\n            sign = "" if self.plain and self.report_format == "csv" else "+"\n' + _POS_TAIL, "O20.4"),
    V("s6 the plain csv cell is printed with fewer decimals than the console cell", "break", _R, "            precision = 5\n",
      '            precision = 3 if self.plain and self.report_format == "csv" else 5\n', "O20.4"),
    V("s6 markdown reports print positive differences without '+' (both paths)", "break", _R, _POS_OLD,
      '        if printed > 0:\n            sign = "" if self.report_format == "markdown" else "+"\n' + _POS_TAIL, "O20.3"),
    V("s6 _diff reads the report format without changing a cell", "keep", _R, _POS_OLD,
      '        if printed > 0:\n            sign = "+" if self.report_format != "csv" else "+"\n' + _POS_TAIL),
    V("seed m17: percentile keys encoded with one decimal (99.99 -> '100_0')", "break", _M, _ENC_OLD, '    return f"{float(k):.1f}".replace(".", "_")\n', "O20.2"),
    V("s6 percentile keys rounded to one decimal", "break", _M, _ENC_OLD, '    return str(round(float(k), 1)).replace(".", "_")\n', "O20.2"),
    V("s6 the contender's percentile is read under the key of the truncated percentile", "break", _R,
      "            contender_value = contender_values.get(metrics.encode_float_key(percentile))\n", "            contender_value = contender_values.get(metrics.encode_float_key(int(percentile)))\n", "O20.2"),
    V("s6 percentile key encoding respelled with an f-string", "keep", _M, _ENC_OLD, '    return f"{float(k)}".replace(".", "_")\n'),
    V("s6 the percentile key hoisted into a local of the loop", "keep", _R, _PCT_READS,
      "            key = metrics.encode_float_key(percentile)\n            baseline_value = baseline_values.get(key)\n            contender_value = contender_values.get(key)\n"),
]
