"""C20 — race comparison reports signed differences with the right direction (DESIGN.md section 4, C20)."""
from __future__ import annotations

import ast
import itertools
import re

from sa import pat, source
from sa.cfg import cfg_of, guards
from sa.source import AnchorMissing, arg_of, bind_args, dotted, is_self_attr, last_attr, local_defs, params_of, short, u, walk_body
from sa.sym import UnknownAtom, atoms_of, bool_eval, comparison
from sa.tables import Unsupported, decide

_R = "esrally/reporter.py"


def label_text(e):
    """constant text of a metric label (string, f-string heads, '%'-format left side)."""
    if isinstance(e, ast.Constant) and isinstance(e.value, str):
        return e.value
    if isinstance(e, ast.JoinedStr):
        return "".join(p.value if isinstance(p, ast.Constant) else "{}" for p in e.values)
    if isinstance(e, ast.BinOp) and isinstance(e.op, ast.Mod):
        return label_text(e.left)
    return None


class Roles:
    """Which of the two compared races (B = baseline, C = contender) an expression's value can come from."""

    def __init__(self, cls_methods, line_names):
        self.methods = cls_methods
        self.param_roles: dict[tuple[str, str], set] = {}
        self.line_names = line_names

    def env_for(self, func, outer=None):
        env = dict(outer or {})
        for p in params_of(func):
            r = self.param_roles.get((func.name, p))
            if r is not None:
                env[p] = set(r)
        # locals: iterate to a fixed point
        for _ in range(4):
            for n in source.walk_local(func, include_root=False) if False else walk_body(func):
                if isinstance(n, ast.Assign):
                    d = self.deps(n.value, env)
                    for t in n.targets:
                        for x in ast.walk(t):
                            if isinstance(x, ast.Name):
                                env[x.id] = env.get(x.id, set()) | d
                            elif isinstance(x, ast.Subscript) and isinstance(x.value, ast.Name):
                                env[x.value.id] = env.get(x.value.id, set()) | d
                elif isinstance(n, (ast.For, ast.comprehension)):
                    d = self.deps(n.iter, env)
                    for x in ast.walk(n.target):
                        if isinstance(x, ast.Name):
                            env[x.id] = env.get(x.id, set()) | d
                elif isinstance(n, ast.Call) and isinstance(n.func, ast.Attribute) and n.func.attr in ("append", "extend", "setdefault", "add") and isinstance(n.func.value, ast.Name):
                    d = set()
                    for a in n.args:
                        d |= self.deps(a, env)
                    env[n.func.value.id] = env.get(n.func.value.id, set()) | d
        return env

    def deps(self, e, env):
        if e is None:
            return set()
        if isinstance(e, ast.Name):
            return set(env.get(e.id, set()))
        if isinstance(e, ast.Attribute):
            return self.deps(e.value, env)
        if isinstance(e, ast.Subscript):
            return self.deps(e.value, env)  # the container decides the role, not the key
        if isinstance(e, ast.Call):
            if isinstance(e.func, ast.Attribute) and e.func.attr in ("get", "metrics", "items", "values", "keys", "tasks") and not (isinstance(e.func.value, ast.Name) and e.func.value.id == "self"):
                return self.deps(e.func.value, env)
            if dotted(e.func) == "getattr":
                return self.deps(e.args[0], env)
            d = set()
            for a in list(e.args) + [k.value for k in e.keywords]:
                d |= self.deps(a, env)
            if isinstance(e.func, ast.Attribute) and not (isinstance(e.func.value, ast.Name) and e.func.value.id == "self"):
                d |= self.deps(e.func.value, env)
            return d
        if isinstance(e, ast.Constant):
            return set()
        d = set()
        for c in ast.iter_child_nodes(e):
            if isinstance(c, ast.expr):
                d |= self.deps(c, env)
        return d


class _Sym:
    """an attribute of an imported module the analysed code refers to (console.format.green): a symbol; applying it to a text yields a _Styled value."""

    def __init__(self, name):
        self.name = name

    def __repr__(self):
        return self.name


class _Styled:
    """a colour function of the console module applied to a text."""

    def __init__(self, colour, text):
        self.colour = colour
        self.text = text

    def __repr__(self):
        return f"{self.colour}({self.text!r})"


class _CaseFailed(Exception):
    pass


def _own_stmts(f):
    """statements of a (nested) function without docstring and logging statements."""
    from sa.classes import is_logging_stmt

    return [s_ for s_ in f.body if not is_logging_stmt(s_) and not (isinstance(s_, ast.Expr) and isinstance(s_.value, ast.Constant))]


class _Interp:
    """Evaluation of one small pure function of the analysed source on representative VALUES: control flow by tables.decide, expressions by minieval.ev.
    Local extension of minieval (which interprets no calls of user code): a call of a nested helper function / lambda of the analysed function is interpreted the
    same way (closure = the environment at the call), a callable supplied by the rule is applied, a dotted attribute of an imported module is a symbol (_Sym) whose
    call yields _Styled(symbol, text); conditional expressions and and/or are evaluated lazily. No function of the repository is executed."""

    def __init__(self):
        self.trace = []  # (helper node, args, result) of every interpreted nested helper call

    def ev(self, e, env):
        from sa import minieval

        interp = self

        class R(ast.NodeTransformer):
            def visit_Attribute(self, n):
                d = dotted(n)
                if d is not None and d.split(".")[0] not in env:
                    return ast.Constant(value=_Sym(d))
                return self.generic_visit(n)

            def visit_Lambda(self, n):
                return ast.Constant(value=n)

            def visit_IfExp(self, n):
                return self.visit(n.body if interp.ev(n.test, env) else n.orelse)

            def visit_BoolOp(self, n):
                v = None
                for x in n.values:
                    v = interp.ev(x, env)
                    if bool(v) != isinstance(n.op, ast.And):
                        break
                return ast.Constant(value=v)

            def visit_Call(self, n):
                n = self.generic_visit(n)
                f = n.func
                fv = f.value if isinstance(f, ast.Constant) else (env.get(f.id) if isinstance(f, ast.Name) else None)
                if isinstance(fv, (_Sym, ast.FunctionDef, ast.Lambda)) or callable(fv):
                    if any(isinstance(a, ast.Starred) for a in n.args) or any(k.arg is None for k in n.keywords):
                        raise minieval.CannotEval(f"call {u(n)[:60]}: star arguments")
                    return ast.Constant(value=interp.call(fv, [minieval.ev(a, env) for a in n.args], {k.arg: minieval.ev(k.value, env) for k in n.keywords}, env))
                return n

        return minieval.ev(R().visit(source.clone(e)), env)

    def call(self, fv, args, kw, env):
        from sa import minieval

        if isinstance(fv, _Sym):
            if len(args) != 1 or kw:
                raise minieval.CannotEval(f"{fv.name} applied to {len(args)} argument(s)")
            return _Styled(fv.name, args[0])
        if isinstance(fv, (ast.FunctionDef, ast.Lambda)):
            a = fv.args
            names = [x.arg for x in a.args]
            if a.vararg or a.kwarg or a.kwonlyargs or a.posonlyargs or len(args) > len(names):
                raise minieval.CannotEval(f"signature of {getattr(fv, 'name', 'lambda')}")
            bound = dict(zip(names, args))
            for k_, v_ in kw.items():
                if k_ not in names or k_ in bound:
                    raise minieval.CannotEval(f"argument {k_} of {getattr(fv, 'name', 'lambda')}")
                bound[k_] = v_
            defaults = dict(zip(names[len(names) - len(a.defaults):], a.defaults))
            for nm in names:
                if nm not in bound:
                    if nm not in defaults:
                        raise minieval.CannotEval(f"argument {nm} of {getattr(fv, 'name', 'lambda')} not supplied")
                    bound[nm] = self.ev(defaults[nm], env)
            local = dict(env)
            local.update(bound)
            r = self.ev(fv.body, local) if isinstance(fv, ast.Lambda) else self.run(_own_stmts(fv), local)
            if isinstance(fv, ast.FunctionDef):
                self.trace.append((fv, tuple(args), r))
            return r
        try:
            return fv(*args, **kw)
        except (TypeError, ValueError, ArithmeticError) as x:
            raise minieval.CannotEval(f"supplied callable: {type(x).__name__}")

    def _bind(self, t, v, env):
        from sa import minieval

        if isinstance(t, ast.Name):
            env[t.id] = v
        elif isinstance(t, (ast.Tuple, ast.List)) and isinstance(v, (tuple, list)) and len(v) == len(t.elts):
            for t_, v_ in zip(t.elts, v):
                self._bind(t_, v_, env)
        else:
            raise minieval.CannotEval(f"assignment target {u(t)[:40]}")

    def run(self, stmts, env):
        def hook(s_, env_, b):
            if isinstance(s_, ast.FunctionDef):
                env_[s_.name] = s_
                return "skip"
            if isinstance(s_, ast.Assign):
                v = self.ev(s_.value, env_)
                for t in s_.targets:
                    self._bind(t, v, env_)
                return "skip"
            if isinstance(s_, ast.AugAssign) and isinstance(s_.target, ast.Name):
                env_[s_.target.id] = self.ev(ast.BinOp(left=ast.Name(id=s_.target.id, ctx=ast.Load()), op=s_.op, right=s_.value), env_)
                return "skip"
            return None

        out = decide(stmts, lambda n, env_: bool(self.ev(n, env_)), env, on_stmt=hook)
        if out.kind == "return":
            return None if out.value is None else self.ev(out.value, env)
        if out.kind == "fallthrough":
            return None
        raise Unsupported(out.text()[:60])


class _Cell:
    """one printed difference cell: colour function (None = bare text) and the text split into '+' prefix, '-' sign, digits, decimals, suffix."""

    _NUM = re.compile(r"^(\+?)(-?)(\d+(?:\.(\d+))?|inf|nan)(.*)$", re.S)

    def __init__(self, colour=None, text=None, trace=(), crash=None):
        self.colour, self.text, self.trace, self.crash = colour, text, list(trace), crash
        m = self._NUM.match(text) if isinstance(text, str) else None
        self.plus = m.group(1) if m else None
        self.minus = m.group(2) if m else None
        self.value = float(m.group(2) + m.group(3)) if m else None
        self.decimals = len(m.group(4)) if m and m.group(4) is not None else (0 if m else None)
        self.suffix = m.group(5) if m else None

    @property
    def sign(self):
        """+1 / -1 / 0 of the PRINTED value (None when the text is not a number); a text that carries a '+' / '-' although its digits are zero counts as signed."""
        if self.value is None or self.value != self.value:
            return None
        return (self.value > 0) - (self.value < 0)

    def show(self):
        return f"<{self.crash}>" if self.crash else (f"{self.colour.rsplit('.', 1)[-1]}({self.text!r})" if self.colour else repr(self.text))


class _Rec(dict):
    """a stored per-task result record that has every member EXCEPT the optional ones (`absent`: member paths older result formats do not contain)."""

    def __init__(self, absent, path=(), touched=None):
        super().__init__()
        self.absent, self.path, self.touched = absent, path, touched if touched is not None else []

    def _lacks(self, k):
        if self.path + (k,) in self.absent:
            self.touched.append(self.path + (k,))
            return True
        return False

    def __missing__(self, k):
        if self._lacks(k):
            raise KeyError(k)
        return _Rec(self.absent, self.path + (k,), self.touched)

    def get(self, k, default=None):
        return default if self._lacks(k) else self[k]

    def __contains__(self, k):
        return not self._lacks(k)

    def __bool__(self):
        return True


def run(chk):
    repo = chk.repo
    rp = repo.module(_R)
    chk.use(rp, "docs/tournament.rst")
    chk.explanation = (
        "Decides the comparison report by tables: every comparison-line construction passes a constant direction flag that is increase-is-improvement iff the label names a throughput; "
        "role dataflow (through locals, loops, getattr, helper methods and nested helpers) shows the baseline operand depends only on the baseline race and the contender operand only on "
        "the contender race; the statements of _diff evaluated on representative values (baseline / contender pairs incl. zero and negative ones, both modes, both directions, rich and plain; "
        "d in {2t, t, 0.6t, 0.4t, 0, -0.4t, -0.6t, -t, -2t} with t the smallest printable step): shown value == contender - baseline resp. (c - b) / |b| * 100 (zero-safe), a cell is signed "
        "and coloured by direction exactly when its printed value is non-zero, relative and absolute cell agree in sign and colour, swapping flips both, self comparison is an unsigned "
        "neutral zero, the plain cell is the rich cell's text; plain flag read only for colour selection; same formatter for file (plain) and console (rich); "
        "a line only when both values are not None; scalar metric guards use `is None`, not truthiness; optional members of a stored task result (throughput mean, processing time) are "
        "read with a default in both races (reads evaluated on a record without them)."
    )
    chk.not_decided = "numeric formatting, tabulate output, the content of the race results themselves."
    CR = rp.cls("ComparisonReporter")
    cm = rp.methods(CR)
    line = cm.get("_line")
    diff = cm.get("_diff")
    mt = cm.get("_metrics_table")
    rep = cm.get("report")
    if not all([line, diff, mt, rep]):
        raise AnchorMissing("ComparisonReporter._line/_diff/_metrics_table/report")

    # call sites of _line (self._line or a local alias of it), including nested helper functions
    sites = []
    for name, f in cm.items():
        aliases = {"self._line"}
        for n in ast.walk(f):
            if isinstance(n, ast.Assign) and u(n.value) == "self._line" and isinstance(n.targets[0], ast.Name):
                aliases.add(n.targets[0].id)
        for n in ast.walk(f):
            if isinstance(n, ast.Call) and u(n.func) in aliases:
                sites.append((f, n))

    # ---- O20.1 direction table -------------------------------------------------------------------------------------------------------
    chk.rule("O20.1", "every comparison-line construction passes a constant direction flag: increase-is-improvement iff the metric label names a throughput; all others "
             "(latency, times, error rate, sizes, counts) decrease-is-improvement", 35,
             "an improvement of that metric is coloured as a regression (and vice versa)")
    n_thr = 0
    for f, c in sites:
        b = bind_args(c, line)
        lab = label_text(b.get("metric")) if b.get("metric") is not None else None
        flag = b.get("treat_increase_as_improvement")
        if lab is None:
            chk.unknown("O20.1", f"metric label of {short(c, 60)} is not a (formatted) string constant", c)
            continue
        is_thr = "throughput" in lab.lower()
        n_thr += is_thr
        ok = isinstance(flag, ast.Constant) and isinstance(flag.value, bool) and flag.value == is_thr
        chk.ob("O20.1", f"'{lab}': {'higher' if is_thr else 'lower'} is better", ok, c, f"flag={u(flag) if flag is not None else None}", key=f"{_R}:{source.qualname(c)}:direction:{lab}")
    chk.ob("O20.1", "throughput lines located", n_thr >= 5, CR, f"{n_thr} throughput line(s) of {len(sites)}")

    # ---- O20.2 operand roles -------------------------------------------------------------------------------------------------------------
    chk.rule("O20.2", "at each comparison line the baseline operand depends only on the baseline race and the contender operand only on the contender race "
             "(role dataflow from report(): first race = baseline, second = contender)", 35,
             "baseline and contender swapped for one metric: the sign and colour of its difference are inverted")
    roles = Roles(cm, None)
    # roots: report(r1, r2) -> GlobalStats(r1.results) / GlobalStats(r2.results) -> _metrics_table(b, c, plain)
    rps = params_of(rep)
    if len(rps) < 3:
        raise AnchorMissing("ComparisonReporter.report(self, r1, r2)")
    roles.param_roles[("report", rps[1])] = {"B"}
    roles.param_roles[("report", rps[2])] = {"C"}
    changed = True
    it = 0
    while changed and it < 8:
        changed = False
        it += 1
        for name, f in cm.items():
            env = roles.env_for(f)
            nested = [n for n in ast.walk(f) if isinstance(n, (ast.FunctionDef,)) and n is not f]
            for n in ast.walk(f):
                if isinstance(n, ast.Call) and isinstance(n.func, ast.Attribute) and isinstance(n.func.value, ast.Name) and n.func.value.id == "self" and n.func.attr in cm and n.func.attr not in ("_line", "_diff", "_join", "_append_non_empty"):
                    callee = cm[n.func.attr]
                    for p, a in bind_args(n, callee).items():
                        d = roles.deps(a, env)
                        old = roles.param_roles.get((callee.name, p), set())
                        if not d <= old:
                            roles.param_roles[(callee.name, p)] = old | d
                            changed = True
    for f, c in sites:
        # environment: method env, plus nested-function parameters (role-free) when the site is in a nested helper
        env = roles.env_for(f)
        inner = source.enclosing_func(c)
        if inner is not f and inner is not None:
            env = roles.env_for(inner, outer=env)
        b = bind_args(c, line)
        db, dc = roles.deps(b.get("baseline"), env), roles.deps(b.get("contender"), env)
        lab = label_text(b.get("metric")) or "?"
        ok = db == {"B"} and dc == {"C"}
        chk.ob("O20.2", f"'{lab}': operands", ok, c, f"baseline operand `{short(b.get('baseline'), 50)}` <- {sorted(db)}; contender operand `{short(b.get('contender'), 50)}` <- {sorted(dc)}",
               key=f"{_R}:{source.qualname(c)}:roles:{lab}")
    # sibling agreement inside each reporting method: whatever is selected from the baseline race is selected from the contender race too (same attribute / key / call chain)
    n_sym = 0
    for name, f in cm.items():
        env = roles.env_for(f)
        ps = [p_ for p_ in params_of(f) if p_ != "self"]
        pb = [p_ for p_ in ps if roles.param_roles.get((f.name, p_)) == {"B"}]
        pc = [p_ for p_ in ps if roles.param_roles.get((f.name, p_)) == {"C"}]
        # the two sides of a comparison are ADJACENT parameters (baseline first); a task name taken from the baseline's task list also carries the baseline role
        pair = [(ps[i], ps[i + 1]) for i in range(len(ps) - 1) if ps[i] in pb and ps[i + 1] in pc]
        if len(pair) != 1:
            continue
        pb, pc = [pair[0][0]], [pair[0][1]]

        def selectors(root):
            out = set()
            for n in ast.walk(f):
                if isinstance(n, ast.Name) and n.id == root and isinstance(n.ctx, ast.Load):
                    top = n
                    while isinstance(source.parent(top), (ast.Attribute, ast.Subscript)) and source.parent(top).value is top or \
                            (isinstance(source.parent(top), ast.Call) and source.parent(top).func is top):
                        top = source.parent(top)
                    if isinstance(source.parent(top), ast.Call) and dotted(source.parent(top).func) == "getattr" and source.parent(top).args and source.parent(top).args[0] is top:
                        top = source.parent(top)
                    t_ = ast.unparse(top)
                    out.add(t_.replace(root, "<race>"))
            return out

        # the unit of a line is taken from one side only (by design: both races measure the same thing); that selection is not a compared value
        unit_only = lambda t_: t_.endswith("['unit']") or t_.endswith(".unit")  # noqa: E731
        sb, sc = {t_ for t_ in selectors(pb[0]) if not unit_only(t_)}, {t_ for t_ in selectors(pc[0]) if not unit_only(t_)}
        if not sb and not sc:
            continue
        n_sym += 1
        only_b, only_c = sorted(sb - sc), sorted(sc - sb)
        # a bare pass-through of the race object itself (handed to a helper) is symmetric by construction
        ok = not only_b and not only_c
        chk.ob("O20.2", f"{name}: the same selections are made from the baseline and from the contender race", ok, f,
               "" if ok else f"only from the baseline: {only_b}; only from the contender: {only_c} — the line compares two different metrics", key=f"{_R}:ComparisonReporter.{name}:symmetric-selectors")
    chk.ob("O20.2", "reporting methods with both races located", n_sym >= 10, rep, f"{n_sym} method(s)")
    # report(): GlobalStats(r1.results) first
    mcalls = [n for n in walk_body(rep) if isinstance(n, ast.Call) and u(n.func) == "self._metrics_table"]
    renv = roles.env_for(rep)
    mtp = params_of(mt)
    if len(mtp) < 4:
        raise AnchorMissing("_metrics_table(self, baseline_stats, contender_stats, plain)")
    mbind = [bind_args(c, mt) for c in mcalls]
    ok = len(mcalls) == 2 and all(b_.get(mtp[1]) is not None and b_.get(mtp[2]) is not None and roles.deps(b_[mtp[1]], renv) == {"B"} and roles.deps(b_[mtp[2]], renv) == {"C"} for b_ in mbind)
    chk.ob("O20.2", "both tables built from (baseline, contender) in that order", ok, mcalls[0] if mcalls else rep, "")

    # ---- O20.3 difference and colours ----------------------------------------------------------------------------------------------------------------
    chk.rule("O20.3", "_diff decided on VALUES (its own statements evaluated for representative baseline / contender pairs incl. zero and negative ones): d == contender - baseline "
             "(absolute: formatter(c - b); relative: (c - b) / |b| * 100, zero-safe); a cell is signed ('+' on positive values) and coloured exactly when its PRINTED value is non-zero "
             "(t = 10^-precision: 0.6t is marked, 0.4t is neutral); colour table plain -> bare text x3, increase-good -> (+green, -red), decrease-good -> (+red, -green), prints as zero -> neutral; "
             "the relative cell carries the sign and colour of the absolute cell; swapping the races flips both; self comparison prints an unsigned zero", 14,
             "self-comparison not neutral, swapping the races does not flip sign/colour, or improvement/regression colours exchanged")
    dp = params_of(diff)
    if len(dp) < 6:
        raise AnchorMissing("_diff(self, baseline, contender, treat_increase_as_improvement, formatter, as_percentage)")
    bpar, cpar, flagp, fmtp, pctp = dp[1], dp[2], dp[3], dp[4], dp[5]
    from sa import minieval

    own_stmts = _own_stmts

    # site anchors only (the decisions below are evaluated on values, never read off these statements): the top-level statement of _diff that branches on self.plain and
    # the last top-level decision that returns
    sel_if = [n for n in diff.body if isinstance(n, ast.If) and any(is_self_attr(x, "plain") for m in ast.walk(n) if isinstance(m, ast.If) for x in ast.walk(m.test))]
    sel_node = sel_if[0] if sel_if else diff
    final = [n for n in diff.body if isinstance(n, ast.If) and n not in sel_if and any(isinstance(x, ast.Return) for x in ast.walk(n))]
    fnode = final[-1] if final else diff
    idf = [n for n in diff.body if isinstance(n, ast.FunctionDef) and n.name == "identity"]
    ok = False
    if idf and len(params_of(idf[0])) == 1:
        ib = own_stmts(idf[0])
        ok = len(ib) == 1 and isinstance(ib[0], ast.Return) and isinstance(ib[0].value, ast.Name) and ib[0].value.id == params_of(idf[0])[0]
    chk.ob("O20.3", "identity returns its argument", ok, idf[0] if idf else diff, "")

    G, S, N = "console.format.green", "console.format.red", "console.format.neutral"
    cells = {}

    def cell(plain, inc, pct, b, c, fmt=None):
        """the cell _diff produces for (self.plain, direction flag, as_percentage, baseline, contender[, formatter — default: _diff's own default]): its statements are
        evaluated on these values; the operands are bound by parameter POSITION (as _line passes them), the mode and formatter by parameter name."""
        k_ = (plain, inc, pct, b, c, fmt)
        if k_ not in cells:
            it = _Interp()
            kw = {pctp: pct}
            if fmt is not None:
                kw[fmtp] = fmt
            elif dp.index(fmtp) < len(dp) - len(diff.args.defaults):
                kw[fmtp] = lambda x: x  # _diff declares no default formatter: the identity is supplied by the rule
            try:
                r = it.call(diff, [minieval.Record(plain=plain), b, c, inc], kw, {})
            except (Unsupported, UnknownAtom, minieval.CannotEval) as e:
                if "ZeroDivisionError" not in str(e):
                    raise _CaseFailed(f"_diff(plain={plain}, {b}, {c}, {inc}, as_percentage={pct}): {type(e).__name__}: {e}")
                cells[k_] = _Cell(crash="ZeroDivisionError", trace=it.trace)
                return cells[k_]
            except (TypeError, ValueError, AttributeError, KeyError, IndexError, ArithmeticError, RecursionError) as e:
                raise _CaseFailed(f"_diff(plain={plain}, {b}, {c}, {inc}, as_percentage={pct}): {type(e).__name__}: {e}")
            if isinstance(r, _Styled) and isinstance(r.text, str):
                cells[k_] = _Cell(r.colour, r.text, it.trace)
            elif isinstance(r, str):
                cells[k_] = _Cell(None, r, it.trace)
            else:
                raise _CaseFailed(f"_diff(plain={plain}, {b}, {c}, {inc}, as_percentage={pct}) yields {r!r}: neither a text nor a colour function applied to a text")
        return cells[k_]

    def colour_for(sign, inc):
        return N if sign == 0 else (G if (sign > 0) == inc else S)

    plain_mismatch = []
    n_cases = [0]

    def judge(pct, b, c, want, decimals, fmt=None, unsigned_zero=False):
        """'' when the cell for (b, c) is right in both directions, rich and plain: it shows `want` rounded to the printed decimals; it is coloured by direction and carries
        its sign ('+' on positive values) iff the printed value is non-zero, neutral and without '+' otherwise; the plain cell is the same text without a colour function."""
        bad = []
        for inc in (True, False):
            r, p = cell(False, inc, pct, b, c, fmt), cell(True, inc, pct, b, c, fmt)
            n_cases[0] += 1
            tag = f"({b}, {c}) {'increase' if inc else 'decrease'}-good -> {r.show()}"
            if r.crash or r.sign is None or r.decimals != decimals:
                bad.append(f"{tag}: not a number with {decimals} decimals")
                continue
            if p.crash or p.colour is not None or p.text != r.text:
                plain_mismatch.append(f"({b}, {c}, as_percentage={pct}): plain {p.show()} vs rich {r.show()}")
            shown_want = float(format(want, f".{decimals}f"))
            if abs(r.value - shown_want) > 10.0 ** -decimals / 1000:
                bad.append(f"{tag}: shows {r.value}, expected {shown_want}")
            elif r.colour != colour_for(r.sign, inc):
                bad.append(f"{tag}: expected {colour_for(r.sign, inc).rsplit('.', 1)[-1]} for a printed value {'> 0' if r.sign > 0 else ('< 0' if r.sign < 0 else 'of zero')}")
            elif r.plus != ("+" if r.sign > 0 else "") or (r.sign < 0 and r.minus != "-"):
                bad.append(f"{tag}: sign prefix {r.plus + r.minus!r}")
            elif unsigned_zero and r.sign == 0 and r.minus:
                bad.append(f"{tag}: a zero printed with a minus sign")
        return "; ".join(bad)

    def rel(b, c):
        return (c - b) / abs(b) * 100.0

    try:
        # the number of decimals each mode prints (t = 10^-decimals is the smallest printable step), read off one evaluated cell per mode
        dec = {False: cell(True, True, False, 1.0, 2.0).decimals, True: cell(True, True, True, 100.0, 101.0).decimals}
        if any(d_ is None or d_ < 1 for d_ in dec.values()):
            raise _CaseFailed(f"printed decimals cannot be read off the cells {cell(True, True, False, 1.0, 2.0).show()} / {cell(True, True, True, 100.0, 101.0).show()}")
        # --- difference formulas on values (incl. negative baselines; sign, magnitude, formatter) ---
        PAIRS = [(10, 5), (-10, -5), (-4000, 1000), (4, 5), (-4, -5), (2, -2), (-3, 7), (2.5, 1.0)]
        bad = [m_ for b_, c_ in PAIRS for m_ in [judge(True, b_, c_, rel(b_, c_), dec[True])] if m_]
        asg = [n for n in ast.walk(diff) if isinstance(n, ast.Assign) and any(isinstance(x, (ast.Div, ast.Call)) for x in ast.walk(n.value)) and
               {bpar, cpar} <= {x.id for x in ast.walk(n.value) if isinstance(x, ast.Name)} and any(isinstance(g_, ast.Name) and g_.id == pctp for t_, _ in guards(n) for g_ in ast.walk(t_))]
        rel_n = asg[0] if asg else diff
        chk.ob("O20.3", "relative difference == (contender - baseline) / |baseline| * 100 (value table incl. negative baselines: -10 -> -5 is +50.00%, -4000 -> 1000 is +125.00%, 10 -> 5 is -50.00%)",
               not bad, rel_n, "; ".join(bad)[:400], key=f"{_R}:ComparisonReporter._diff:relative-value")
        # zero-safe division, decided on the divisors that actually reach it: baselines 3, -3 and 0
        bad, reach = [], []
        for b_, c_ in ((3, 9), (3, -3), (-3, 3), (-3, -9), (0, 0), (0, 5), (0, -5)):
            for inc in (True, False):
                r = cell(False, inc, True, b_, c_)
                reach += [f"{f_.name}{a_} -> {v_}" for f_, a_, v_ in r.trace if f_ is not diff and any(isinstance(x, ast.Div) for x in ast.walk(f_))]
                if r.crash:
                    bad.append(f"({b_}, {c_}) -> {r.show()}")
            if b_ != 0 or c_ == 0:
                m_ = judge(True, b_, c_, rel(b_, c_) if b_ else 0.0, dec[True])
                if m_:
                    bad.append(m_)
        helpers = [f_ for r in cells.values() for f_, a_, v_ in r.trace if f_ is not diff and any(isinstance(x, ast.Div) for x in ast.walk(f_))]
        div_n = helpers[0] if helpers else rel_n
        chk.ob("O20.3", "division is zero-safe (0 when the baseline is 0) and exact for every divisor that reaches it (baselines 3, -3, 0)", not bad, div_n,
               ("; ".join(bad) + " | reached: " + ", ".join(sorted(set(reach))))[:400] if bad else "", key=f"{_R}:ComparisonReporter._diff:zero-safe-division")
        double = lambda x: x * 2  # noqa: E731  a linear formatter supplied by the rule (a fixed unit conversion)
        bad = [m_ for b_, c_ in PAIRS + [(0, 7), (7, 0)] for m_ in [judge(False, b_, c_, (c_ - b_) * 2, dec[False], fmt=double), judge(False, b_, c_, c_ - b_, dec[False])] if m_]
        asg = [n for n in ast.walk(diff) if isinstance(n, ast.Assign) and any(isinstance(x, ast.Call) and isinstance(x.func, ast.Name) and x.func.id == fmtp for x in ast.walk(n.value))]
        chk.ob("O20.3", "absolute difference == formatter(contender - baseline) (value table, linear formatter x2 and the default)", not bad, asg[0] if asg else diff, "; ".join(bad)[:400], key=f"{_R}:ComparisonReporter._diff:absolute-value")
        # the relative cell carries the sign and colour of the absolute cell (baseline != 0)
        bad = []
        for b_, c_ in PAIRS:
            for inc in (True, False):
                a_, r_ = cell(False, inc, False, b_, c_), cell(False, inc, True, b_, c_)
                if a_.crash or r_.crash or a_.sign is None or r_.sign is None or (a_.colour, a_.sign, a_.plus) != (r_.colour, r_.sign, r_.plus):
                    bad.append(f"({b_}, {c_}): Diff {a_.show()} but Diff % {r_.show()}")
        chk.ob("O20.3", "the relative cell has the sign and the colour of the absolute cell (baselines 10, -10, -4000, 4, -4, 2, -3, 2.5)", not bad, rel_n, "; ".join(bad)[:400],
               key=f"{_R}:ComparisonReporter._diff:relative-sign-agrees")
        # swapping baseline and contender flips every sign and colour (both cells, both directions; values != 0)
        bad = []
        flip = {G: S, S: G}
        for b_, c_ in PAIRS:
            for inc, pct in itertools.product((True, False), repeat=2):
                x_, y_ = cell(False, inc, pct, b_, c_), cell(False, inc, pct, c_, b_)
                if x_.crash or y_.crash or not x_.sign or not y_.sign or x_.sign != -y_.sign or flip.get(x_.colour) != y_.colour:
                    bad.append(f"{'Diff %' if pct else 'Diff'} ({b_}, {c_}) -> {x_.show()}, swapped -> {y_.show()}")
        chk.ob("O20.3", "swapping baseline and contender flips sign and colour of both cells (value table incl. negative values)", not bad, fnode, "; ".join(bad)[:400],
               key=f"{_R}:ComparisonReporter._diff:swap-flips")
        # comparing a value with itself: an unsigned zero in the neutral colour, both cells
        bad = [m_ for v_ in (3, -3, 0, 2.5, -4000.0, 0.0) for pct in (False, True) for m_ in [judge(pct, v_, v_, 0.0, dec[pct], unsigned_zero=True)] if m_]
        chk.ob("O20.3", "self comparison prints an unsigned zero in the neutral colour in both cells (values 3, -3, 0, 2.5, -4000.0)", not bad, fnode, "; ".join(bad)[:400],
               key=f"{_R}:ComparisonReporter._diff:self-neutral")
        # a change away from a ZERO baseline: the absolute cell is marked, so the relative cell must be marked the same way (not a neutral 0.00%)
        bad = []
        for c_ in (50, -50, 0.5):
            for inc in (True, False):
                a_, r_ = cell(False, inc, False, 0, c_), cell(False, inc, True, 0, c_)
                if a_.colour in (G, S) and (r_.crash or r_.colour != a_.colour or (r_.plus, r_.minus) != (a_.plus, a_.minus)):
                    bad.append(f"(0, {c_}) {'increase' if inc else 'decrease'}-good: Diff {a_.show()} but Diff % {r_.show()}")
        chk.ob("O20.3", "baseline 0, contender != 0: the relative cell is marked with the sign and colour of the absolute cell (not a neutral 0.00%)", not bad, div_n, "; ".join(bad)[:400],
               key=f"{_R}:ComparisonReporter._diff:relative-from-zero-baseline")

        # --- colour table over (plain, increase-good): the colour function applied for d = 2t, -2t and 0, read off the evaluated cells in both modes ---
        def at(pct, k):
            """(baseline, contender) whose difference in this mode is k * t, t = 10^-decimals of the mode"""
            base = 100.0 if pct else 1.0
            return base, base + k * 10.0 ** -dec[pct]

        want_tab = {(True, True): ("identity", "identity", "identity"), (True, False): ("identity", "identity", "identity"), (False, True): (G, S, N), (False, False): (S, G, N)}
        for plain, inc in itertools.product([True, False], repeat=2):
            per_mode = {}
            for pct in (False, True):
                cs = [cell(plain, inc, pct, *at(pct, k)) for k in (2, -2, 0)]
                per_mode[pct] = tuple("<" + c_.crash + ">" if c_.crash else (c_.colour or "identity") for c_ in cs)
            got3 = per_mode[False] if per_mode[False] != want_tab[(plain, inc)] or per_mode[True] == want_tab[(plain, inc)] else per_mode[True]
            g_, s_, n_ = got3
            mode = "plain" if plain else ("increase is improvement" if inc else "decrease is improvement")
            chk.ob("O20.3", f"colours for {mode}{' (flag ' + str(inc) + ')' if plain else ''}", all(per_mode[pct] == want_tab[(plain, inc)] for pct in per_mode), sel_node,
                   f"(+, -, 0) -> ({g_}, {s_}, {n_}); expected {want_tab[(plain, inc)]}", key=f"{_R}:_diff:colours:{plain}|{inc}")
        # --- the nine positions of d relative to t = 10^-decimals: 2t, t, 0.6t, 0.4t, 0, -0.4t, -0.6t, -t, -2t, in both modes and both directions: a cell whose printed value is
        # non-zero is signed and coloured, one that prints as zero is neutral (0.6t prints as 0.00001 / 0.01% and must be marked, 0.4t prints as zero) ---
        for pct in (True, False):
            mode = "relative" if pct else "absolute"
            t = 10.0 ** -dec[pct]

            def pos(*ks):
                return "; ".join(m_ for k in ks for m_ in [judge(pct, *at(pct, k), k * t, dec[pct])] if m_)[:400]

            m_ = pos(0.6, 0.4, -0.4, -0.6)
            chk.ob("O20.3", f"neutral exactly when the difference PRINTS as zero: d = +-0.6t (prints as +-{t:.{dec[pct]}f}) is signed and coloured, d = +-0.4t is neutral ({mode})", not m_, fnode, m_,
                   key=f"{_R}:_diff:threshold:{mode}")
            m_ = pos(2)
            chk.ob("O20.3", f"d = 2t -> colour for increase, '+' prefix ({mode}, both directions)", not m_, fnode, m_, key=f"{_R}:_diff:above:{mode}")
            m_ = pos(-2)
            chk.ob("O20.3", f"d = -2t -> colour for decrease, no prefix ({mode}, both directions)", not m_, fnode, m_, key=f"{_R}:_diff:below:{mode}")
            m_ = pos(0)
            chk.ob("O20.3", f"d = 0 -> neutral, no prefix ({mode})", not m_, fnode, m_, key=f"{_R}:_diff:between:{mode}")
            m_ = pos(1, -1)
            chk.ob("O20.3", f"mirrored: d = t and d = -t (print as +-{t:.{dec[pct]}f}) are both signed and coloured ({mode})", not m_, fnode, m_, key=f"{_R}:_diff:mirror:{mode}")
    except _CaseFailed as e:
        chk.unknown("O20.3", f"_diff cannot be evaluated on values: {e}", fnode)
    # _line passes the same operands and flag to both _diff calls, in order
    dcalls = [n for n in walk_body(line) if isinstance(n, ast.Call) and u(n.func) == "self._diff"]
    lp = params_of(line)
    if len(lp) < 8:
        raise AnchorMissing("_line(self, metric, baseline, contender, task, unit, treat_increase_as_improvement, formatter)")
    ldefs = local_defs(line)

    def is_param(e, name):
        """e is the parameter `name` of _line (possibly through a single-assignment local)."""
        e = ldefs.get(e.id, e) if isinstance(e, ast.Name) and e.id not in lp else e
        return isinstance(e, ast.Name) and e.id == name

    def relative(c):
        v = bind_args(c, diff).get(pctp)
        if v is None:
            return False
        return True if source.is_const(v, True) else (False if source.is_const(v, False) else None)

    def passes_operands(c):
        b_ = bind_args(c, diff)
        return not any(isinstance(a, ast.Starred) for a in c.args) and all(b_.get(p_) is not None and is_param(b_[p_], q_) for p_, q_ in ((bpar, lp[2]), (cpar, lp[3]), (flagp, lp[6]), (fmtp, lp[7])))

    ok = len(dcalls) == 2 and all(passes_operands(c) for c in dcalls) and sorted(str(relative(c)) for c in dcalls) == ["False", "True"]
    chk.ob("O20.3", "_line -> _diff(baseline, contender, flag, formatter) twice (absolute, relative)", ok, line, "")
    row = [n for n in walk_body(line) if isinstance(n, ast.Return) and isinstance(n.value, ast.List) and len(n.value.elts) == 7]
    ok = False
    if row:
        el = [ldefs.get(e.id, e) if isinstance(e, ast.Name) and e.id not in lp else e for e in row[0].value.elts]

        def formatted(e, name):
            return isinstance(e, ast.Call) and is_param(e.func, lp[7]) and len(e.args) == 1 and not e.keywords and is_param(e.args[0], name)

        ok = is_param(el[0], lp[1]) and formatted(el[2], lp[2]) and formatted(el[3], lp[3]) and any(isinstance(x, ast.Name) and x.id == lp[4] for x in ast.walk(el[1])) and is_param(el[5], lp[5]) and \
            el[4] in dcalls and relative(el[4]) is False and el[6] in dcalls and relative(el[6]) is True
    chk.ob("O20.3", "row == [metric, task, baseline, contender, diff, unit, diff %]", ok, row[0] if row else line, "")

    # ---- O20.4 plain vs rich ---------------------------------------------------------------------------------------------------------------------------------
    chk.rule("O20.4", "the plain flag is read only at colour selection; both tables come from the same routine with only that flag differing; the writer applies the same formatter to both "
             "and sends plain to the file, rich to the console", 5,
             "the report file contains colour escape codes or differs from the console output")
    reads = [n for n in ast.walk(CR) if is_self_attr(n, "plain") and isinstance(n.ctx, ast.Load)]
    ok = bool(reads) and all(source.enclosing_func(n) is diff for n in reads)
    chk.ob("O20.4", "self.plain read only in _diff", ok, reads[0] if reads else CR, f"{len(reads)} read(s)")
    # file output == console output without colour codes, at the cell: every _diff case evaluated above (value tables of O20.3, rich and plain) gave the same text in both
    # modes and no colour function in plain mode
    if n_cases[0]:
        chk.ob("O20.4", "in plain mode every evaluated difference cell is the text of the rich cell without a colour function", not plain_mismatch, sel_node,
               f"{n_cases[0]} case(s)" if not plain_mismatch else "; ".join(plain_mismatch[:3])[:400], key=f"{_R}:ComparisonReporter._diff:plain-equals-rich-text")
    # every colour function assigned in the plain arm is identity — covered by the table; additionally no colour call outside _diff
    cols = [n for n in ast.walk(CR) if isinstance(n, ast.Attribute) and u(n).startswith("console.format.") and source.enclosing_func(n) is not diff and source.enclosing_func(n) is not None]
    chk.ob("O20.4", "no colour formatting outside _diff in the comparison reporter", not cols, cols[0] if cols else CR, "")
    ok = len(mcalls) == 2
    if ok:
        a, b = mbind
        pa, pb = a.get(mtp[3]), b.get(mtp[3])
        ok = all(a.get(p_) is not None and b.get(p_) is not None and u(a[p_]) == u(b[p_]) for p_ in (mtp[1], mtp[2])) and isinstance(pa, ast.Constant) and isinstance(pb, ast.Constant) and \
            {pa.value, pb.value} == {True, False} and isinstance(pa.value, bool) and isinstance(pb.value, bool)
    chk.ob("O20.4", "both tables from the same routine, only `plain` differs", ok, mcalls[0] if mcalls else rep, "")
    sets = [n for n in walk_body(mt) if isinstance(n, ast.Assign) and any(is_self_attr(t, "plain") for t in n.targets)]
    # "before building lines": an unconditional top-level assignment that no call of a method of the reporter precedes (logging and other statements in front do not matter)
    ok = len(sets) == 1 and isinstance(sets[0].value, ast.Name) and sets[0].value.id == mtp[3] and sets[0] in mt.body and \
        not any(isinstance(x, ast.Call) and isinstance(x.func, ast.Attribute) and isinstance(x.func.value, ast.Name) and x.func.value.id == params_of(mt)[0] and x.func.attr in cm
                for s_ in mt.body[: mt.body.index(sets[0])] for x in ast.walk(s_))
    chk.ob("O20.4", "_metrics_table sets the flag from its parameter before building lines", ok, sets[0] if sets else mt, "")
    wr = cm.get("_write_report")
    rdefs = local_defs(rep)
    wcall = [n for n in walk_body(rep) if isinstance(n, ast.Call) and u(n.func) == "self._write_report"]
    ok = False
    if wcall and wr is not None and len(mcalls) == 2:
        bw = bind_args(wcall[0], wr)
        wps = params_of(wr)

        def plain_of(e):
            d = rdefs.get(e.id) if isinstance(e, ast.Name) else e
            p_ = bind_args(d, mt).get(mtp[3]) if isinstance(d, ast.Call) and u(d.func) == "self._metrics_table" else None
            return p_.value if isinstance(p_, ast.Constant) else None

        wsr = [n for n in walk_body(wr) if isinstance(n, ast.Call) and last_attr(n.func) == "write_single_report"]
        if wsr:
            dp_, dr_ = arg_of(wsr[0], None, "data_plain"), arg_of(wsr[0], None, "data_rich")
            ok = dp_ is not None and dr_ is not None and bw.get(u(dp_)) is not None and bw.get(u(dr_)) is not None and plain_of(bw[u(dp_)]) is True and plain_of(bw[u(dr_)]) is False
    chk.ob("O20.4", "plain table -> data_plain, rich table -> data_rich", ok, wcall[0] if wcall else rep, "")
    ws = rp.func("write_single_report")
    if not {"data_plain", "data_rich"} <= set(params_of(ws)):
        raise AnchorMissing("write_single_report(..., data_plain, data_rich)")
    # the formatter by role: the local called on (headers, <one of the two data parameters>); both outputs must go through the same one
    fm = [n for n in walk_body(ws) if isinstance(n, ast.Call) and isinstance(n.func, ast.Name) and len(n.args) == 2 and not n.keywords and
          isinstance(n.args[1], ast.Name) and n.args[1].id in ("data_plain", "data_rich")]
    to_console = [n for n in fm if isinstance(source.parent(n), ast.Call) and last_attr(source.parent(n).func) == "print_internal"]
    to_file = [n for n in fm if isinstance(source.parent(n), ast.Call) and last_attr(source.parent(n).func) in ("writelines", "write")]
    ok = len(to_console) == 1 and len(to_file) == 1 and u(to_console[0].args[1]) == "data_rich" and u(to_file[0].args[1]) == "data_plain" and u(to_console[0].args[0]) == u(to_file[0].args[0]) and \
        to_console[0].func.id == to_file[0].func.id
    chk.ob("O20.4", "same formatter: rich -> console, plain -> file", ok, ws, "")

    # ---- O20.5 only common metrics --------------------------------------------------------------------------------------------------------------------------------
    chk.rule("O20.5", "a line is emitted only when both values are not None (4-row table); tasks are the intersection; guards on scalar metric values use `is None`, never truthiness (0 is a value); optional members of a stored task result (throughput mean, processing time) are read with a default in both races", 6,
             "a metric missing in one race is printed (crash on None arithmetic), or a zero-valued metric present in both races is dropped / breaks swap symmetry")
    row_guard = guards(row[0]) if row else []
    for bn, cn in itertools.product([False, True], repeat=2):
        def atom(n, env):
            # `<operand> is [not] None` in either orientation (== / != None read the same); anything else about the operands is not an atom (UnknownAtom)
            if isinstance(n, ast.Compare) and len(n.ops) == 1 and isinstance(n.ops[0], (ast.Is, ast.IsNot, ast.Eq, ast.NotEq)):
                sides = [n.left, n.comparators[0]]
                none = [isinstance(x, ast.Constant) and x.value is None for x in sides]
                if none.count(True) == 1:
                    other = sides[1 - none.index(True)]
                    if isinstance(other, ast.Name) and other.id in (lp[2], lp[3]):
                        is_none = bn if other.id == lp[2] else cn
                        return is_none if isinstance(n.ops[0], (ast.Is, ast.Eq)) else not is_none
            return None

        try:
            try:
                # the whole body of _line evaluated for the case: a line is emitted iff the outcome is the 7-element row (early returns / arm order do not matter)
                o_ = decide(own_stmts(line), atom, {})
                val = bool(row) and o_.kind == "return" and (o_.node is row[0] or (isinstance(o_.value, ast.List) and len(o_.value.elts) == 7))
            except Unsupported:
                val = all(bool_eval(t, lambda n: atom(n, {})) == pol for t, pol in row_guard) and bool(row_guard)
            chk.ob("O20.5", f"line when baseline {'None' if bn else 'present'}, contender {'None' if cn else 'present'}", val == (not bn and not cn), row[0] if row else line, f"emits: {val}")
        except UnknownAtom as e:
            chk.ob("O20.5", "line guard", False, line, f"guard tests something else than None-ness: {e} (a value of 0 must still be compared)")
    tl = [n for n in walk_body(mt) if isinstance(n, ast.For) and isinstance(n.iter, ast.Call) and last_attr(n.iter.func) == "tasks"]
    ok = False
    detail = ""
    if tl:
        from sa import pat as _pat
        mdefs_ = local_defs(mt)
        tests = [t_ for n_ in ast.walk(tl[0]) if isinstance(n_, ast.If) for t_ in [n_.test] if isinstance(t_, ast.Compare) and len(t_.ops) == 1 and isinstance(t_.ops[0], (ast.In, ast.NotIn)) and u(t_.left) == u(tl[0].target)]
        if tests:
            coll = source.inline_node(tests[0].comparators[0], mdefs_)
            while isinstance(coll, ast.Call) and dotted(coll.func) in ("set", "list", "tuple", "frozenset", "sorted") and len(coll.args) == 1:
                coll = coll.args[0]
            ok = isinstance(coll, ast.Call) and last_attr(coll.func) == "tasks" and u(coll.func.value) != u(tl[0].iter.func.value)
            detail = f"`{u(tl[0].target)}` of {u(tl[0].iter)} kept when in {u(coll)}"
            if ok and isinstance(tl[0].target, ast.Name):
                # polarity by evaluation of the loop body: lines for the task are produced when it is a member of the other race's tasks and none when it is not
                # (`if t in X: ...` and `if t not in X: continue` read the same); switches on reporter attributes are taken as on
                def produces(member):
                    def atom(n, env):
                        if any(n is t_ for t_ in tests):
                            return member if isinstance(n.ops[0], ast.In) else not member
                        if isinstance(n, ast.Attribute) and isinstance(n.value, ast.Name) and n.value.id == params_of(mt)[0]:
                            return True
                        return None

                    o_ = decide(tl[0].body, atom, {})
                    return any(isinstance(c_, ast.Call) and isinstance(c_.func, ast.Attribute) and isinstance(c_.func.value, ast.Name) and c_.func.value.id == params_of(mt)[0] and c_.func.attr in cm and
                               any(isinstance(a_, ast.Name) and a_.id == tl[0].target.id for a_ in c_.args) for e_ in o_.effects for c_ in ast.walk(e_))

                try:
                    ok = produces(True) and not produces(False)
                    if not ok:
                        detail += "; but the per-task lines are not produced exactly for the members"
                except (Unsupported, UnknownAtom):
                    pass
    chk.ob("O20.5", "per-task lines for the intersection of tasks", ok, tl[0] if tl else mt, detail)
    # the task list is consulted once per baseline task: it must be a re-iterable collection (a generator would be exhausted by the first membership test)
    met_ = repo.module("esrally/metrics.py")
    tk_ = met_.methods(met_.cls("GlobalStats")).get("tasks")
    if tk_ is None:
        raise AnchorMissing("GlobalStats.tasks")
    trets = [n for n in walk_body(tk_) if isinstance(n, ast.Return)]
    gen = [r for r in trets if isinstance(r.value, ast.GeneratorExp) or (isinstance(r.value, ast.Call) and dotted(r.value.func) in ("map", "filter", "iter", "zip", "reversed"))] + \
          [n for n in walk_body(tk_) if isinstance(n, (ast.Yield, ast.YieldFrom))]
    chk.ob("O20.5", "GlobalStats.tasks() returns a re-iterable collection", bool(trets) and not gen, gen[0] if gen else tk_,
           "" if not gen else "single-use iterator: after the first membership test in the comparison loop every later common task is missed (and swapping the races changes the set of lines)",
           key="esrally/metrics.py:GlobalStats.tasks:re-iterable")
    from rules.C08 import record_key_agreement

    chk.use(met_)
    record_key_agreement(chk, "O20.5", met_)
    # optional members of a stored per-task result: a race written by an older version (or without that measurement) does not contain them, and the comparison must then skip
    # the line, not abort with a KeyError. Every value the comparison selects from `<race>.metrics(task)` is evaluated on a record that has every member EXCEPT the optional
    # ones: the read must evaluate (mandatory members may stay subscripts) and yield None / an empty mapping (no line) — in BOTH races; where the value is handed to a helper
    # that dereferences it, None is not enough.
    OPTIONAL = {("throughput", "mean"): "results written before Rally 2.0.4 contain no throughput mean (CHANGELOG #1146, #1160)",
                ("processing_time",): "per-task processing time is newer than latency / service time and is only present in some stored results"}
    if met_.methods(met_.cls("GlobalStats")).get("metrics") is None:
        raise AnchorMissing("GlobalStats.metrics(task)")
    n_opt = 0
    opt_seen = {"B": set(), "C": set()}
    for name, f in cm.items():
        env = roles.env_for(f)
        done = set()
        for root in [n for n in walk_body(f) if isinstance(n, ast.Call) and isinstance(n.func, ast.Attribute) and n.func.attr == "metrics"]:
            role = roles.deps(root.func.value, env)
            if role not in ({"B"}, {"C"}):
                continue
            role = next(iter(role))
            top = root
            while True:
                p_ = source.parent(top)
                if (isinstance(p_, (ast.Subscript, ast.Attribute)) and p_.value is top) or (isinstance(p_, ast.Call) and p_.func is top) or isinstance(p_, (ast.BoolOp, ast.IfExp)):
                    top = p_
                else:
                    break
            if id(top) in done:
                continue
            done.add(id(top))
            root_text = u(root)

            class _Sub(ast.NodeTransformer):
                def visit_Call(self, n):
                    return ast.Name(id="__rec__", ctx=ast.Load()) if u(n) == root_text else self.generic_visit(n)

            expr = _Sub().visit(source.clone(top))
            touched = []
            val, err = None, None
            try:
                val = _Interp().ev(expr, {"__rec__": _Rec(frozenset(OPTIONAL), touched=touched)})
            except minieval.CannotEval as e:
                err = str(e)
            except (Unsupported, UnknownAtom, TypeError, ValueError, AttributeError, KeyError, IndexError, ArithmeticError, RecursionError) as e:
                err = f"{type(e).__name__}: {e}" if not isinstance(e, KeyError) else f"KeyError {e}"
            if not touched:
                continue  # selects mandatory members only (or its keys are not constants)
            if err is not None and "KeyError" not in err:
                chk.unknown("O20.5", f"{name}: the read `{short(top, 70)}` of an optional member cannot be evaluated on a record without it: {err}", top)
                continue
            # is the value dereferenced by the helper it is handed to (directly or through the local it is assigned to)?
            stmt = source.enclosing_stmt(top)
            local = stmt.targets[0].id if isinstance(stmt, ast.Assign) and stmt.value is top and len(stmt.targets) == 1 and isinstance(stmt.targets[0], ast.Name) else None
            needs_mapping = False
            for c_ in walk_body(f):
                if isinstance(c_, ast.Call) and isinstance(c_.func, ast.Attribute) and isinstance(c_.func.value, ast.Name) and c_.func.value.id == params_of(f)[0] and c_.func.attr in cm and cm[c_.func.attr] is not line:
                    for p_, a_ in bind_args(c_, cm[c_.func.attr]).items():
                        if (a_ is top or (local is not None and isinstance(a_, ast.Name) and a_.id == local)) and \
                                any(isinstance(x, (ast.Attribute, ast.Subscript)) and isinstance(x.value, ast.Name) and x.value.id == p_ for x in ast.walk(cm[c_.func.attr])):
                            needs_mapping = True
            member = ".".join(touched[0])
            opt_seen[role].add(touched[0])
            n_opt += 1
            empty = val is None or (isinstance(val, dict) and not isinstance(val, _Rec) and len(val) == 0)
            ok = err is None and empty and (isinstance(val, dict) or not needs_mapping)
            why = "" if ok else (f"`{short(top, 70)}` raises KeyError: the whole comparison aborts ('Cannot compare') instead of skipping the line" if err is not None else
                                 (f"`{short(top, 70)}` yields {val!r} for a race without the member: a line would be built from a value the race does not contain" if not empty else
                                  f"`{short(top, 70)}` yields None, but the helper it is handed to dereferences it"))
            chk.ob("O20.5", f"{name}: optional member `{member}` of the {'baseline' if role == 'B' else 'contender'}'s task result is read with a default ({OPTIONAL[touched[0]]})", ok, top, why,
                   key=f"{_R}:ComparisonReporter.{name}:optional-member:{role}:{member}")
    chk.ob("O20.5", "optional task-result members are read from both races alike (throughput mean, processing time: one read per race)", n_opt >= 4 and opt_seen["B"] == opt_seen["C"] == set(OPTIONAL), rep,
           f"{n_opt} read(s); baseline: {sorted('.'.join(p_) for p_ in opt_seen['B'])}; contender: {sorted('.'.join(p_) for p_ in opt_seen['C'])}", key=f"{_R}:ComparisonReporter:optional-members-symmetric")
    # scalar guards
    n_guard = 0
    for f, c in sites:
        b = bind_args(c, line)
        for side in ("baseline", "contender"):
            opnd = b.get(side)
            if opnd is None or not isinstance(opnd, ast.Attribute):
                continue
            for n in walk_body(f):
                if isinstance(n, ast.If):
                    for a in atoms_of(n.test):
                        if u(a) == u(opnd):
                            chk.ob("O20.5", f"{f.name}: guard on `{u(opnd)}`", False, n, f"`{u(n.test)}` tests the compared value by truthiness: a value of 0 drops the line (and breaks swap symmetry / self-comparison)",
                                   key=f"{_R}:{f.name}:truthiness:{u(opnd)}")
                        c_ = comparison(a)
                        if c_ and c_[1] in ("is", "is not") and ((u(c_[0]) == u(opnd) and u(c_[2]) == "None") or (u(c_[2]) == u(opnd) and u(c_[0]) == "None")):
                            n_guard += 1
                            chk.ob("O20.5", f"{f.name}: `{u(a)}`", True, n, "")
    # a statistic that is absent from an (older) stored race reads back as None: a list-valued one that is ITERATED must be None-tested for the race it is read from — the baseline's
    # guard does not protect the loop over the contender's list (comparing new-vs-old would crash while old-vs-new works)
    met2 = repo.module("esrally/metrics.py")
    gsi = met2.methods(met2.cls("GlobalStats")).get("__init__")
    nullable = set()
    for n in walk_body(gsi):
        if isinstance(n, ast.Assign) and is_self_attr(n.targets[0]) and isinstance(n.value, ast.Call) and u(n.value.func) == "self.v" and len(n.value.args) == 2 and not n.value.keywords:
            nullable.add(n.targets[0].attr)
    n_it = 0
    for name, f in cm.items():
        ps_ = [p_ for p_ in params_of(f) if p_ != "self"]
        gf = cfg_of(f)
        for lp in [n for n in walk_body(f) if isinstance(n, ast.For) and isinstance(n.iter, ast.Attribute) and isinstance(n.iter.value, ast.Name) and n.iter.value.id in ps_ and n.iter.attr in nullable]:
            race = lp.iter.value.id
            n_it += 1
            tests = []
            for t in [n for n in walk_body(f) if isinstance(n, ast.If)]:
                parts = t.test.values if isinstance(t.test, ast.BoolOp) and isinstance(t.test.op, ast.Or) else [t.test]
                none_test = lambda d_: isinstance(d_, ast.Compare) and len(d_.ops) == 1 and isinstance(d_.ops[0], ast.Is) and source.is_const(d_.comparators[0], None) \
                    and isinstance(d_.left, ast.Attribute) and isinstance(d_.left.value, ast.Name) and d_.left.value.id == race  # noqa: E731
                if any(none_test(d_) for d_ in parts) and any(isinstance(x, ast.Return) for x in t.body) and gf.dominated_by_nodes(gf.node_of(lp), [gf.node_of(t)]):
                    tests.append(t)
            chk.ob("O20.5", f"{name}: `{u(lp.iter)}` (None for a race stored without it) is None-tested before it is iterated", bool(tests), lp,
                   "" if tests else f"no `{race}.<statistic> is None` test with an early return dominates the loop: the comparison crashes when only this race lacks the statistic",
                   key=f"{_R}:ComparisonReporter.{name}:iterated-nullable:{u(lp.iter)}")
    chk.ob("O20.5", "iterated optional statistics located", n_it >= 2, rep, f"{n_it} loop(s) over optional list-valued statistics")
    # what the comparison reads as statistic X of a stored race IS statistic X: every results attribute the comparison selects is initialised from the stored key of the same name
    init_keys = {}
    for n in walk_body(gsi):
        if isinstance(n, ast.Assign) and is_self_attr(n.targets[0]) and isinstance(n.value, ast.Call) and u(n.value.func) == "self.v" and len(n.value.args) > 1 and isinstance(n.value.args[1], ast.Constant):
            init_keys[n.targets[0].attr] = (n.value.args[1].value, n)
    read_attrs = set()
    for name, f in cm.items():
        for x in ast.walk(f):
            if isinstance(x, ast.Attribute) and isinstance(x.value, ast.Name) and x.value.id in ("baseline_stats", "contender_stats", "stats") and x.attr in init_keys:
                read_attrs.add(x.attr)
            if isinstance(x, ast.Call) and dotted(x.func) == "getattr" and len(x.args) >= 2 and isinstance(x.args[1], ast.JoinedStr):
                suffix = "".join(str(v.value) for v in x.args[1].values if isinstance(v, ast.Constant))
                read_attrs |= {a_ for a_ in init_keys if suffix and a_.endswith(suffix)}
    for a_ in sorted(read_attrs):
        k_, n_ = init_keys[a_]
        chk.ob("O20.2", f"compared statistic `{a_}` is read back from the stored key of the same name", k_ == a_, n_, f"GlobalStats.{a_} <- key '{k_}'", key=f"esrally/metrics.py:GlobalStats.__init__:{a_}")
    chk.ob("O20.2", "compared statistics located in the results class", len(read_attrs) >= 30, gsi, f"{len(read_attrs)} attribute(s)")
    # the Diff column is formatter(contender - baseline) while the value columns show formatter(baseline) / formatter(contender): that is the same difference only for a LINEAR
    # formatter (a fixed unit conversion). A formatter that picks its unit per value (by magnitude) scales the three numbers independently.
    cv = repo.module("esrally/utils/convert.py")
    chk.use(cv)

    def _nonlinear(fn, vparam, depth=0):
        """the convert function compares its value (or something derived from it) by magnitude, directly or through another convert function."""
        derived = {vparam}
        for _ in range(3):
            for n in walk_body(fn):
                if isinstance(n, ast.Assign) and any(isinstance(x, ast.Name) and x.id in derived for x in ast.walk(n.value)):
                    for t in n.targets:
                        derived |= {x.id for x in ast.walk(t) if isinstance(x, ast.Name)}
        for n in walk_body(fn):
            if isinstance(n, ast.Compare) and any(isinstance(o, (ast.Lt, ast.Gt, ast.LtE, ast.GtE)) for o in n.ops) and any(isinstance(x, ast.Name) and x.id in derived for x in ast.walk(n)):
                return True
            if isinstance(n, ast.Call) and isinstance(n.func, ast.Name) and depth < 3 and any(isinstance(x, ast.Name) and x.id in derived for a_ in n.args for x in ast.walk(a_)):
                try:
                    callee = cv.func(n.func.id)
                except AnchorMissing:
                    continue
                pos = next((i_ for i_, a_ in enumerate(n.args) if any(isinstance(x, ast.Name) and x.id in derived for x in ast.walk(a_))), 0)
                cps_ = params_of(callee)
                if pos < len(cps_) and _nonlinear(callee, cps_[pos], depth + 1):
                    return True
        return False

    n_fmt = 0
    for f, c in sites:
        fm = bind_args(c, line).get("formatter")
        if fm is None:
            continue
        n_fmt += 1
        verdict, why = True, "linear"
        tgt, nbound = fm, 0
        if isinstance(fm, ast.Call) and last_attr(fm.func) == "partial" and fm.args:
            tgt, nbound = fm.args[0], len(fm.args) - 1
        if isinstance(tgt, ast.Lambda):
            verdict = not any(isinstance(x, (ast.Compare, ast.IfExp, ast.Call)) for x in ast.walk(tgt.body))
            why = "lambda"
        elif isinstance(tgt, ast.Call) and dotted(tgt.func) == "convert.factor":
            why = "constant factor"
        elif (dotted(tgt) or "").startswith("convert."):
            try:
                fn_ = cv.func(dotted(tgt).split(".", 1)[1])
                ps_ = params_of(fn_)
                verdict = nbound < len(ps_) and not _nonlinear(fn_, ps_[nbound])
                why = f"convert.{fn_.name}" + ("" if verdict else " chooses its scale from the magnitude of the value")
            except AnchorMissing:
                verdict, why = False, f"{dotted(tgt)} not found in convert.py"
        else:
            verdict, why = False, f"unrecognised formatter {short(fm, 40)}"
        chk.ob("O20.3", f"{f.name}: the line's formatter is a fixed (linear) unit conversion", verdict, c, why + ("" if verdict else ": baseline, contender and their difference are each scaled to their own unit, so the Diff column is not contender minus baseline in the line's unit"),
               key=f"{_R}:ComparisonReporter.{f.name}:linear-formatter:{label_text(bind_args(c, line).get('metric')) or '?'}")
    chk.ob("O20.3", "formatters of comparison lines located", n_fmt >= 10, line, f"{n_fmt} line(s) with a formatter")
    # list-valued statistics are paired by id in nested loops (for b in baseline.X: for c in contender.X: if c[K] == <id>): the id compared with is the one of the CURRENT baseline
    # element — bound inside this outer loop from its loop variable (a name left over from an earlier loop pairs every element with the last one of that loop)
    n_pair = 0
    for name, f in cm.items():
        for outer in [n for n in walk_body(f) if isinstance(n, ast.For) and isinstance(n.target, ast.Name)]:
            for inner in [n for n in outer.body if isinstance(n, ast.For) and isinstance(n.target, ast.Name)]:
                for t in [n for n in ast.walk(inner) if isinstance(n, ast.If)]:
                    m_ = pat.match(t.test, "V_c[E_k] == V_id", binds={"c": inner.target.id})
                    if m_ is None:
                        direct = pat.match(t.test, "V_c[E_k] == V_b[E_k2]", binds={"c": inner.target.id, "b": outer.target.id})
                        if direct is not None:
                            n_pair += 1
                            chk.ob("O20.2", f"{name}: `{u(inner.iter)}` paired with the current element of `{u(outer.iter)}`", direct["k"] == direct["k2"], t, u(t.test))
                        continue
                    n_pair += 1
                    idv = m_["id"]
                    binds_here = [n for n in outer.body if isinstance(n, ast.Assign) and any(isinstance(x, ast.Name) and x.id == idv for x in n.targets)
                                  and pat.match(n.value, f"V_b[{m_['k']}]", binds={"b": outer.target.id}) is not None and n.lineno < inner.lineno]
                    ok = len(binds_here) == 1
                    chk.ob("O20.2", f"{name}: `{u(inner.iter)}` paired with the current element of `{u(outer.iter)}`", ok, t,
                           f"`{u(t.test)}`" + ("" if ok else f": `{idv}` is not bound from `{outer.target.id}[{m_['k']}]` inside this loop — it still holds the value an earlier loop left behind"),
                           key=f"{_R}:ComparisonReporter.{name}:pairing:{u(outer.iter)}")
    chk.ob("O20.2", "id-paired statistics located", n_pair >= 5, rep, f"{n_pair} pairing test(s)")
    # asymmetric None guards -> advisory
    for name, f in cm.items():
        for n in walk_body(f):
            if isinstance(n, ast.If) and isinstance(n.test, ast.Compare) and isinstance(n.test.ops[0], ast.Is) and "baseline" in u(n.test.left) and any(isinstance(x, ast.Return) for x in n.body):
                twin = u(n.test.left).replace("baseline", "contender")
                if not any(isinstance(m, ast.If) and twin in u(m.test) for m in walk_body(f)):
                    chk.adv("O20.5", f"{name}: baseline value guarded for None but the contender's `{twin}` is not", n)


from sa.selftest import V  # noqa: E402

VARIANTS = [
    V("flip direction: mean throughput", "break", _R, 'self._line("Mean Throughput", b_mean, c_mean, task, b_unit, treat_increase_as_improvement=True),', 'self._line("Mean Throughput", b_mean, c_mean, task, b_unit, treat_increase_as_improvement=False),', "O20.1"),
    V("flip direction: store size", "break", _R, '                "Store size",\n                baseline_stats.store_size,\n                contender_stats.store_size,\n                "",\n                "GB",\n                treat_increase_as_improvement=False,', '                "Store size",\n                baseline_stats.store_size,\n                contender_stats.store_size,\n                "",\n                "GB",\n                treat_increase_as_improvement=True,', "O20.1"),
    V("seed m2: transform throughput direction", "break", _R, '                            "Transform throughput",\n                            baseline["mean"],\n                            contender["mean"],\n                            transform_id,\n                            baseline["unit"],\n                            treat_increase_as_improvement=True,', '                            "Transform throughput",\n                            baseline["mean"],\n                            contender["mean"],\n                            transform_id,\n                            baseline["unit"],\n                            treat_increase_as_improvement=False,', "O20.1"),
    V("swap operands: segment count", "break", _R, '                "Segment count",\n                baseline_stats.segment_count,\n                contender_stats.segment_count,', '                "Segment count",\n                contender_stats.segment_count,\n                baseline_stats.segment_count,', "O20.2"),
    V("contender median from baseline", "break", _R, '        c_median = contender_stats.metrics(task)["throughput"]["median"]', '        c_median = baseline_stats.metrics(task)["throughput"]["median"]', "O20.2"),
    V("GC helper reads baseline twice", "break", _R, '                getattr(contender_stats, f"{metric_prefix}_gc_time"),', '                getattr(baseline_stats, f"{metric_prefix}_gc_time"),', "O20.2"),
    V("baseline - contender", "break", _R, "            diff = formatter(contender - baseline)", "            diff = formatter(baseline - contender)", "O20.3"),
    V("divide by contender", "break", _R, "            diff = _safe_divide(contender - baseline, abs(baseline)) * 100.0", "            diff = _safe_divide(contender - baseline, abs(contender)) * 100.0", "O20.3"),
    V("green/red swapped in the decrease arm", "break", _R, "        else:\n            color_greater = console.format.red\n            color_smaller = console.format.green", "        else:\n            color_greater = console.format.green\n            color_smaller = console.format.red", "O20.3"),
    V("> instead of >= on one side", "break", _R, "        if printed > 0:", "        if printed >= 0:", "O20.3"),
    V("seed m1: neutral colour hoisted out of the plain arm", "break", _R, "            color_neutral = identity\n        elif treat_increase_as_improvement:", "            color_neutral = console.format.neutral\n        elif treat_increase_as_improvement:", "O20.3"),
    V("plain/rich swapped at the writer", "break", _R, "        self._write_report(metric_table_plain, metric_table_rich)", "        self._write_report(metric_table_rich, metric_table_plain)", "O20.4"),
    V("file gets the rich data", "break", _R, "            f.writelines(formatter(headers, data_plain))", "            f.writelines(formatter(headers, data_rich))", "O20.4"),
    V("line when either present", "break", _R, "        if baseline is not None and contender is not None:", "        if baseline is not None or contender is not None:", "O20.5"),
    V("seed m3: truthiness guard on a scalar metric", "break", _R, "        if baseline_stats.ingest_pipeline_cluster_failed is None:", "        if not baseline_stats.ingest_pipeline_cluster_failed:", "O20.5"),
    V("line guard by truthiness", "break", _R, "        if baseline is not None and contender is not None:", "        if baseline and contender:", "O20.5"),
    # preserving
    V("locals renamed", "keep", _R, "b_median", "base_median", count=2),
    V("strict mirrored thresholds", "keep", _R, "        if printed > 0:\n            return color_greater(f\"+{formatted}\")\n        elif printed < 0:", "        if printed >= 10**-precision:\n            return color_greater(f\"+{formatted}\")\n        elif printed <= -(10**-precision):"),
    V("De Morgan line guard", "keep", _R, "        if baseline is not None and contender is not None:", "        if not (baseline is None or contender is None):"),
    # hunt F31 (aff9c7a): relative difference over the signed baseline
    V("F31 reverted: relative difference divided by the signed baseline", "break", _R, "_safe_divide(contender - baseline, abs(baseline)) * 100.0", "_safe_divide(contender - baseline, baseline) * 100.0", "O20.3"),
    V("F31 respelled: magnitude by conditional negation, no helper", "keep", _R, "            diff = _safe_divide(contender - baseline, abs(baseline)) * 100.0",
      "            magnitude = -baseline if baseline < 0 else baseline\n            diff = ((contender - baseline) / magnitude if magnitude != 0 else 0) * 100.0"),
    V("F31 respelled: sign restored after dividing by the signed baseline", "keep", _R, "            diff = _safe_divide(contender - baseline, abs(baseline)) * 100.0",
      "            diff = _safe_divide(contender - baseline, baseline) * (100.0 if baseline > 0 else -100.0) + 0.0"),
    # hunt F33 (9732d2d): neutral band decided on the unrounded value
    V("F33 reverted: neutral band on the unrounded difference", "break", _R, "        if printed > 0:\n            return color_greater(f\"+{formatted}\")\n        elif printed < 0:",
      "        if diff >= 10**-precision:\n            return color_greater(f\"+{formatted}\")\n        elif diff <= -(10**-precision):", "O20.3"),
    V("F33 respelled: printed value parsed from the formatted text", "keep", _R, "        printed = float(f\"{diff:.{precision}f}\")", "        printed = float(formatted.rstrip(\"%\"))"),
    V("F33 respelled: zero test on the digits of the text", "keep", _R, "        if printed > 0:\n            return color_greater(f\"+{formatted}\")\n        elif printed < 0:",
      "        if printed == 0:\n            return color_neutral(formatted)\n        elif diff > 0:\n            return color_greater(f\"+{formatted}\")\n        elif diff < 0:"),
    # hunt F32 (7f539ff): optional members of a task result read by subscript
    V("F32 reverted: baseline throughput mean by subscript", "break", _R, '        b_mean = baseline_stats.metrics(task)["throughput"].get("mean")', '        b_mean = baseline_stats.metrics(task)["throughput"]["mean"]', "O20.5"),
    V("F32 reverted: contender processing time by subscript", "break", _R, '        contender_processing_time = contender_stats.metrics(task).get("processing_time") or {}', '        contender_processing_time = contender_stats.metrics(task)["processing_time"]', "O20.5"),
    V("F32 half repaired: processing time read with .get() but None handed to the percentile helper", "break", _R, '        baseline_processing_time = baseline_stats.metrics(task).get("processing_time") or {}', '        baseline_processing_time = baseline_stats.metrics(task).get("processing_time")', "O20.5"),
    [V("F32 respelled: explicit defaults (both races)", "keep", _R, '        c_mean = contender_stats.metrics(task)["throughput"].get("mean")', '        c_mean = contender_stats.metrics(task)["throughput"].get("mean", None)'),
     V("", "keep", _R, '        b_mean = baseline_stats.metrics(task)["throughput"].get("mean")', '        b_mean = baseline_stats.metrics(task)["throughput"].get("mean", None)')],
    [V("F32 respelled: membership test instead of .get() (both races)", "keep", _R, '        baseline_processing_time = baseline_stats.metrics(task).get("processing_time") or {}',
       '        baseline_processing_time = (baseline_stats.metrics(task)["processing_time"] if "processing_time" in baseline_stats.metrics(task) else None) or {}'),
     V("", "keep", _R, '        contender_processing_time = contender_stats.metrics(task).get("processing_time") or {}',
       '        contender_processing_time = (contender_stats.metrics(task)["processing_time"] if "processing_time" in contender_stats.metrics(task) else None) or {}')],
    # benign x7: the divisor is a magnitude since F31, `d > 0` and `d` decide alike
    V("zero-safe division tests d > 0 (divisor is |baseline|)", "keep", _R, "            return n / d if d else 0", "            return n / d if d > 0 else 0"),
]
