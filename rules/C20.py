"""C20 — race comparison reports signed differences with the right direction (DESIGN.md section 4, C20)."""
from __future__ import annotations

import ast
import itertools

from sa import source
from sa.cfg import guards
from sa.source import AnchorMissing, arg_of, bind_args, dotted, is_self_attr, last_attr, local_defs, params_of, short, u, walk_body
from sa.sym import UnknownAtom, atoms_of, bool_eval, comparison, parse_expr, rat_equal
from sa.tables import Unsupported, decide

_R = "esrally/reporter.py"


def label_text(e):
    """constant text of a metric label (string, f-string heads, '%'-format left side)."""
    if isinstance(e, ast.Constant) and isinstance(e.value, str):
        return e.value
    if isinstance(e, ast.JoinedStr):
        return "".join(p.value if isinstance(p, ast.Constant) else "{}" for p in e.values)
    if isinstance(e, ast.BinOp) and isinstance(e.op, ast.Mod):
        return label_text(e.left)
    return None


class Roles:
    """Which of the two compared races (B = baseline, C = contender) an expression's value can come from."""

    def __init__(self, cls_methods, line_names):
        self.methods = cls_methods
        self.param_roles: dict[tuple[str, str], set] = {}
        self.line_names = line_names

    def env_for(self, func, outer=None):
        env = dict(outer or {})
        for p in params_of(func):
            r = self.param_roles.get((func.name, p))
            if r is not None:
                env[p] = set(r)
        # locals: iterate to a fixed point
        for _ in range(4):
            for n in source.walk_local(func, include_root=False) if False else walk_body(func):
                if isinstance(n, ast.Assign):
                    d = self.deps(n.value, env)
                    for t in n.targets:
                        for x in ast.walk(t):
                            if isinstance(x, ast.Name):
                                env[x.id] = env.get(x.id, set()) | d
                            elif isinstance(x, ast.Subscript) and isinstance(x.value, ast.Name):
                                env[x.value.id] = env.get(x.value.id, set()) | d
                elif isinstance(n, (ast.For, ast.comprehension)):
                    d = self.deps(n.iter, env)
                    for x in ast.walk(n.target):
                        if isinstance(x, ast.Name):
                            env[x.id] = env.get(x.id, set()) | d
                elif isinstance(n, ast.Call) and isinstance(n.func, ast.Attribute) and n.func.attr in ("append", "extend", "setdefault", "add") and isinstance(n.func.value, ast.Name):
                    d = set()
                    for a in n.args:
                        d |= self.deps(a, env)
                    env[n.func.value.id] = env.get(n.func.value.id, set()) | d
        return env

    def deps(self, e, env):
        if e is None:
            return set()
        if isinstance(e, ast.Name):
            return set(env.get(e.id, set()))
        if isinstance(e, ast.Attribute):
            return self.deps(e.value, env)
        if isinstance(e, ast.Subscript):
            return self.deps(e.value, env)  # the container decides the role, not the key
        if isinstance(e, ast.Call):
            if isinstance(e.func, ast.Attribute) and e.func.attr in ("get", "metrics", "items", "values", "keys", "tasks") and not (isinstance(e.func.value, ast.Name) and e.func.value.id == "self"):
                return self.deps(e.func.value, env)
            if dotted(e.func) == "getattr":
                return self.deps(e.args[0], env)
            d = set()
            for a in list(e.args) + [k.value for k in e.keywords]:
                d |= self.deps(a, env)
            if isinstance(e.func, ast.Attribute) and not (isinstance(e.func.value, ast.Name) and e.func.value.id == "self"):
                d |= self.deps(e.func.value, env)
            return d
        if isinstance(e, ast.Constant):
            return set()
        d = set()
        for c in ast.iter_child_nodes(e):
            if isinstance(c, ast.expr):
                d |= self.deps(c, env)
        return d


def run(chk):
    repo = chk.repo
    rp = repo.module(_R)
    chk.use(rp, "docs/tournament.rst")
    chk.explanation = (
        "Decides the comparison report by tables: every comparison-line construction passes a constant direction flag that is increase-is-improvement iff the label names a throughput; "
        "role dataflow (through locals, loops, getattr, helper methods and nested helpers) shows the baseline operand depends only on the baseline race and the contender operand only on "
        "the contender race; _diff abstractly interpreted over {plain, increase-good, decrease-good} x {d >= thr, d <= -thr, between} with d == contender - baseline (absolute and relative, "
        "zero-safe division), mirrored thresholds 10^-precision, '+' on positive values; plain flag read only for colour selection; same formatter for file (plain) and console (rich); "
        "a line only when both values are not None; scalar metric guards use `is None`, not truthiness."
    )
    chk.not_decided = "numeric formatting, tabulate output, the content of the race results themselves."
    CR = rp.cls("ComparisonReporter")
    cm = rp.methods(CR)
    line = cm.get("_line")
    diff = cm.get("_diff")
    mt = cm.get("_metrics_table")
    rep = cm.get("report")
    if not all([line, diff, mt, rep]):
        raise AnchorMissing("ComparisonReporter._line/_diff/_metrics_table/report")

    # call sites of _line (self._line or a local alias of it), including nested helper functions
    sites = []
    for name, f in cm.items():
        aliases = {"self._line"}
        for n in ast.walk(f):
            if isinstance(n, ast.Assign) and u(n.value) == "self._line" and isinstance(n.targets[0], ast.Name):
                aliases.add(n.targets[0].id)
        for n in ast.walk(f):
            if isinstance(n, ast.Call) and u(n.func) in aliases:
                sites.append((f, n))

    # ---- O20.1 direction table -------------------------------------------------------------------------------------------------------
    chk.rule("O20.1", "every comparison-line construction passes a constant direction flag: increase-is-improvement iff the metric label names a throughput; all others "
             "(latency, times, error rate, sizes, counts) decrease-is-improvement", 35,
             "an improvement of that metric is coloured as a regression (and vice versa)")
    n_thr = 0
    for f, c in sites:
        b = bind_args(c, line)
        lab = label_text(b.get("metric")) if b.get("metric") is not None else None
        flag = b.get("treat_increase_as_improvement")
        if lab is None:
            chk.unknown("O20.1", f"metric label of {short(c, 60)} is not a (formatted) string constant", c)
            continue
        is_thr = "throughput" in lab.lower()
        n_thr += is_thr
        ok = isinstance(flag, ast.Constant) and isinstance(flag.value, bool) and flag.value == is_thr
        chk.ob("O20.1", f"'{lab}': {'higher' if is_thr else 'lower'} is better", ok, c, f"flag={u(flag) if flag is not None else None}", key=f"{_R}:{source.qualname(c)}:direction:{lab}")
    chk.ob("O20.1", "throughput lines located", n_thr >= 5, CR, f"{n_thr} throughput line(s) of {len(sites)}")

    # ---- O20.2 operand roles -------------------------------------------------------------------------------------------------------------
    chk.rule("O20.2", "at each comparison line the baseline operand depends only on the baseline race and the contender operand only on the contender race "
             "(role dataflow from report(): first race = baseline, second = contender)", 35,
             "baseline and contender swapped for one metric: the sign and colour of its difference are inverted")
    roles = Roles(cm, None)
    # roots: report(r1, r2) -> GlobalStats(r1.results) / GlobalStats(r2.results) -> _metrics_table(b, c, plain)
    rps = params_of(rep)
    roles.param_roles[("report", rps[1])] = {"B"}
    roles.param_roles[("report", rps[2])] = {"C"}
    changed = True
    it = 0
    while changed and it < 8:
        changed = False
        it += 1
        for name, f in cm.items():
            env = roles.env_for(f)
            nested = [n for n in ast.walk(f) if isinstance(n, (ast.FunctionDef,)) and n is not f]
            for n in ast.walk(f):
                if isinstance(n, ast.Call) and isinstance(n.func, ast.Attribute) and isinstance(n.func.value, ast.Name) and n.func.value.id == "self" and n.func.attr in cm and n.func.attr not in ("_line", "_diff", "_join", "_append_non_empty"):
                    callee = cm[n.func.attr]
                    for p, a in bind_args(n, callee).items():
                        d = roles.deps(a, env)
                        old = roles.param_roles.get((callee.name, p), set())
                        if not d <= old:
                            roles.param_roles[(callee.name, p)] = old | d
                            changed = True
    for f, c in sites:
        # environment: method env, plus nested-function parameters (role-free) when the site is in a nested helper
        env = roles.env_for(f)
        inner = source.enclosing_func(c)
        if inner is not f and inner is not None:
            env = roles.env_for(inner, outer=env)
        b = bind_args(c, line)
        db, dc = roles.deps(b.get("baseline"), env), roles.deps(b.get("contender"), env)
        lab = label_text(b.get("metric")) or "?"
        ok = db == {"B"} and dc == {"C"}
        chk.ob("O20.2", f"'{lab}': operands", ok, c, f"baseline operand `{short(b.get('baseline'), 50)}` <- {sorted(db)}; contender operand `{short(b.get('contender'), 50)}` <- {sorted(dc)}",
               key=f"{_R}:{source.qualname(c)}:roles:{lab}")
    # report(): GlobalStats(r1.results) first
    mcalls = [n for n in walk_body(rep) if isinstance(n, ast.Call) and u(n.func) == "self._metrics_table"]
    renv = roles.env_for(rep)
    ok = len(mcalls) == 2 and all(roles.deps(c.args[0], renv) == {"B"} and roles.deps(c.args[1], renv) == {"C"} for c in mcalls)
    chk.ob("O20.2", "both tables built from (baseline, contender) in that order", ok, mcalls[0] if mcalls else rep, "")

    # ---- O20.3 difference and colours ----------------------------------------------------------------------------------------------------------------
    chk.rule("O20.3", "_diff: d == contender - baseline (absolute: formatter(c - b); relative: (c - b) / b * 100, zero-safe); thresholds +-10^-precision with mirrored comparators; "
             "colour table plain -> identity x3, increase-good -> (+green, -red), decrease-good -> (+red, -green), between -> neutral; positive values get '+'", 14,
             "self-comparison not neutral, swapping the races does not flip sign/colour, or improvement/regression colours exchanged")
    dp = params_of(diff)
    bpar, cpar, flagp = dp[1], dp[2], dp[3]
    # colour selection as a decision over (plain, increase-good)
    sel_if = [n for n in diff.body if isinstance(n, ast.If) and any(isinstance(x, ast.Assign) and isinstance(x.targets[0], ast.Name) and x.targets[0].id.startswith("color") for x in ast.walk(n))]
    if not sel_if:
        raise AnchorMissing("colour selection in _diff")
    want_tab = {(True, True): ("identity", "identity", "identity"), (True, False): ("identity", "identity", "identity"),
                (False, True): ("console.format.green", "console.format.red", "console.format.neutral"), (False, False): ("console.format.red", "console.format.green", "console.format.neutral")}
    colvars = None
    for plain, inc in itertools.product([True, False], repeat=2):
        def atom(n, env):
            t = u(n)
            if t == "self.plain":
                return plain
            if t == flagp:
                return inc
            return None

        try:
            pre = [s for s in diff.body[: diff.body.index(sel_if[0])] if isinstance(s, ast.Assign)]
            out = decide(pre + [sel_if[0]], atom, {})
        except (Unsupported, UnknownAtom) as e:
            chk.unknown("O20.3", f"colour selection is not a decision over (plain, direction): {e}", sel_if[0])
            break
        bnd = getattr(out, "bindings", {})
        names = sorted(k for k in bnd if k.startswith("color"))
        g_, s_, n_ = (u(bnd.get("color_greater")) if bnd.get("color_greater") is not None else None, u(bnd.get("color_smaller")) if bnd.get("color_smaller") is not None else None,
                      u(bnd.get("color_neutral")) if bnd.get("color_neutral") is not None else None)
        mode = "plain" if plain else ("increase is improvement" if inc else "decrease is improvement")
        chk.ob("O20.3", f"colours for {mode}{' (flag ' + str(inc) + ')' if plain else ''}", (g_, s_, n_) == want_tab[(plain, inc)], sel_if[0], f"(+, -, 0) -> ({g_}, {s_}, {n_}); expected {want_tab[(plain, inc)]}",
               key=f"{_R}:_diff:colours:{plain}|{inc}")
    idf = [n for n in diff.body if isinstance(n, ast.FunctionDef) and n.name == "identity"]
    ok = bool(idf) and len(idf[0].body) == 1 and isinstance(idf[0].body[0], ast.Return) and u(idf[0].body[0].value) == params_of(idf[0])[0]
    chk.ob("O20.3", "identity returns its argument", ok, idf[0] if idf else diff, "")
    # difference formulas
    dif_if = [n for n in diff.body if isinstance(n, ast.If) and u(n.test) == "as_percentage"]
    if not dif_if:
        raise AnchorMissing("absolute/relative branch in _diff")
    D = dif_if[0]
    rel = [n for n in D.body if isinstance(n, ast.Assign) and u(n.targets[0]) == "diff"]
    ab = [n for n in D.orelse if isinstance(n, ast.Assign) and u(n.targets[0]) == "diff"]
    sd = [n for n in diff.body if isinstance(n, ast.FunctionDef) and n.name == "_safe_divide"]
    ok = False
    if rel and sd:
        v = rel[0].value
        # _safe_divide(c - b, b) * 100.0
        if isinstance(v, ast.BinOp) and isinstance(v.op, ast.Mult):
            callp, factor = (v.left, v.right) if isinstance(v.left, ast.Call) else (v.right, v.left)
            ok = isinstance(callp, ast.Call) and u(callp.func) == "_safe_divide" and rat_equal(callp.args[0], parse_expr(f"{cpar} - {bpar}")) and u(callp.args[1]) == bpar and isinstance(factor, ast.Constant) and factor.value == 100
    chk.ob("O20.3", "relative difference == (contender - baseline) / baseline * 100", ok, rel[0] if rel else D, short(rel[0], 80) if rel else "")
    ok = False
    if sd:
        r = [n for n in walk_body(sd[0]) if isinstance(n, ast.Return)]
        n_, d_ = params_of(sd[0])
        if len(r) == 1 and isinstance(r[0].value, ast.IfExp):
            ie = r[0].value
            ok = rat_equal(ie.body, parse_expr(f"{n_} / {d_}")) and u(ie.test) in (d_, f"{d_} != 0") and source.is_const(ie.orelse, 0)
    chk.ob("O20.3", "division is zero-safe (0 when the baseline is 0)", ok, sd[0] if sd else diff, "")
    ok = bool(ab) and isinstance(ab[0].value, ast.Call) and u(ab[0].value.func) == "formatter" and rat_equal(ab[0].value.args[0], parse_expr(f"{cpar} - {bpar}"))
    chk.ob("O20.3", "absolute difference == formatter(contender - baseline)", ok, ab[0] if ab else D, short(ab[0], 80) if ab else "")
    # final decision evaluated over the five positions of d relative to the threshold t = 10^-precision: d in {2t, t, 0, -t, -2t}, in both modes.
    # Tests are evaluated on values (the difference operand is the one whose definition depends on the operands), so arm order, comparison orientation
    # and local names are irrelevant.
    from sa import minieval
    sel_i = diff.body.index(sel_if[0])
    tail = [s_ for s_ in diff.body[sel_i + 1:] if not isinstance(s_, ast.FunctionDef)]
    inputs = {bpar, cpar}

    def depends_on_inputs(e, b, depth=0):
        for n in ast.walk(e):
            if isinstance(n, ast.Name):
                if n.id in inputs:
                    return True
                if depth < 6 and b.get(n.id) is not None and depends_on_inputs(b[n.id], b, depth + 1):
                    return True
        return False

    def value_of(e, b, depth=0):
        env = {}
        for n in ast.walk(e):
            if isinstance(n, ast.Name) and n.id not in env and b.get(n.id) is not None and depth < 6:
                env[n.id] = value_of(b[n.id], b, depth + 1)
        return minieval.ev(e, env)

    def flat_fstring(e, b, depth=0):
        """[('lit', text) | ('val', expr)] of an f-string with local names bound to f-strings expanded."""
        out = []
        if isinstance(e, ast.JoinedStr):
            for v in e.values:
                if isinstance(v, ast.Constant):
                    out.append(("lit", str(v.value)))
                elif isinstance(v, ast.FormattedValue):
                    if isinstance(v.value, ast.Name) and isinstance(b.get(v.value.id), ast.JoinedStr) and v.format_spec is None and depth < 4:
                        out += flat_fstring(b[v.value.id], b, depth + 1)
                    else:
                        out.append(("val", v))
        elif isinstance(e, ast.Name) and isinstance(b.get(e.id), ast.JoinedStr) and depth < 4:
            out += flat_fstring(b[e.id], b, depth + 1)
        else:
            out.append(("val", e))
        return out

    table = {}
    thr_vals = {}
    failed = None
    for pct in (True, False):
        for k in (2, 1, 0, -1, -2):
            cur = {}

            def hook(s_, env, b):
                cur["b"] = b
                return None

            def atom(n, env):
                b = cur.get("b", {})
                if isinstance(n, ast.Name) and n.id == dp[5]:
                    return pct
                if isinstance(n, ast.Compare) and len(n.ops) == 1:
                    sides = [n.left, n.comparators[0]]
                    dep = [depends_on_inputs(x, b) for x in sides]
                    if dep.count(True) != 1:
                        return None
                    other = sides[1 - dep.index(True)]
                    t = value_of(other, b)
                    thr_vals[pct] = abs(t)
                    d = k * abs(t)
                    l_, r_ = (d, t) if dep[0] else (t, d)
                    return minieval._CMP[type(n.ops[0])](l_, r_)
                return None

            try:
                pre = [s_ for s_ in diff.body[:sel_i] if isinstance(s_, ast.Assign)]
                out = decide(pre + [sel_if[0]] + tail, lambda n, env: (False if u(n) == "self.plain" else (True if u(n) == flagp else atom(n, env))), {}, on_stmt=hook)
            except (Unsupported, UnknownAtom, minieval.CannotEval) as e:
                failed = f"{type(e).__name__}: {e}"
                break
            if out.kind != "return" or not isinstance(out.value, ast.Call) or len(out.value.args) != 1:
                failed = f"outcome for d = {k}t is {out.text()[:60]}, not a call of a colour function"
                break
            bnd = getattr(out, "bindings", {})
            fn = out.value.func
            fn_t = u(bnd[fn.id]) if isinstance(fn, ast.Name) and bnd.get(fn.id) is not None else u(fn)
            parts = flat_fstring(out.value.args[0], bnd)
            lead = "".join(t for kind, t in parts[: next((i for i, p_ in enumerate(parts) if p_[0] == "val"), len(parts))])
            firstval = next((p_[1] for p_ in parts if p_[0] == "val"), None)
            shows_d = firstval is not None and depends_on_inputs(firstval.value if isinstance(firstval, ast.FormattedValue) else firstval, bnd)
            spec = ""
            if isinstance(firstval, ast.FormattedValue) and firstval.format_spec is not None:
                try:
                    spec = minieval.ev(firstval.format_spec, {k_: value_of(v_, bnd) for k_, v_ in bnd.items() if isinstance(v_, ast.Constant)})
                except minieval.CannotEval:
                    spec = u(firstval.format_spec)
            table[(pct, k)] = (fn_t, lead, shows_d, spec, bnd)
        if failed:
            break
    final = [n for n in tail if isinstance(n, ast.If) and any(isinstance(x, ast.Return) for x in ast.walk(n))]
    fnode = final[-1] if final else diff
    if failed:
        chk.unknown("O20.3", f"final colour decision of _diff cannot be evaluated over d in (2t, t, 0, -t, -2t): {failed}", fnode)
    else:
        G, S, N = "console.format.green", "console.format.red", "console.format.neutral"  # flag == True (increase is improvement)
        for pct in (True, False):
            mode = "relative" if pct else "absolute"
            bnd = table[(pct, 2)][4]
            pv = None
            import math
            import re as _re
            if pct in thr_vals and thr_vals[pct] > 0:
                pv = -math.log10(thr_vals[pct])
            spec = table[(pct, 0)][3]
            sm_ = _re.fullmatch(r"\.(\d+)f", spec or "")
            ok = pv is not None and abs(pv - round(pv)) < 1e-9 and sm_ is not None and int(sm_.group(1)) == round(pv)
            chk.ob("O20.3", f"threshold == 10^-precision of the printed format ({mode})", ok, fnode, f"threshold {thr_vals.get(pct)}; format spec {spec!r}", key=f"{_R}:_diff:threshold:{mode}")
            hi, at_hi, mid, at_lo, lo = (table[(pct, k)] for k in (2, 1, 0, -1, -2))
            chk.ob("O20.3", f"d > thr -> colour for increase, '+' prefix ({mode})", hi[0] == G and hi[1] == "+" and hi[2], fnode, f"{hi[0]}, prefix {hi[1]!r}", key=f"{_R}:_diff:above:{mode}")
            chk.ob("O20.3", f"d < -thr -> colour for decrease, no prefix ({mode})", lo[0] == S and lo[1] == "" and lo[2], fnode, f"{lo[0]}, prefix {lo[1]!r}", key=f"{_R}:_diff:below:{mode}")
            chk.ob("O20.3", f"between -> neutral ({mode})", mid[0] == N and mid[1] == "" and mid[2], fnode, f"{mid[0]}, prefix {mid[1]!r}", key=f"{_R}:_diff:between:{mode}")
            mirrored = (at_hi[0], at_lo[0]) in ((G, S), (N, N)) and (at_hi[1] == "+") == (at_hi[0] == G) and at_lo[1] == ""
            chk.ob("O20.3", f"mirrored thresholds: d == thr and d == -thr are both coloured or both neutral ({mode})", mirrored, fnode, f"d == thr -> {at_hi[0]}; d == -thr -> {at_lo[0]}",
                   key=f"{_R}:_diff:mirror:{mode}")
    # _line passes the same operands and flag to both _diff calls, in order
    dcalls = [n for n in walk_body(line) if isinstance(n, ast.Call) and u(n.func) == "self._diff"]
    lp = params_of(line)
    ok = len(dcalls) == 2 and all([u(a) for a in c.args[:4]] == [lp[2], lp[3], lp[6], lp[7]] for c in dcalls) and sum(1 for c in dcalls if any(k.arg == "as_percentage" and source.is_const(k.value, True) for k in c.keywords)) == 1
    chk.ob("O20.3", "_line -> _diff(baseline, contender, flag, formatter) twice (absolute, relative)", ok, line, "")
    row = [n for n in walk_body(line) if isinstance(n, ast.Return) and isinstance(n.value, ast.List) and len(n.value.elts) == 7]
    ok = bool(row) and u(row[0].value.elts[2]) == f"formatter({lp[2]})" and u(row[0].value.elts[3]) == f"formatter({lp[3]})" and u(row[0].value.elts[0]) == lp[1]
    chk.ob("O20.3", "row == [metric, task, baseline, contender, diff, unit, diff %]", ok, row[0] if row else line, "")

    # ---- O20.4 plain vs rich ---------------------------------------------------------------------------------------------------------------------------------
    chk.rule("O20.4", "the plain flag is read only at colour selection; both tables come from the same routine with only that flag differing; the writer applies the same formatter to both "
             "and sends plain to the file, rich to the console", 5,
             "the report file contains colour escape codes or differs from the console output")
    reads = [n for n in ast.walk(CR) if is_self_attr(n, "plain") and isinstance(n.ctx, ast.Load)]
    ok = bool(reads) and all(source.enclosing_func(n) is diff for n in reads)
    chk.ob("O20.4", "self.plain read only in _diff", ok, reads[0] if reads else CR, f"{len(reads)} read(s)")
    # every colour function assigned in the plain arm is identity — covered by the table; additionally no colour call outside _diff
    cols = [n for n in ast.walk(CR) if isinstance(n, ast.Attribute) and u(n).startswith("console.format.") and source.enclosing_func(n) is not diff and source.enclosing_func(n) is not None]
    chk.ob("O20.4", "no colour formatting outside _diff in the comparison reporter", not cols, cols[0] if cols else CR, "")
    ok = len(mcalls) == 2
    if ok:
        a, b = mcalls
        pa, pb = arg_of(a, 2, "plain"), arg_of(b, 2, "plain")
        ok = u(a.args[0]) == u(b.args[0]) and u(a.args[1]) == u(b.args[1]) and isinstance(pa, ast.Constant) and isinstance(pb, ast.Constant) and {pa.value, pb.value} == {True, False}
    chk.ob("O20.4", "both tables from the same routine, only `plain` differs", ok, mcalls[0] if mcalls else rep, "")
    sets = [n for n in walk_body(mt) if isinstance(n, ast.Assign) and any(is_self_attr(t, "plain") for t in n.targets)]
    ok = len(sets) == 1 and u(sets[0].value) == params_of(mt)[3] and mt.body.index(sets[0]) == 0
    chk.ob("O20.4", "_metrics_table sets the flag from its parameter before building lines", ok, sets[0] if sets else mt, "")
    wr = cm.get("_write_report")
    rdefs = local_defs(rep)
    wcall = [n for n in walk_body(rep) if isinstance(n, ast.Call) and u(n.func) == "self._write_report"]
    ok = False
    if wcall and wr is not None and len(mcalls) == 2:
        bw = bind_args(wcall[0], wr)
        wps = params_of(wr)

        def plain_of(e):
            d = rdefs.get(e.id) if isinstance(e, ast.Name) else e
            p_ = arg_of(d, 2, "plain") if isinstance(d, ast.Call) else None
            return p_.value if isinstance(p_, ast.Constant) else None

        wsr = [n for n in walk_body(wr) if isinstance(n, ast.Call) and last_attr(n.func) == "write_single_report"]
        if wsr:
            dp_, dr_ = arg_of(wsr[0], None, "data_plain"), arg_of(wsr[0], None, "data_rich")
            ok = dp_ is not None and dr_ is not None and plain_of(bw[u(dp_)]) is True and plain_of(bw[u(dr_)]) is False
    chk.ob("O20.4", "plain table -> data_plain, rich table -> data_rich", ok, wcall[0] if wcall else rep, "")
    ws = rp.func("write_single_report")
    fm = [n for n in walk_body(ws) if isinstance(n, ast.Call) and u(n.func) == "formatter"]
    to_console = [n for n in fm if isinstance(source.parent(n), ast.Call) and last_attr(source.parent(n).func) == "print_internal"]
    to_file = [n for n in fm if isinstance(source.parent(n), ast.Call) and last_attr(source.parent(n).func) in ("writelines", "write")]
    ok = len(to_console) == 1 and len(to_file) == 1 and u(to_console[0].args[1]) == "data_rich" and u(to_file[0].args[1]) == "data_plain" and u(to_console[0].args[0]) == u(to_file[0].args[0])
    chk.ob("O20.4", "same formatter: rich -> console, plain -> file", ok, ws, "")

    # ---- O20.5 only common metrics --------------------------------------------------------------------------------------------------------------------------------
    chk.rule("O20.5", "a line is emitted only when both values are not None (4-row table); tasks are the intersection; guards on scalar metric values use `is None`, never truthiness (0 is a value)", 6,
             "a metric missing in one race is printed (crash on None arithmetic), or a zero-valued metric present in both races is dropped / breaks swap symmetry")
    row_guard = guards(row[0]) if row else []
    for bn, cn in itertools.product([False, True], repeat=2):
        def atom(n, env):
            t = u(n)
            return {f"{lp[2]} is not None": not bn, f"{lp[3]} is not None": not cn, f"{lp[2]} is None": bn, f"{lp[3]} is None": cn}.get(t)

        try:
            val = all(bool_eval(t, lambda n: atom(n, {})) == pol for t, pol in row_guard) and bool(row_guard)
            chk.ob("O20.5", f"line when baseline {'None' if bn else 'present'}, contender {'None' if cn else 'present'}", val == (not bn and not cn), row[0] if row else line, f"emits: {val}")
        except UnknownAtom as e:
            chk.ob("O20.5", "line guard", False, line, f"guard tests something else than None-ness: {e} (a value of 0 must still be compared)")
    tl = [n for n in walk_body(mt) if isinstance(n, ast.For) and isinstance(n.iter, ast.Call) and last_attr(n.iter.func) == "tasks"]
    ok = False
    detail = ""
    if tl:
        from sa import pat as _pat
        mdefs_ = local_defs(mt)
        tests = [t_ for n_ in ast.walk(tl[0]) if isinstance(n_, ast.If) for t_ in [n_.test] if isinstance(t_, ast.Compare) and len(t_.ops) == 1 and isinstance(t_.ops[0], (ast.In, ast.NotIn)) and u(t_.left) == u(tl[0].target)]
        if tests:
            coll = source.inline_node(tests[0].comparators[0], mdefs_)
            while isinstance(coll, ast.Call) and dotted(coll.func) in ("set", "list", "tuple", "frozenset", "sorted") and len(coll.args) == 1:
                coll = coll.args[0]
            ok = isinstance(coll, ast.Call) and last_attr(coll.func) == "tasks" and u(coll.func.value) != u(tl[0].iter.func.value)
            detail = f"`{u(tl[0].target)}` of {u(tl[0].iter)} kept when in {u(coll)}"
    chk.ob("O20.5", "per-task lines for the intersection of tasks", ok, tl[0] if tl else mt, detail)
    # the task list is consulted once per baseline task: it must be a re-iterable collection (a generator would be exhausted by the first membership test)
    met_ = repo.module("esrally/metrics.py")
    tk_ = met_.methods(met_.cls("GlobalStats")).get("tasks")
    if tk_ is None:
        raise AnchorMissing("GlobalStats.tasks")
    trets = [n for n in walk_body(tk_) if isinstance(n, ast.Return)]
    gen = [r for r in trets if isinstance(r.value, ast.GeneratorExp) or (isinstance(r.value, ast.Call) and dotted(r.value.func) in ("map", "filter", "iter", "zip", "reversed"))] + \
          [n for n in walk_body(tk_) if isinstance(n, (ast.Yield, ast.YieldFrom))]
    chk.ob("O20.5", "GlobalStats.tasks() returns a re-iterable collection", bool(trets) and not gen, gen[0] if gen else tk_,
           "" if not gen else "single-use iterator: after the first membership test in the comparison loop every later common task is missed (and swapping the races changes the set of lines)",
           key="esrally/metrics.py:GlobalStats.tasks:re-iterable")
    from rules.C08 import record_key_agreement

    chk.use(met_)
    record_key_agreement(chk, "O20.5", met_)
    # scalar guards
    n_guard = 0
    for f, c in sites:
        b = bind_args(c, line)
        for side in ("baseline", "contender"):
            opnd = b.get(side)
            if opnd is None or not isinstance(opnd, ast.Attribute):
                continue
            for n in walk_body(f):
                if isinstance(n, ast.If):
                    for a in atoms_of(n.test):
                        if u(a) == u(opnd):
                            chk.ob("O20.5", f"{f.name}: guard on `{u(opnd)}`", False, n, f"`{u(n.test)}` tests the compared value by truthiness: a value of 0 drops the line (and breaks swap symmetry / self-comparison)",
                                   key=f"{_R}:{f.name}:truthiness:{u(opnd)}")
                        c_ = comparison(a)
                        if c_ and u(c_[0]) == u(opnd) and c_[1] in ("is", "is not"):
                            n_guard += 1
                            chk.ob("O20.5", f"{f.name}: `{u(a)}`", True, n, "")
    # asymmetric None guards -> advisory
    for name, f in cm.items():
        for n in walk_body(f):
            if isinstance(n, ast.If) and isinstance(n.test, ast.Compare) and isinstance(n.test.ops[0], ast.Is) and "baseline" in u(n.test.left) and any(isinstance(x, ast.Return) for x in n.body):
                twin = u(n.test.left).replace("baseline", "contender")
                if not any(isinstance(m, ast.If) and twin in u(m.test) for m in walk_body(f)):
                    chk.adv("O20.5", f"{name}: baseline value guarded for None but the contender's `{twin}` is not", n)


from sa.selftest import V  # noqa: E402

VARIANTS = [
    V("flip direction: mean throughput", "break", _R, 'self._line("Mean Throughput", b_mean, c_mean, task, b_unit, treat_increase_as_improvement=True),', 'self._line("Mean Throughput", b_mean, c_mean, task, b_unit, treat_increase_as_improvement=False),', "O20.1"),
    V("flip direction: store size", "break", _R, '                "Store size",\n                baseline_stats.store_size,\n                contender_stats.store_size,\n                "",\n                "GB",\n                treat_increase_as_improvement=False,', '                "Store size",\n                baseline_stats.store_size,\n                contender_stats.store_size,\n                "",\n                "GB",\n                treat_increase_as_improvement=True,', "O20.1"),
    V("seed m2: transform throughput direction", "break", _R, '                            "Transform throughput",\n                            baseline["mean"],\n                            contender["mean"],\n                            transform_id,\n                            baseline["unit"],\n                            treat_increase_as_improvement=True,', '                            "Transform throughput",\n                            baseline["mean"],\n                            contender["mean"],\n                            transform_id,\n                            baseline["unit"],\n                            treat_increase_as_improvement=False,', "O20.1"),
    V("swap operands: segment count", "break", _R, '                "Segment count",\n                baseline_stats.segment_count,\n                contender_stats.segment_count,', '                "Segment count",\n                contender_stats.segment_count,\n                baseline_stats.segment_count,', "O20.2"),
    V("contender median from baseline", "break", _R, '        c_median = contender_stats.metrics(task)["throughput"]["median"]', '        c_median = baseline_stats.metrics(task)["throughput"]["median"]', "O20.2"),
    V("GC helper reads baseline twice", "break", _R, '                getattr(contender_stats, f"{metric_prefix}_gc_time"),', '                getattr(baseline_stats, f"{metric_prefix}_gc_time"),', "O20.2"),
    V("baseline - contender", "break", _R, "            diff = formatter(contender - baseline)", "            diff = formatter(baseline - contender)", "O20.3"),
    V("divide by contender", "break", _R, "            diff = _safe_divide(contender - baseline, baseline) * 100.0", "            diff = _safe_divide(contender - baseline, contender) * 100.0", "O20.3"),
    V("green/red swapped in the decrease arm", "break", _R, "        else:\n            color_greater = console.format.red\n            color_smaller = console.format.green", "        else:\n            color_greater = console.format.green\n            color_smaller = console.format.red", "O20.3"),
    V("> instead of >= on one side", "break", _R, "        if diff >= threshold:", "        if diff > threshold:", "O20.3"),
    V("seed m1: neutral colour hoisted out of the plain arm", "break", _R, "            color_neutral = identity\n        elif treat_increase_as_improvement:", "            color_neutral = console.format.neutral\n        elif treat_increase_as_improvement:", "O20.3"),
    V("plain/rich swapped at the writer", "break", _R, "        self._write_report(metric_table_plain, metric_table_rich)", "        self._write_report(metric_table_rich, metric_table_plain)", "O20.4"),
    V("file gets the rich data", "break", _R, "            f.writelines(formatter(headers, data_plain))", "            f.writelines(formatter(headers, data_rich))", "O20.4"),
    V("line when either present", "break", _R, "        if baseline is not None and contender is not None:", "        if baseline is not None or contender is not None:", "O20.5"),
    V("seed m3: truthiness guard on a scalar metric", "break", _R, "        if baseline_stats.ingest_pipeline_cluster_failed is None:", "        if not baseline_stats.ingest_pipeline_cluster_failed:", "O20.5"),
    V("line guard by truthiness", "break", _R, "        if baseline is not None and contender is not None:", "        if baseline and contender:", "O20.5"),
    # preserving
    V("locals renamed", "keep", _R, "b_median", "base_median", count=2),
    V("strict mirrored thresholds", "keep", _R, "        if diff >= threshold:\n            return color_greater(f\"+{formatted}\")\n        elif diff <= -threshold:", "        if diff > threshold:\n            return color_greater(f\"+{formatted}\")\n        elif diff < -threshold:"),
    V("De Morgan line guard", "keep", _R, "        if baseline is not None and contender is not None:", "        if not (baseline is None or contender is None):"),
]
