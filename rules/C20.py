"""C20 — race comparison reports signed differences with the right direction (DESIGN.md section 4, C20)."""
from __future__ import annotations

import ast
import itertools

from sa import pat, source
from sa.cfg import cfg_of, guards
from sa.source import AnchorMissing, arg_of, bind_args, dotted, is_self_attr, last_attr, local_defs, params_of, short, u, walk_body
from sa.sym import UnknownAtom, atoms_of, bool_eval, comparison, parse_expr, rat_equal
from sa.tables import Unsupported, decide

_R = "esrally/reporter.py"


def label_text(e):
    """constant text of a metric label (string, f-string heads, '%'-format left side)."""
    if isinstance(e, ast.Constant) and isinstance(e.value, str):
        return e.value
    if isinstance(e, ast.JoinedStr):
        return "".join(p.value if isinstance(p, ast.Constant) else "{}" for p in e.values)
    if isinstance(e, ast.BinOp) and isinstance(e.op, ast.Mod):
        return label_text(e.left)
    return None


class Roles:
    """Which of the two compared races (B = baseline, C = contender) an expression's value can come from."""

    def __init__(self, cls_methods, line_names):
        self.methods = cls_methods
        self.param_roles: dict[tuple[str, str], set] = {}
        self.line_names = line_names

    def env_for(self, func, outer=None):
        env = dict(outer or {})
        for p in params_of(func):
            r = self.param_roles.get((func.name, p))
            if r is not None:
                env[p] = set(r)
        # locals: iterate to a fixed point
        for _ in range(4):
            for n in source.walk_local(func, include_root=False) if False else walk_body(func):
                if isinstance(n, ast.Assign):
                    d = self.deps(n.value, env)
                    for t in n.targets:
                        for x in ast.walk(t):
                            if isinstance(x, ast.Name):
                                env[x.id] = env.get(x.id, set()) | d
                            elif isinstance(x, ast.Subscript) and isinstance(x.value, ast.Name):
                                env[x.value.id] = env.get(x.value.id, set()) | d
                elif isinstance(n, (ast.For, ast.comprehension)):
                    d = self.deps(n.iter, env)
                    for x in ast.walk(n.target):
                        if isinstance(x, ast.Name):
                            env[x.id] = env.get(x.id, set()) | d
                elif isinstance(n, ast.Call) and isinstance(n.func, ast.Attribute) and n.func.attr in ("append", "extend", "setdefault", "add") and isinstance(n.func.value, ast.Name):
                    d = set()
                    for a in n.args:
                        d |= self.deps(a, env)
                    env[n.func.value.id] = env.get(n.func.value.id, set()) | d
        return env

    def deps(self, e, env):
        if e is None:
            return set()
        if isinstance(e, ast.Name):
            return set(env.get(e.id, set()))
        if isinstance(e, ast.Attribute):
            return self.deps(e.value, env)
        if isinstance(e, ast.Subscript):
            return self.deps(e.value, env)  # the container decides the role, not the key
        if isinstance(e, ast.Call):
            if isinstance(e.func, ast.Attribute) and e.func.attr in ("get", "metrics", "items", "values", "keys", "tasks") and not (isinstance(e.func.value, ast.Name) and e.func.value.id == "self"):
                return self.deps(e.func.value, env)
            if dotted(e.func) == "getattr":
                return self.deps(e.args[0], env)
            d = set()
            for a in list(e.args) + [k.value for k in e.keywords]:
                d |= self.deps(a, env)
            if isinstance(e.func, ast.Attribute) and not (isinstance(e.func.value, ast.Name) and e.func.value.id == "self"):
                d |= self.deps(e.func.value, env)
            return d
        if isinstance(e, ast.Constant):
            return set()
        d = set()
        for c in ast.iter_child_nodes(e):
            if isinstance(c, ast.expr):
                d |= self.deps(c, env)
        return d


def run(chk):
    repo = chk.repo
    rp = repo.module(_R)
    chk.use(rp, "docs/tournament.rst")
    chk.explanation = (
        "Decides the comparison report by tables: every comparison-line construction passes a constant direction flag that is increase-is-improvement iff the label names a throughput; "
        "role dataflow (through locals, loops, getattr, helper methods and nested helpers) shows the baseline operand depends only on the baseline race and the contender operand only on "
        "the contender race; _diff abstractly interpreted over {plain, increase-good, decrease-good} x {d >= thr, d <= -thr, between} with d == contender - baseline (absolute and relative, "
        "zero-safe division), mirrored thresholds 10^-precision, '+' on positive values; plain flag read only for colour selection; same formatter for file (plain) and console (rich); "
        "a line only when both values are not None; scalar metric guards use `is None`, not truthiness."
    )
    chk.not_decided = "numeric formatting, tabulate output, the content of the race results themselves."
    CR = rp.cls("ComparisonReporter")
    cm = rp.methods(CR)
    line = cm.get("_line")
    diff = cm.get("_diff")
    mt = cm.get("_metrics_table")
    rep = cm.get("report")
    if not all([line, diff, mt, rep]):
        raise AnchorMissing("ComparisonReporter._line/_diff/_metrics_table/report")

    # call sites of _line (self._line or a local alias of it), including nested helper functions
    sites = []
    for name, f in cm.items():
        aliases = {"self._line"}
        for n in ast.walk(f):
            if isinstance(n, ast.Assign) and u(n.value) == "self._line" and isinstance(n.targets[0], ast.Name):
                aliases.add(n.targets[0].id)
        for n in ast.walk(f):
            if isinstance(n, ast.Call) and u(n.func) in aliases:
                sites.append((f, n))

    # ---- O20.1 direction table -------------------------------------------------------------------------------------------------------
    chk.rule("O20.1", "every comparison-line construction passes a constant direction flag: increase-is-improvement iff the metric label names a throughput; all others "
             "(latency, times, error rate, sizes, counts) decrease-is-improvement", 35,
             "an improvement of that metric is coloured as a regression (and vice versa)")
    n_thr = 0
    for f, c in sites:
        b = bind_args(c, line)
        lab = label_text(b.get("metric")) if b.get("metric") is not None else None
        flag = b.get("treat_increase_as_improvement")
        if lab is None:
            chk.unknown("O20.1", f"metric label of {short(c, 60)} is not a (formatted) string constant", c)
            continue
        is_thr = "throughput" in lab.lower()
        n_thr += is_thr
        ok = isinstance(flag, ast.Constant) and isinstance(flag.value, bool) and flag.value == is_thr
        chk.ob("O20.1", f"'{lab}': {'higher' if is_thr else 'lower'} is better", ok, c, f"flag={u(flag) if flag is not None else None}", key=f"{_R}:{source.qualname(c)}:direction:{lab}")
    chk.ob("O20.1", "throughput lines located", n_thr >= 5, CR, f"{n_thr} throughput line(s) of {len(sites)}")

    # ---- O20.2 operand roles -------------------------------------------------------------------------------------------------------------
    chk.rule("O20.2", "at each comparison line the baseline operand depends only on the baseline race and the contender operand only on the contender race "
             "(role dataflow from report(): first race = baseline, second = contender)", 35,
             "baseline and contender swapped for one metric: the sign and colour of its difference are inverted")
    roles = Roles(cm, None)
    # roots: report(r1, r2) -> GlobalStats(r1.results) / GlobalStats(r2.results) -> _metrics_table(b, c, plain)
    rps = params_of(rep)
    if len(rps) < 3:
        raise AnchorMissing("ComparisonReporter.report(self, r1, r2)")
    roles.param_roles[("report", rps[1])] = {"B"}
    roles.param_roles[("report", rps[2])] = {"C"}
    changed = True
    it = 0
    while changed and it < 8:
        changed = False
        it += 1
        for name, f in cm.items():
            env = roles.env_for(f)
            nested = [n for n in ast.walk(f) if isinstance(n, (ast.FunctionDef,)) and n is not f]
            for n in ast.walk(f):
                if isinstance(n, ast.Call) and isinstance(n.func, ast.Attribute) and isinstance(n.func.value, ast.Name) and n.func.value.id == "self" and n.func.attr in cm and n.func.attr not in ("_line", "_diff", "_join", "_append_non_empty"):
                    callee = cm[n.func.attr]
                    for p, a in bind_args(n, callee).items():
                        d = roles.deps(a, env)
                        old = roles.param_roles.get((callee.name, p), set())
                        if not d <= old:
                            roles.param_roles[(callee.name, p)] = old | d
                            changed = True
    for f, c in sites:
        # environment: method env, plus nested-function parameters (role-free) when the site is in a nested helper
        env = roles.env_for(f)
        inner = source.enclosing_func(c)
        if inner is not f and inner is not None:
            env = roles.env_for(inner, outer=env)
        b = bind_args(c, line)
        db, dc = roles.deps(b.get("baseline"), env), roles.deps(b.get("contender"), env)
        lab = label_text(b.get("metric")) or "?"
        ok = db == {"B"} and dc == {"C"}
        chk.ob("O20.2", f"'{lab}': operands", ok, c, f"baseline operand `{short(b.get('baseline'), 50)}` <- {sorted(db)}; contender operand `{short(b.get('contender'), 50)}` <- {sorted(dc)}",
               key=f"{_R}:{source.qualname(c)}:roles:{lab}")
    # sibling agreement inside each reporting method: whatever is selected from the baseline race is selected from the contender race too (same attribute / key / call chain)
    n_sym = 0
    for name, f in cm.items():
        env = roles.env_for(f)
        ps = [p_ for p_ in params_of(f) if p_ != "self"]
        pb = [p_ for p_ in ps if roles.param_roles.get((f.name, p_)) == {"B"}]
        pc = [p_ for p_ in ps if roles.param_roles.get((f.name, p_)) == {"C"}]
        # the two sides of a comparison are ADJACENT parameters (baseline first); a task name taken from the baseline's task list also carries the baseline role
        pair = [(ps[i], ps[i + 1]) for i in range(len(ps) - 1) if ps[i] in pb and ps[i + 1] in pc]
        if len(pair) != 1:
            continue
        pb, pc = [pair[0][0]], [pair[0][1]]

        def selectors(root):
            out = set()
            for n in ast.walk(f):
                if isinstance(n, ast.Name) and n.id == root and isinstance(n.ctx, ast.Load):
                    top = n
                    while isinstance(source.parent(top), (ast.Attribute, ast.Subscript)) and source.parent(top).value is top or \
                            (isinstance(source.parent(top), ast.Call) and source.parent(top).func is top):
                        top = source.parent(top)
                    if isinstance(source.parent(top), ast.Call) and dotted(source.parent(top).func) == "getattr" and source.parent(top).args and source.parent(top).args[0] is top:
                        top = source.parent(top)
                    t_ = ast.unparse(top)
                    out.add(t_.replace(root, "<race>"))
            return out

        # the unit of a line is taken from one side only (by design: both races measure the same thing); that selection is not a compared value
        unit_only = lambda t_: t_.endswith("['unit']") or t_.endswith(".unit")  # noqa: E731
        sb, sc = {t_ for t_ in selectors(pb[0]) if not unit_only(t_)}, {t_ for t_ in selectors(pc[0]) if not unit_only(t_)}
        if not sb and not sc:
            continue
        n_sym += 1
        only_b, only_c = sorted(sb - sc), sorted(sc - sb)
        # a bare pass-through of the race object itself (handed to a helper) is symmetric by construction
        ok = not only_b and not only_c
        chk.ob("O20.2", f"{name}: the same selections are made from the baseline and from the contender race", ok, f,
               "" if ok else f"only from the baseline: {only_b}; only from the contender: {only_c} — the line compares two different metrics", key=f"{_R}:ComparisonReporter.{name}:symmetric-selectors")
    chk.ob("O20.2", "reporting methods with both races located", n_sym >= 10, rep, f"{n_sym} method(s)")
    # report(): GlobalStats(r1.results) first
    mcalls = [n for n in walk_body(rep) if isinstance(n, ast.Call) and u(n.func) == "self._metrics_table"]
    renv = roles.env_for(rep)
    mtp = params_of(mt)
    if len(mtp) < 4:
        raise AnchorMissing("_metrics_table(self, baseline_stats, contender_stats, plain)")
    mbind = [bind_args(c, mt) for c in mcalls]
    ok = len(mcalls) == 2 and all(b_.get(mtp[1]) is not None and b_.get(mtp[2]) is not None and roles.deps(b_[mtp[1]], renv) == {"B"} and roles.deps(b_[mtp[2]], renv) == {"C"} for b_ in mbind)
    chk.ob("O20.2", "both tables built from (baseline, contender) in that order", ok, mcalls[0] if mcalls else rep, "")

    # ---- O20.3 difference and colours ----------------------------------------------------------------------------------------------------------------
    chk.rule("O20.3", "_diff: d == contender - baseline (absolute: formatter(c - b); relative: (c - b) / b * 100, zero-safe); thresholds +-10^-precision with mirrored comparators; "
             "colour table plain -> identity x3, increase-good -> (+green, -red), decrease-good -> (+red, -green), between -> neutral; positive values get '+'", 14,
             "self-comparison not neutral, swapping the races does not flip sign/colour, or improvement/regression colours exchanged")
    dp = params_of(diff)
    if len(dp) < 6:
        raise AnchorMissing("_diff(self, baseline, contender, treat_increase_as_improvement, formatter, as_percentage)")
    bpar, cpar, flagp, fmtp, pctp = dp[1], dp[2], dp[3], dp[4], dp[5]
    from sa import minieval
    from sa.classes import is_logging_stmt

    def own_stmts(f):
        """statements of a (nested) function without docstring and logging statements."""
        return [s_ for s_ in f.body if not is_logging_stmt(s_) and not (isinstance(s_, ast.Expr) and isinstance(s_.value, ast.Constant))]

    # colour selection: the top-level statement of _diff that branches on self.plain (attribute anchor; the colour locals are known by role only:
    # the local called in the outcome for d > thr / d < -thr / between — see the value-evaluated decision below)
    sel_if = [n for n in diff.body if isinstance(n, ast.If) and any(is_self_attr(x, "plain") for m in ast.walk(n) if isinstance(m, ast.If) for x in ast.walk(m.test))]
    if not sel_if:
        raise AnchorMissing("colour selection in _diff")
    want_tab = {(True, True): ("identity", "identity", "identity"), (True, False): ("identity", "identity", "identity"),
                (False, True): ("console.format.green", "console.format.red", "console.format.neutral"), (False, False): ("console.format.red", "console.format.green", "console.format.neutral")}
    idf = [n for n in diff.body if isinstance(n, ast.FunctionDef) and n.name == "identity"]
    ok = False
    if idf and len(params_of(idf[0])) == 1:
        ib = own_stmts(idf[0])
        ok = len(ib) == 1 and isinstance(ib[0], ast.Return) and isinstance(ib[0].value, ast.Name) and ib[0].value.id == params_of(idf[0])[0]
    chk.ob("O20.3", "identity returns its argument", ok, idf[0] if idf else diff, "")
    # difference formulas: the absolute/relative branch is the top-level statement testing the as_percentage parameter; the difference is the one local bound
    # there whose value depends on the operands (role, not name); which arm is which is decided by evaluating the test, not by arm position
    dif_if = [n for n in diff.body if isinstance(n, ast.If) and n not in sel_if and any(isinstance(x, ast.Name) and x.id == pctp for x in ast.walk(n.test))]
    if not dif_if:
        raise AnchorMissing("absolute/relative branch in _diff")
    D = dif_if[0]

    def mentions_operands(e):
        return any(isinstance(x, ast.Name) and x.id in (bpar, cpar) for x in ast.walk(e))

    def difference_in(pct):
        """(value expression, assignment node) of the difference in the arm taken for as_percentage == pct."""
        try:
            o_ = decide([D], lambda n, env: (pct if isinstance(n, ast.Name) and n.id == pctp else None), {})
        except (Unsupported, UnknownAtom):
            return None, None
        cand = [(k_, v_) for k_, v_ in getattr(o_, "bindings", {}).items() if v_ is not None and mentions_operands(v_)]
        if o_.kind != "fallthrough" or len(cand) != 1:
            return None, None
        asg = [n for n in ast.walk(D) if isinstance(n, ast.Assign) and len(n.targets) == 1 and isinstance(n.targets[0], ast.Name) and n.targets[0].id == cand[0][0] and
               (n.value is cand[0][1] or u(n.value) == u(cand[0][1]))]
        return cand[0][1], (asg[0] if asg else D)

    rel_v, rel_n = difference_in(True)
    ab_v, ab_n = difference_in(False)
    sd = [n for n in diff.body if isinstance(n, ast.FunctionDef) and n.name == "_safe_divide"]
    ok = False
    if rel_v is not None and sd:
        v = rel_v
        # _safe_divide(c - b, b) * 100.0
        if isinstance(v, ast.BinOp) and isinstance(v.op, ast.Mult):
            callp, factor = (v.left, v.right) if isinstance(v.left, ast.Call) else (v.right, v.left)
            ok = isinstance(callp, ast.Call) and u(callp.func) == "_safe_divide" and len(callp.args) == 2 and not callp.keywords and rat_equal(callp.args[0], parse_expr(f"{cpar} - {bpar}")) and \
                u(callp.args[1]) == bpar and isinstance(factor, ast.Constant) and factor.value == 100
    chk.ob("O20.3", "relative difference == (contender - baseline) / baseline * 100", ok, rel_n if rel_n is not None else D, short(rel_n, 80) if rel_n is not None else "")
    ok = False
    sd_detail = ""
    if sd and len(params_of(sd[0])) == 2:
        # evaluated on representative values (quotient when the divisor is not 0, 0 when it is): polarity / orientation / shape (conditional expression or if-chain) are irrelevant
        n_, d_ = params_of(sd[0])
        try:
            got = []
            for nv_, dv_ in ((6, 3), (-6, 3), (1, 4), (0, 5), (6, -3), (6, 0), (0, 0), (-2, 0)):
                env_ = {n_: nv_, d_: dv_}
                o_ = decide(own_stmts(sd[0]), lambda n, env: bool(minieval.ev(n, env)), env_)
                got.append(minieval.ev(o_.value, env_) if o_.kind == "return" and o_.value is not None else None)
            want_ = [2, -2, 0.25, 0, -2, 0, 0, 0]
            ok = all(g_ is not None and not isinstance(g_, bool) and g_ == w_ for g_, w_ in zip(got, want_))
            sd_detail = "" if ok else f"(6,3) (-6,3) (1,4) (0,5) (6,-3) (6,0) (0,0) (-2,0) -> {got}"
        except (Unsupported, UnknownAtom, minieval.CannotEval) as e:
            sd_detail = f"cannot evaluate: {e}"
    chk.ob("O20.3", "division is zero-safe (0 when the baseline is 0)", ok, sd[0] if sd else diff, sd_detail)
    ok = ab_v is not None and isinstance(ab_v, ast.Call) and u(ab_v.func) == fmtp and len(ab_v.args) == 1 and not ab_v.keywords and rat_equal(ab_v.args[0], parse_expr(f"{cpar} - {bpar}"))
    chk.ob("O20.3", "absolute difference == formatter(contender - baseline)", ok, ab_n if ab_n is not None else D, short(ab_n, 80) if ab_n is not None else "")
    # final decision evaluated over the five positions of d relative to the threshold t = 10^-precision: d in {2t, t, 0, -t, -2t}, in both modes.
    # Tests are evaluated on values (the difference operand is the one whose definition depends on the operands), so arm order, comparison orientation
    # and local names are irrelevant.
    sel_i = diff.body.index(sel_if[0])
    tail = [s_ for s_ in diff.body[sel_i + 1:] if not isinstance(s_, ast.FunctionDef) and not is_logging_stmt(s_)]
    inputs = {bpar, cpar}

    def depends_on_inputs(e, b, depth=0):
        for n in ast.walk(e):
            if isinstance(n, ast.Name):
                if n.id in inputs:
                    return True
                if depth < 6 and b.get(n.id) is not None and depends_on_inputs(b[n.id], b, depth + 1):
                    return True
        return False

    def value_of(e, b, depth=0):
        env = {}
        for n in ast.walk(e):
            if isinstance(n, ast.Name) and n.id not in env and b.get(n.id) is not None and depth < 6:
                env[n.id] = value_of(b[n.id], b, depth + 1)
        return minieval.ev(e, env)

    def flat_fstring(e, b, depth=0):
        """[('lit', text) | ('val', expr)] of an f-string with local names bound to f-strings expanded."""
        out = []
        if isinstance(e, ast.JoinedStr):
            for v in e.values:
                if isinstance(v, ast.Constant):
                    out.append(("lit", str(v.value)))
                elif isinstance(v, ast.FormattedValue):
                    if isinstance(v.value, ast.Name) and isinstance(b.get(v.value.id), ast.JoinedStr) and v.format_spec is None and depth < 4:
                        out += flat_fstring(b[v.value.id], b, depth + 1)
                    else:
                        out.append(("val", v))
        elif isinstance(e, ast.Name) and isinstance(b.get(e.id), ast.JoinedStr) and depth < 4:
            out += flat_fstring(b[e.id], b, depth + 1)
        else:
            out.append(("val", e))
        return out

    thr_vals = {}
    pre = [s_ for s_ in diff.body[:sel_i] if isinstance(s_, ast.Assign)]

    class _CaseFailed(Exception):
        pass

    def run_case(plain, inc, pct, k):
        """outcome of _diff for (self.plain, direction flag, as_percentage) and d == k * thr: (colour function, literal prefix, shows d, format spec, bindings)."""
        cur = {}

        def hook(s_, env, b):
            cur["b"] = b
            # `a = b = e` and `a, b = e1, e2` bind like the separate single assignments
            if isinstance(s_, ast.Assign) and len(s_.targets) > 1 and all(isinstance(t_, ast.Name) for t_ in s_.targets):
                v_ = source.inline_node(s_.value, {k_: x_ for k_, x_ in b.items() if x_ is not None}, depth=9)
                for t_ in s_.targets:
                    b[t_.id] = v_
                return "skip"
            if isinstance(s_, ast.Assign) and len(s_.targets) == 1 and isinstance(s_.targets[0], ast.Tuple) and isinstance(s_.value, ast.Tuple) and len(s_.targets[0].elts) == len(s_.value.elts) and \
                    all(isinstance(t_, ast.Name) for t_ in s_.targets[0].elts) and not any(isinstance(x, ast.Name) and x.id in {t_.id for t_ in s_.targets[0].elts} for x in ast.walk(s_.value)):
                vs_ = [source.inline_node(v_, {k_: x_ for k_, x_ in b.items() if x_ is not None}, depth=9) for v_ in s_.value.elts]
                for t_, v_ in zip(s_.targets[0].elts, vs_):
                    b[t_.id] = v_
                return "skip"
            return None

        def atom(n, env):
            b = cur.get("b", {})
            if is_self_attr(n, "plain"):
                return plain
            if isinstance(n, ast.Name) and n.id == flagp:
                return inc
            if isinstance(n, ast.Name) and n.id == pctp:
                return pct
            if isinstance(n, ast.Compare) and len(n.ops) > 1:
                # chained comparison: the conjunction of its links
                links = [atom(ast.Compare(left=l_, ops=[o_], comparators=[r_]), env) for l_, o_, r_ in zip([n.left] + n.comparators[:-1], n.ops, n.comparators)]
                return None if any(x is None for x in links) else all(links)
            if isinstance(n, ast.Compare) and len(n.ops) == 1:
                sides = [n.left, n.comparators[0]]
                dep = [depends_on_inputs(x, b) for x in sides]
                if dep.count(True) != 1:
                    return None
                other = sides[1 - dep.index(True)]
                t = value_of(other, b)
                thr_vals[pct] = abs(t)
                d = k * abs(t)
                l_, r_ = (d, t) if dep[0] else (t, d)
                return minieval._CMP[type(n.ops[0])](l_, r_)
            return None

        try:
            out = decide(pre + [sel_if[0]] + tail, atom, {}, on_stmt=hook)
        except (Unsupported, UnknownAtom, minieval.CannotEval) as e:
            raise _CaseFailed(f"{type(e).__name__}: {e}")
        if out.kind != "return" or not isinstance(out.value, ast.Call) or len(out.value.args) != 1:
            raise _CaseFailed(f"outcome for d = {k}t is {out.text()[:60]}, not a call of a colour function")
        bnd = getattr(out, "bindings", {})
        fn = out.value.func
        fn_t = u(bnd[fn.id]) if isinstance(fn, ast.Name) and bnd.get(fn.id) is not None else u(fn)
        parts = flat_fstring(out.value.args[0], bnd)
        lead = "".join(t for kind, t in parts[: next((i for i, p_ in enumerate(parts) if p_[0] == "val"), len(parts))])
        firstval = next((p_[1] for p_ in parts if p_[0] == "val"), None)
        shows_d = firstval is not None and depends_on_inputs(firstval.value if isinstance(firstval, ast.FormattedValue) else firstval, bnd)
        spec = ""
        if isinstance(firstval, ast.FormattedValue) and firstval.format_spec is not None:
            try:
                spec = minieval.ev(firstval.format_spec, {k_: value_of(v_, bnd) for k_, v_ in bnd.items() if isinstance(v_, ast.Constant)})
            except minieval.CannotEval:
                spec = u(firstval.format_spec)
        return fn_t, lead, shows_d, spec, bnd

    # colour table over (plain, increase-good): the colour function applied for d > thr, d < -thr and in between, read off the evaluated outcomes in both output modes
    for plain, inc in itertools.product([True, False], repeat=2):
        try:
            per_mode = {pct: tuple(run_case(plain, inc, pct, k)[0] for k in (2, -2, 0)) for pct in (False, True)}
        except _CaseFailed as e:
            chk.unknown("O20.3", f"colour selection is not a decision over (plain, direction): {e}", sel_if[0])
            break
        got3 = per_mode[False] if per_mode[False] != want_tab[(plain, inc)] or per_mode[True] == want_tab[(plain, inc)] else per_mode[True]
        g_, s_, n_ = got3
        mode = "plain" if plain else ("increase is improvement" if inc else "decrease is improvement")
        chk.ob("O20.3", f"colours for {mode}{' (flag ' + str(inc) + ')' if plain else ''}", all(per_mode[pct] == want_tab[(plain, inc)] for pct in per_mode), sel_if[0],
               f"(+, -, 0) -> ({g_}, {s_}, {n_}); expected {want_tab[(plain, inc)]}", key=f"{_R}:_diff:colours:{plain}|{inc}")

    table = {}
    failed = None
    for pct in (True, False):
        for k in (2, 1, 0, -1, -2):
            try:
                table[(pct, k)] = run_case(False, True, pct, k)
            except _CaseFailed as e:
                failed = str(e)
                break
        if failed:
            break
    final = [n for n in tail if isinstance(n, ast.If) and any(isinstance(x, ast.Return) for x in ast.walk(n))]
    fnode = final[-1] if final else diff
    if failed:
        chk.unknown("O20.3", f"final colour decision of _diff cannot be evaluated over d in (2t, t, 0, -t, -2t): {failed}", fnode)
    else:
        G, S, N = "console.format.green", "console.format.red", "console.format.neutral"  # flag == True (increase is improvement)
        for pct in (True, False):
            mode = "relative" if pct else "absolute"
            bnd = table[(pct, 2)][4]
            pv = None
            import math
            import re as _re
            if pct in thr_vals and thr_vals[pct] > 0:
                pv = -math.log10(thr_vals[pct])
            spec = table[(pct, 0)][3]
            sm_ = _re.fullmatch(r"\.(\d+)f", spec or "")
            ok = pv is not None and abs(pv - round(pv)) < 1e-9 and sm_ is not None and int(sm_.group(1)) == round(pv)
            chk.ob("O20.3", f"threshold == 10^-precision of the printed format ({mode})", ok, fnode, f"threshold {thr_vals.get(pct)}; format spec {spec!r}", key=f"{_R}:_diff:threshold:{mode}")
            hi, at_hi, mid, at_lo, lo = (table[(pct, k)] for k in (2, 1, 0, -1, -2))
            chk.ob("O20.3", f"d > thr -> colour for increase, '+' prefix ({mode})", hi[0] == G and hi[1] == "+" and hi[2], fnode, f"{hi[0]}, prefix {hi[1]!r}", key=f"{_R}:_diff:above:{mode}")
            chk.ob("O20.3", f"d < -thr -> colour for decrease, no prefix ({mode})", lo[0] == S and lo[1] == "" and lo[2], fnode, f"{lo[0]}, prefix {lo[1]!r}", key=f"{_R}:_diff:below:{mode}")
            chk.ob("O20.3", f"between -> neutral ({mode})", mid[0] == N and mid[1] == "" and mid[2], fnode, f"{mid[0]}, prefix {mid[1]!r}", key=f"{_R}:_diff:between:{mode}")
            mirrored = (at_hi[0], at_lo[0]) in ((G, S), (N, N)) and (at_hi[1] == "+") == (at_hi[0] == G) and at_lo[1] == ""
            chk.ob("O20.3", f"mirrored thresholds: d == thr and d == -thr are both coloured or both neutral ({mode})", mirrored, fnode, f"d == thr -> {at_hi[0]}; d == -thr -> {at_lo[0]}",
                   key=f"{_R}:_diff:mirror:{mode}")
    # _line passes the same operands and flag to both _diff calls, in order
    dcalls = [n for n in walk_body(line) if isinstance(n, ast.Call) and u(n.func) == "self._diff"]
    lp = params_of(line)
    if len(lp) < 8:
        raise AnchorMissing("_line(self, metric, baseline, contender, task, unit, treat_increase_as_improvement, formatter)")
    ldefs = local_defs(line)

    def is_param(e, name):
        """e is the parameter `name` of _line (possibly through a single-assignment local)."""
        e = ldefs.get(e.id, e) if isinstance(e, ast.Name) and e.id not in lp else e
        return isinstance(e, ast.Name) and e.id == name

    def relative(c):
        v = bind_args(c, diff).get(pctp)
        if v is None:
            return False
        return True if source.is_const(v, True) else (False if source.is_const(v, False) else None)

    def passes_operands(c):
        b_ = bind_args(c, diff)
        return not any(isinstance(a, ast.Starred) for a in c.args) and all(b_.get(p_) is not None and is_param(b_[p_], q_) for p_, q_ in ((bpar, lp[2]), (cpar, lp[3]), (flagp, lp[6]), (fmtp, lp[7])))

    ok = len(dcalls) == 2 and all(passes_operands(c) for c in dcalls) and sorted(str(relative(c)) for c in dcalls) == ["False", "True"]
    chk.ob("O20.3", "_line -> _diff(baseline, contender, flag, formatter) twice (absolute, relative)", ok, line, "")
    row = [n for n in walk_body(line) if isinstance(n, ast.Return) and isinstance(n.value, ast.List) and len(n.value.elts) == 7]
    ok = False
    if row:
        el = [ldefs.get(e.id, e) if isinstance(e, ast.Name) and e.id not in lp else e for e in row[0].value.elts]

        def formatted(e, name):
            return isinstance(e, ast.Call) and is_param(e.func, lp[7]) and len(e.args) == 1 and not e.keywords and is_param(e.args[0], name)

        ok = is_param(el[0], lp[1]) and formatted(el[2], lp[2]) and formatted(el[3], lp[3]) and any(isinstance(x, ast.Name) and x.id == lp[4] for x in ast.walk(el[1])) and is_param(el[5], lp[5]) and \
            el[4] in dcalls and relative(el[4]) is False and el[6] in dcalls and relative(el[6]) is True
    chk.ob("O20.3", "row == [metric, task, baseline, contender, diff, unit, diff %]", ok, row[0] if row else line, "")

    # ---- O20.4 plain vs rich ---------------------------------------------------------------------------------------------------------------------------------
    chk.rule("O20.4", "the plain flag is read only at colour selection; both tables come from the same routine with only that flag differing; the writer applies the same formatter to both "
             "and sends plain to the file, rich to the console", 5,
             "the report file contains colour escape codes or differs from the console output")
    reads = [n for n in ast.walk(CR) if is_self_attr(n, "plain") and isinstance(n.ctx, ast.Load)]
    ok = bool(reads) and all(source.enclosing_func(n) is diff for n in reads)
    chk.ob("O20.4", "self.plain read only in _diff", ok, reads[0] if reads else CR, f"{len(reads)} read(s)")
    # every colour function assigned in the plain arm is identity — covered by the table; additionally no colour call outside _diff
    cols = [n for n in ast.walk(CR) if isinstance(n, ast.Attribute) and u(n).startswith("console.format.") and source.enclosing_func(n) is not diff and source.enclosing_func(n) is not None]
    chk.ob("O20.4", "no colour formatting outside _diff in the comparison reporter", not cols, cols[0] if cols else CR, "")
    ok = len(mcalls) == 2
    if ok:
        a, b = mbind
        pa, pb = a.get(mtp[3]), b.get(mtp[3])
        ok = all(a.get(p_) is not None and b.get(p_) is not None and u(a[p_]) == u(b[p_]) for p_ in (mtp[1], mtp[2])) and isinstance(pa, ast.Constant) and isinstance(pb, ast.Constant) and \
            {pa.value, pb.value} == {True, False} and isinstance(pa.value, bool) and isinstance(pb.value, bool)
    chk.ob("O20.4", "both tables from the same routine, only `plain` differs", ok, mcalls[0] if mcalls else rep, "")
    sets = [n for n in walk_body(mt) if isinstance(n, ast.Assign) and any(is_self_attr(t, "plain") for t in n.targets)]
    # "before building lines": an unconditional top-level assignment that no call of a method of the reporter precedes (logging and other statements in front do not matter)
    ok = len(sets) == 1 and isinstance(sets[0].value, ast.Name) and sets[0].value.id == mtp[3] and sets[0] in mt.body and \
        not any(isinstance(x, ast.Call) and isinstance(x.func, ast.Attribute) and isinstance(x.func.value, ast.Name) and x.func.value.id == params_of(mt)[0] and x.func.attr in cm
                for s_ in mt.body[: mt.body.index(sets[0])] for x in ast.walk(s_))
    chk.ob("O20.4", "_metrics_table sets the flag from its parameter before building lines", ok, sets[0] if sets else mt, "")
    wr = cm.get("_write_report")
    rdefs = local_defs(rep)
    wcall = [n for n in walk_body(rep) if isinstance(n, ast.Call) and u(n.func) == "self._write_report"]
    ok = False
    if wcall and wr is not None and len(mcalls) == 2:
        bw = bind_args(wcall[0], wr)
        wps = params_of(wr)

        def plain_of(e):
            d = rdefs.get(e.id) if isinstance(e, ast.Name) else e
            p_ = bind_args(d, mt).get(mtp[3]) if isinstance(d, ast.Call) and u(d.func) == "self._metrics_table" else None
            return p_.value if isinstance(p_, ast.Constant) else None

        wsr = [n for n in walk_body(wr) if isinstance(n, ast.Call) and last_attr(n.func) == "write_single_report"]
        if wsr:
            dp_, dr_ = arg_of(wsr[0], None, "data_plain"), arg_of(wsr[0], None, "data_rich")
            ok = dp_ is not None and dr_ is not None and bw.get(u(dp_)) is not None and bw.get(u(dr_)) is not None and plain_of(bw[u(dp_)]) is True and plain_of(bw[u(dr_)]) is False
    chk.ob("O20.4", "plain table -> data_plain, rich table -> data_rich", ok, wcall[0] if wcall else rep, "")
    ws = rp.func("write_single_report")
    if not {"data_plain", "data_rich"} <= set(params_of(ws)):
        raise AnchorMissing("write_single_report(..., data_plain, data_rich)")
    # the formatter by role: the local called on (headers, <one of the two data parameters>); both outputs must go through the same one
    fm = [n for n in walk_body(ws) if isinstance(n, ast.Call) and isinstance(n.func, ast.Name) and len(n.args) == 2 and not n.keywords and
          isinstance(n.args[1], ast.Name) and n.args[1].id in ("data_plain", "data_rich")]
    to_console = [n for n in fm if isinstance(source.parent(n), ast.Call) and last_attr(source.parent(n).func) == "print_internal"]
    to_file = [n for n in fm if isinstance(source.parent(n), ast.Call) and last_attr(source.parent(n).func) in ("writelines", "write")]
    ok = len(to_console) == 1 and len(to_file) == 1 and u(to_console[0].args[1]) == "data_rich" and u(to_file[0].args[1]) == "data_plain" and u(to_console[0].args[0]) == u(to_file[0].args[0]) and \
        to_console[0].func.id == to_file[0].func.id
    chk.ob("O20.4", "same formatter: rich -> console, plain -> file", ok, ws, "")

    # ---- O20.5 only common metrics --------------------------------------------------------------------------------------------------------------------------------
    chk.rule("O20.5", "a line is emitted only when both values are not None (4-row table); tasks are the intersection; guards on scalar metric values use `is None`, never truthiness (0 is a value)", 6,
             "a metric missing in one race is printed (crash on None arithmetic), or a zero-valued metric present in both races is dropped / breaks swap symmetry")
    row_guard = guards(row[0]) if row else []
    for bn, cn in itertools.product([False, True], repeat=2):
        def atom(n, env):
            # `<operand> is [not] None` in either orientation (== / != None read the same); anything else about the operands is not an atom (UnknownAtom)
            if isinstance(n, ast.Compare) and len(n.ops) == 1 and isinstance(n.ops[0], (ast.Is, ast.IsNot, ast.Eq, ast.NotEq)):
                sides = [n.left, n.comparators[0]]
                none = [isinstance(x, ast.Constant) and x.value is None for x in sides]
                if none.count(True) == 1:
                    other = sides[1 - none.index(True)]
                    if isinstance(other, ast.Name) and other.id in (lp[2], lp[3]):
                        is_none = bn if other.id == lp[2] else cn
                        return is_none if isinstance(n.ops[0], (ast.Is, ast.Eq)) else not is_none
            return None

        try:
            try:
                # the whole body of _line evaluated for the case: a line is emitted iff the outcome is the 7-element row (early returns / arm order do not matter)
                o_ = decide(own_stmts(line), atom, {})
                val = bool(row) and o_.kind == "return" and (o_.node is row[0] or (isinstance(o_.value, ast.List) and len(o_.value.elts) == 7))
            except Unsupported:
                val = all(bool_eval(t, lambda n: atom(n, {})) == pol for t, pol in row_guard) and bool(row_guard)
            chk.ob("O20.5", f"line when baseline {'None' if bn else 'present'}, contender {'None' if cn else 'present'}", val == (not bn and not cn), row[0] if row else line, f"emits: {val}")
        except UnknownAtom as e:
            chk.ob("O20.5", "line guard", False, line, f"guard tests something else than None-ness: {e} (a value of 0 must still be compared)")
    tl = [n for n in walk_body(mt) if isinstance(n, ast.For) and isinstance(n.iter, ast.Call) and last_attr(n.iter.func) == "tasks"]
    ok = False
    detail = ""
    if tl:
        from sa import pat as _pat
        mdefs_ = local_defs(mt)
        tests = [t_ for n_ in ast.walk(tl[0]) if isinstance(n_, ast.If) for t_ in [n_.test] if isinstance(t_, ast.Compare) and len(t_.ops) == 1 and isinstance(t_.ops[0], (ast.In, ast.NotIn)) and u(t_.left) == u(tl[0].target)]
        if tests:
            coll = source.inline_node(tests[0].comparators[0], mdefs_)
            while isinstance(coll, ast.Call) and dotted(coll.func) in ("set", "list", "tuple", "frozenset", "sorted") and len(coll.args) == 1:
                coll = coll.args[0]
            ok = isinstance(coll, ast.Call) and last_attr(coll.func) == "tasks" and u(coll.func.value) != u(tl[0].iter.func.value)
            detail = f"`{u(tl[0].target)}` of {u(tl[0].iter)} kept when in {u(coll)}"
            if ok and isinstance(tl[0].target, ast.Name):
                # polarity by evaluation of the loop body: lines for the task are produced when it is a member of the other race's tasks and none when it is not
                # (`if t in X: ...` and `if t not in X: continue` read the same); switches on reporter attributes are taken as on
                def produces(member):
                    def atom(n, env):
                        if any(n is t_ for t_ in tests):
                            return member if isinstance(n.ops[0], ast.In) else not member
                        if isinstance(n, ast.Attribute) and isinstance(n.value, ast.Name) and n.value.id == params_of(mt)[0]:
                            return True
                        return None

                    o_ = decide(tl[0].body, atom, {})
                    return any(isinstance(c_, ast.Call) and isinstance(c_.func, ast.Attribute) and isinstance(c_.func.value, ast.Name) and c_.func.value.id == params_of(mt)[0] and c_.func.attr in cm and
                               any(isinstance(a_, ast.Name) and a_.id == tl[0].target.id for a_ in c_.args) for e_ in o_.effects for c_ in ast.walk(e_))

                try:
                    ok = produces(True) and not produces(False)
                    if not ok:
                        detail += "; but the per-task lines are not produced exactly for the members"
                except (Unsupported, UnknownAtom):
                    pass
    chk.ob("O20.5", "per-task lines for the intersection of tasks", ok, tl[0] if tl else mt, detail)
    # the task list is consulted once per baseline task: it must be a re-iterable collection (a generator would be exhausted by the first membership test)
    met_ = repo.module("esrally/metrics.py")
    tk_ = met_.methods(met_.cls("GlobalStats")).get("tasks")
    if tk_ is None:
        raise AnchorMissing("GlobalStats.tasks")
    trets = [n for n in walk_body(tk_) if isinstance(n, ast.Return)]
    gen = [r for r in trets if isinstance(r.value, ast.GeneratorExp) or (isinstance(r.value, ast.Call) and dotted(r.value.func) in ("map", "filter", "iter", "zip", "reversed"))] + \
          [n for n in walk_body(tk_) if isinstance(n, (ast.Yield, ast.YieldFrom))]
    chk.ob("O20.5", "GlobalStats.tasks() returns a re-iterable collection", bool(trets) and not gen, gen[0] if gen else tk_,
           "" if not gen else "single-use iterator: after the first membership test in the comparison loop every later common task is missed (and swapping the races changes the set of lines)",
           key="esrally/metrics.py:GlobalStats.tasks:re-iterable")
    from rules.C08 import record_key_agreement

    chk.use(met_)
    record_key_agreement(chk, "O20.5", met_)
    # scalar guards
    n_guard = 0
    for f, c in sites:
        b = bind_args(c, line)
        for side in ("baseline", "contender"):
            opnd = b.get(side)
            if opnd is None or not isinstance(opnd, ast.Attribute):
                continue
            for n in walk_body(f):
                if isinstance(n, ast.If):
                    for a in atoms_of(n.test):
                        if u(a) == u(opnd):
                            chk.ob("O20.5", f"{f.name}: guard on `{u(opnd)}`", False, n, f"`{u(n.test)}` tests the compared value by truthiness: a value of 0 drops the line (and breaks swap symmetry / self-comparison)",
                                   key=f"{_R}:{f.name}:truthiness:{u(opnd)}")
                        c_ = comparison(a)
                        if c_ and c_[1] in ("is", "is not") and ((u(c_[0]) == u(opnd) and u(c_[2]) == "None") or (u(c_[2]) == u(opnd) and u(c_[0]) == "None")):
                            n_guard += 1
                            chk.ob("O20.5", f"{f.name}: `{u(a)}`", True, n, "")
    # a statistic that is absent from an (older) stored race reads back as None: a list-valued one that is ITERATED must be None-tested for the race it is read from — the baseline's
    # guard does not protect the loop over the contender's list (comparing new-vs-old would crash while old-vs-new works)
    met2 = repo.module("esrally/metrics.py")
    gsi = met2.methods(met2.cls("GlobalStats")).get("__init__")
    nullable = set()
    for n in walk_body(gsi):
        if isinstance(n, ast.Assign) and is_self_attr(n.targets[0]) and isinstance(n.value, ast.Call) and u(n.value.func) == "self.v" and len(n.value.args) == 2 and not n.value.keywords:
            nullable.add(n.targets[0].attr)
    n_it = 0
    for name, f in cm.items():
        ps_ = [p_ for p_ in params_of(f) if p_ != "self"]
        gf = cfg_of(f)
        for lp in [n for n in walk_body(f) if isinstance(n, ast.For) and isinstance(n.iter, ast.Attribute) and isinstance(n.iter.value, ast.Name) and n.iter.value.id in ps_ and n.iter.attr in nullable]:
            race = lp.iter.value.id
            n_it += 1
            tests = []
            for t in [n for n in walk_body(f) if isinstance(n, ast.If)]:
                parts = t.test.values if isinstance(t.test, ast.BoolOp) and isinstance(t.test.op, ast.Or) else [t.test]
                none_test = lambda d_: isinstance(d_, ast.Compare) and len(d_.ops) == 1 and isinstance(d_.ops[0], ast.Is) and source.is_const(d_.comparators[0], None) \
                    and isinstance(d_.left, ast.Attribute) and isinstance(d_.left.value, ast.Name) and d_.left.value.id == race  # noqa: E731
                if any(none_test(d_) for d_ in parts) and any(isinstance(x, ast.Return) for x in t.body) and gf.dominated_by_nodes(gf.node_of(lp), [gf.node_of(t)]):
                    tests.append(t)
            chk.ob("O20.5", f"{name}: `{u(lp.iter)}` (None for a race stored without it) is None-tested before it is iterated", bool(tests), lp,
                   "" if tests else f"no `{race}.<statistic> is None` test with an early return dominates the loop: the comparison crashes when only this race lacks the statistic",
                   key=f"{_R}:ComparisonReporter.{name}:iterated-nullable:{u(lp.iter)}")
    chk.ob("O20.5", "iterated optional statistics located", n_it >= 2, rep, f"{n_it} loop(s) over optional list-valued statistics")
    # what the comparison reads as statistic X of a stored race IS statistic X: every results attribute the comparison selects is initialised from the stored key of the same name
    init_keys = {}
    for n in walk_body(gsi):
        if isinstance(n, ast.Assign) and is_self_attr(n.targets[0]) and isinstance(n.value, ast.Call) and u(n.value.func) == "self.v" and len(n.value.args) > 1 and isinstance(n.value.args[1], ast.Constant):
            init_keys[n.targets[0].attr] = (n.value.args[1].value, n)
    read_attrs = set()
    for name, f in cm.items():
        for x in ast.walk(f):
            if isinstance(x, ast.Attribute) and isinstance(x.value, ast.Name) and x.value.id in ("baseline_stats", "contender_stats", "stats") and x.attr in init_keys:
                read_attrs.add(x.attr)
            if isinstance(x, ast.Call) and dotted(x.func) == "getattr" and len(x.args) >= 2 and isinstance(x.args[1], ast.JoinedStr):
                suffix = "".join(str(v.value) for v in x.args[1].values if isinstance(v, ast.Constant))
                read_attrs |= {a_ for a_ in init_keys if suffix and a_.endswith(suffix)}
    for a_ in sorted(read_attrs):
        k_, n_ = init_keys[a_]
        chk.ob("O20.2", f"compared statistic `{a_}` is read back from the stored key of the same name", k_ == a_, n_, f"GlobalStats.{a_} <- key '{k_}'", key=f"esrally/metrics.py:GlobalStats.__init__:{a_}")
    chk.ob("O20.2", "compared statistics located in the results class", len(read_attrs) >= 30, gsi, f"{len(read_attrs)} attribute(s)")
    # the Diff column is formatter(contender - baseline) while the value columns show formatter(baseline) / formatter(contender): that is the same difference only for a LINEAR
    # formatter (a fixed unit conversion). A formatter that picks its unit per value (by magnitude) scales the three numbers independently.
    cv = repo.module("esrally/utils/convert.py")
    chk.use(cv)

    def _nonlinear(fn, vparam, depth=0):
        """the convert function compares its value (or something derived from it) by magnitude, directly or through another convert function."""
        derived = {vparam}
        for _ in range(3):
            for n in walk_body(fn):
                if isinstance(n, ast.Assign) and any(isinstance(x, ast.Name) and x.id in derived for x in ast.walk(n.value)):
                    for t in n.targets:
                        derived |= {x.id for x in ast.walk(t) if isinstance(x, ast.Name)}
        for n in walk_body(fn):
            if isinstance(n, ast.Compare) and any(isinstance(o, (ast.Lt, ast.Gt, ast.LtE, ast.GtE)) for o in n.ops) and any(isinstance(x, ast.Name) and x.id in derived for x in ast.walk(n)):
                return True
            if isinstance(n, ast.Call) and isinstance(n.func, ast.Name) and depth < 3 and any(isinstance(x, ast.Name) and x.id in derived for a_ in n.args for x in ast.walk(a_)):
                try:
                    callee = cv.func(n.func.id)
                except AnchorMissing:
                    continue
                pos = next((i_ for i_, a_ in enumerate(n.args) if any(isinstance(x, ast.Name) and x.id in derived for x in ast.walk(a_))), 0)
                cps_ = params_of(callee)
                if pos < len(cps_) and _nonlinear(callee, cps_[pos], depth + 1):
                    return True
        return False

    n_fmt = 0
    for f, c in sites:
        fm = bind_args(c, line).get("formatter")
        if fm is None:
            continue
        n_fmt += 1
        verdict, why = True, "linear"
        tgt, nbound = fm, 0
        if isinstance(fm, ast.Call) and last_attr(fm.func) == "partial" and fm.args:
            tgt, nbound = fm.args[0], len(fm.args) - 1
        if isinstance(tgt, ast.Lambda):
            verdict = not any(isinstance(x, (ast.Compare, ast.IfExp, ast.Call)) for x in ast.walk(tgt.body))
            why = "lambda"
        elif isinstance(tgt, ast.Call) and dotted(tgt.func) == "convert.factor":
            why = "constant factor"
        elif (dotted(tgt) or "").startswith("convert."):
            try:
                fn_ = cv.func(dotted(tgt).split(".", 1)[1])
                ps_ = params_of(fn_)
                verdict = nbound < len(ps_) and not _nonlinear(fn_, ps_[nbound])
                why = f"convert.{fn_.name}" + ("" if verdict else " chooses its scale from the magnitude of the value")
            except AnchorMissing:
                verdict, why = False, f"{dotted(tgt)} not found in convert.py"
        else:
            verdict, why = False, f"unrecognised formatter {short(fm, 40)}"
        chk.ob("O20.3", f"{f.name}: the line's formatter is a fixed (linear) unit conversion", verdict, c, why + ("" if verdict else ": baseline, contender and their difference are each scaled to their own unit, so the Diff column is not contender minus baseline in the line's unit"),
               key=f"{_R}:ComparisonReporter.{f.name}:linear-formatter:{label_text(bind_args(c, line).get('metric')) or '?'}")
    chk.ob("O20.3", "formatters of comparison lines located", n_fmt >= 10, line, f"{n_fmt} line(s) with a formatter")
    # list-valued statistics are paired by id in nested loops (for b in baseline.X: for c in contender.X: if c[K] == <id>): the id compared with is the one of the CURRENT baseline
    # element — bound inside this outer loop from its loop variable (a name left over from an earlier loop pairs every element with the last one of that loop)
    n_pair = 0
    for name, f in cm.items():
        for outer in [n for n in walk_body(f) if isinstance(n, ast.For) and isinstance(n.target, ast.Name)]:
            for inner in [n for n in outer.body if isinstance(n, ast.For) and isinstance(n.target, ast.Name)]:
                for t in [n for n in ast.walk(inner) if isinstance(n, ast.If)]:
                    m_ = pat.match(t.test, "V_c[E_k] == V_id", binds={"c": inner.target.id})
                    if m_ is None:
                        direct = pat.match(t.test, "V_c[E_k] == V_b[E_k2]", binds={"c": inner.target.id, "b": outer.target.id})
                        if direct is not None:
                            n_pair += 1
                            chk.ob("O20.2", f"{name}: `{u(inner.iter)}` paired with the current element of `{u(outer.iter)}`", direct["k"] == direct["k2"], t, u(t.test))
                        continue
                    n_pair += 1
                    idv = m_["id"]
                    binds_here = [n for n in outer.body if isinstance(n, ast.Assign) and any(isinstance(x, ast.Name) and x.id == idv for x in n.targets)
                                  and pat.match(n.value, f"V_b[{m_['k']}]", binds={"b": outer.target.id}) is not None and n.lineno < inner.lineno]
                    ok = len(binds_here) == 1
                    chk.ob("O20.2", f"{name}: `{u(inner.iter)}` paired with the current element of `{u(outer.iter)}`", ok, t,
                           f"`{u(t.test)}`" + ("" if ok else f": `{idv}` is not bound from `{outer.target.id}[{m_['k']}]` inside this loop — it still holds the value an earlier loop left behind"),
                           key=f"{_R}:ComparisonReporter.{name}:pairing:{u(outer.iter)}")
    chk.ob("O20.2", "id-paired statistics located", n_pair >= 5, rep, f"{n_pair} pairing test(s)")
    # asymmetric None guards -> advisory
    for name, f in cm.items():
        for n in walk_body(f):
            if isinstance(n, ast.If) and isinstance(n.test, ast.Compare) and isinstance(n.test.ops[0], ast.Is) and "baseline" in u(n.test.left) and any(isinstance(x, ast.Return) for x in n.body):
                twin = u(n.test.left).replace("baseline", "contender")
                if not any(isinstance(m, ast.If) and twin in u(m.test) for m in walk_body(f)):
                    chk.adv("O20.5", f"{name}: baseline value guarded for None but the contender's `{twin}` is not", n)


from sa.selftest import V  # noqa: E402

VARIANTS = [
    V("flip direction: mean throughput", "break", _R, 'self._line("Mean Throughput", b_mean, c_mean, task, b_unit, treat_increase_as_improvement=True),', 'self._line("Mean Throughput", b_mean, c_mean, task, b_unit, treat_increase_as_improvement=False),', "O20.1"),
    V("flip direction: store size", "break", _R, '                "Store size",\n                baseline_stats.store_size,\n                contender_stats.store_size,\n                "",\n                "GB",\n                treat_increase_as_improvement=False,', '                "Store size",\n                baseline_stats.store_size,\n                contender_stats.store_size,\n                "",\n                "GB",\n                treat_increase_as_improvement=True,', "O20.1"),
    V("seed m2: transform throughput direction", "break", _R, '                            "Transform throughput",\n                            baseline["mean"],\n                            contender["mean"],\n                            transform_id,\n                            baseline["unit"],\n                            treat_increase_as_improvement=True,', '                            "Transform throughput",\n                            baseline["mean"],\n                            contender["mean"],\n                            transform_id,\n                            baseline["unit"],\n                            treat_increase_as_improvement=False,', "O20.1"),
    V("swap operands: segment count", "break", _R, '                "Segment count",\n                baseline_stats.segment_count,\n                contender_stats.segment_count,', '                "Segment count",\n                contender_stats.segment_count,\n                baseline_stats.segment_count,', "O20.2"),
    V("contender median from baseline", "break", _R, '        c_median = contender_stats.metrics(task)["throughput"]["median"]', '        c_median = baseline_stats.metrics(task)["throughput"]["median"]', "O20.2"),
    V("GC helper reads baseline twice", "break", _R, '                getattr(contender_stats, f"{metric_prefix}_gc_time"),', '                getattr(baseline_stats, f"{metric_prefix}_gc_time"),', "O20.2"),
    V("baseline - contender", "break", _R, "            diff = formatter(contender - baseline)", "            diff = formatter(baseline - contender)", "O20.3"),
    V("divide by contender", "break", _R, "            diff = _safe_divide(contender - baseline, baseline) * 100.0", "            diff = _safe_divide(contender - baseline, contender) * 100.0", "O20.3"),
    V("green/red swapped in the decrease arm", "break", _R, "        else:\n            color_greater = console.format.red\n            color_smaller = console.format.green", "        else:\n            color_greater = console.format.green\n            color_smaller = console.format.red", "O20.3"),
    V("> instead of >= on one side", "break", _R, "        if diff >= threshold:", "        if diff > threshold:", "O20.3"),
    V("seed m1: neutral colour hoisted out of the plain arm", "break", _R, "            color_neutral = identity\n        elif treat_increase_as_improvement:", "            color_neutral = console.format.neutral\n        elif treat_increase_as_improvement:", "O20.3"),
    V("plain/rich swapped at the writer", "break", _R, "        self._write_report(metric_table_plain, metric_table_rich)", "        self._write_report(metric_table_rich, metric_table_plain)", "O20.4"),
    V("file gets the rich data", "break", _R, "            f.writelines(formatter(headers, data_plain))", "            f.writelines(formatter(headers, data_rich))", "O20.4"),
    V("line when either present", "break", _R, "        if baseline is not None and contender is not None:", "        if baseline is not None or contender is not None:", "O20.5"),
    V("seed m3: truthiness guard on a scalar metric", "break", _R, "        if baseline_stats.ingest_pipeline_cluster_failed is None:", "        if not baseline_stats.ingest_pipeline_cluster_failed:", "O20.5"),
    V("line guard by truthiness", "break", _R, "        if baseline is not None and contender is not None:", "        if baseline and contender:", "O20.5"),
    # preserving
    V("locals renamed", "keep", _R, "b_median", "base_median", count=2),
    V("strict mirrored thresholds", "keep", _R, "        if diff >= threshold:\n            return color_greater(f\"+{formatted}\")\n        elif diff <= -threshold:", "        if diff > threshold:\n            return color_greater(f\"+{formatted}\")\n        elif diff < -threshold:"),
    V("De Morgan line guard", "keep", _R, "        if baseline is not None and contender is not None:", "        if not (baseline is None or contender is None):"),
]
