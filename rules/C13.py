"""C13 — cars compose in order with documented precedence; provisioning mirrors templates (DESIGN.md section 4, C13)."""
from __future__ import annotations

import ast

from sa import pat, source
from sa.cfg import cfg_of, guards
from sa.classes import is_logging_call
from sa.source import AnchorMissing, arg_of, dotted, is_self_attr, last_attr, local_defs, params_of, short, u, walk_body

_T = "esrally/mechanic/team.py"
_P = "esrally/mechanic/provisioner.py"

INTERNAL_KEYS = {"cluster_name", "node_name", "data_paths", "log_path", "network_host", "http_port", "transport_port", "install_root_path", "node_ip", "all_node_ips", "all_node_names"}


def merges_into(func, target: str):
    """program-ordered list of (source text, node) merged into dict variable `target`: d.update(src), d[k] = v, {**a, **b}, dict(a, **b)."""
    g = cfg_of(func)
    out = []
    for n in walk_body(func):
        if isinstance(n, ast.Call) and isinstance(n.func, ast.Attribute) and n.func.attr == "update" and u(n.func.value) == target and n.args:
            out.append((u(n.args[0]), n))
        elif isinstance(n, ast.Assign) and u(n.targets[0]) == target and isinstance(n.value, ast.Dict) and n.value.keys and all(k is None for k in n.value.keys):
            for v in n.value.values:
                out.append((u(v), n))
        elif isinstance(n, ast.Return) and isinstance(n.value, ast.Dict) and n.value.keys and all(k is None for k in n.value.keys) and u(n.value) == target:
            # `return {**a, **b}` (the returned expression itself is the merge; a `tmp = {...}; return tmp` pair is folded to this form at parse time)
            for v in n.value.values:
                out.append((u(v), n))
        elif isinstance(n, ast.Assign) and isinstance(n.targets[0], ast.Subscript) and u(n.targets[0].value) == target:
            out.append((f"[{u(n.targets[0].slice)}]", n))
    out.sort(key=lambda x: (x[1].lineno, x[1].col_offset))
    return out, g


def assigns_to(func, name: str):
    """the (annotated or plain) assignment statements of `func` whose target is `name`."""
    return [n for n in walk_body(func) if (isinstance(n, ast.Assign) and len(n.targets) == 1 and u(n.targets[0]) == name) or (isinstance(n, ast.AnnAssign) and n.value is not None and u(n.target) == name)]


def ordered(g, a, b):
    """a is executed before b on every path that executes both, and b can never precede a."""
    na, nb = g.node_of(a), g.node_of(b)
    return not g.path_exists(nb, na) or na.id == nb.id


class Layer:
    """one source merged into a variables dict. origin: 'rally' (a dict display / item store written in Rally's code: its keys are known) or 'user' (data that comes from a car, a plugin,
    a parameter or anything else that cannot be resolved: it may hold ANY key). keys: the constant keys of a 'rally' layer, None = any key. must: merged on every path (not under a
    condition, not in a loop that may run zero times)."""
    __slots__ = ("origin", "keys", "must", "text", "node", "src", "vals")

    def __init__(self, origin, keys, must, text, node, src=None, vals=None):
        self.origin, self.keys, self.must, self.text, self.node = origin, keys, must, text, node  # node: the statement / expression that merges the layer (for the report)
        self.src = src if src is not None else node  # the source expression itself
        self.vals = vals or {}  # 'rally' layers: key -> (value expression, function, class) as written

    def show(self):
        k = "*" if self.keys is None else (f"{len(self.keys)} keys" if len(self.keys) > 3 else ",".join(sorted(self.keys)))
        return f"{'' if self.must else 'maybe '}{self.origin}:{self.text}[{k}]"


class DictFlow:
    """Merge-order model of dict-valued expressions of ONE module (later layer wins), followed through locals, accumulators (`d = {}` + `d.update(src)` / `d[k] = v` / `d |= src`),
    dict displays with `**`, `dict(a, **b)`, `.copy()`, and through properties / methods of the module's classes. The class of a receiver other than `self` is resolved by FIELD FLOW
    (`self.x = <parameter>` in `__init__` -> the argument at the construction sites of the class -> the class constructed there; loop variables over a list of such objects) and, failing
    that, by a member name that only one class of the module defines (DESIGN appendix E). Whatever cannot be resolved is a 'user' layer that may hold any key. Nothing is evaluated."""

    def __init__(self, repo, mod):
        self.repo, self.mod = repo, mod
        self.issues: list = []  # (text, node): shapes that make the order analysis meaningless (aliased accumulator, unordered merges)
        self.classes = {c.name: c for c in mod.classes()}

    # ---- receiver classes -----------------------------------------------------------------------------------------------------------------------------------
    def value_type(self, e, func, depth=0):
        """('obj', ClassDef) / ('list', ClassDef) for a constructor call / a list (comprehension) of constructor calls of a class of this module, else None."""
        if depth > 6 or e is None:
            return None
        if isinstance(e, ast.Call) and last_attr(e.func) in self.classes:
            return "obj", self.classes[last_attr(e.func)]
        if isinstance(e, ast.ListComp):
            t = self.value_type(e.elt, func, depth + 1)
            return ("list", t[1]) if t and t[0] == "obj" else None
        if isinstance(e, ast.List) and e.elts:
            ts = [self.value_type(x, func, depth + 1) for x in e.elts]
            return ("list", ts[0][1]) if all(t and t[0] == "obj" and t[1] is ts[0][1] for t in ts) else None
        if isinstance(e, ast.Name) and func is not None:
            d = local_defs(func).get(e.id)
            return self.value_type(d, func, depth + 1) if d is not None else None
        return None

    def type_of(self, e, func, cls, depth=0):
        if depth > 6:
            return None
        if is_self_attr(e) and cls is not None:
            init = self.mod.methods(cls).get("__init__")
            sets = [n for n in walk_body(init) if isinstance(n, ast.Assign) and len(n.targets) == 1 and is_self_attr(n.targets[0], e.attr)] if init is not None else []
            if len(sets) != 1:
                return None
            v = sets[0].value
            if isinstance(v, ast.Name) and v.id in params_of(init):
                sites = [n for n in ast.walk(self.mod.tree) if isinstance(n, ast.Call) and last_attr(n.func) == cls.name] or \
                        [n for n in source.constructions(self.repo, cls.name) if source.module_of(n).relpath.startswith("esrally/")]
                ts = [self.value_type(source.bind_args(c, init).get(v.id), source.enclosing_func(c)) for c in sites]
                return ts[0] if ts and all(t is not None and t == ts[0] for t in ts) else None
            return self.value_type(v, init)
        if isinstance(e, ast.Name) and func is not None:
            loops = [n for n in walk_body(func) if isinstance(n, (ast.For, ast.AsyncFor)) and isinstance(n.target, ast.Name) and n.target.id == e.id]
            if len(loops) == 1:
                t = self.type_of(loops[0].iter, func, cls, depth + 1)
                return ("obj", t[1]) if t and t[0] == "list" else None
            d = local_defs(func).get(e.id)
            if isinstance(d, (ast.Name, ast.Attribute)):
                return self.type_of(d, func, cls, depth + 1)  # `inst = self.es_installer`
            return self.value_type(e, func)
        return None

    def member(self, recv, name, func, cls):
        """(class, function) of `recv.name`, or None."""
        if isinstance(recv, ast.Name) and recv.id == "self" and cls is not None:
            c = cls
        else:
            t = self.type_of(recv, func, cls)
            c = t[1] if t and t[0] == "obj" else None
            if c is None:
                owners = [k for k in self.classes.values() if name in self.mod.methods(k)]
                c = owners[0] if len(owners) == 1 else None
        f = self.mod.methods(c).get(name) if c is not None else None
        return (c, f) if f is not None else None

    # ---- layers ---------------------------------------------------------------------------------------------------------------------------------------------------
    def user(self, e, must=True):
        return [Layer("user", None, must, short(e, 50), e)]

    def returned(self, f, c, depth):
        rets = [n for n in walk_body(f) if isinstance(n, ast.Return) and n.value is not None]
        if len(rets) != 1:
            raise source.AnchorMissing(f"{source.qualname(f)}: exactly one `return <dict>` expected, found {len(rets)}")
        return self.layers(rets[0].value, f, c, depth + 1)

    def layers(self, e, func, cls, depth=0):
        if depth > 12:
            raise source.AnchorMissing(f"dict flow too deep at `{short(e, 60)}`")
        if isinstance(e, ast.Dict):
            out, lit = [], {}
            for k, v in zip(e.keys, e.values):
                if k is None or not isinstance(k, ast.Constant):
                    if lit:
                        out.append(Layer("rally", frozenset(lit), True, f"{{...}}@{source.qualname(func)}", e, vals=lit))
                        lit = {}
                    out += self.layers(v, func, cls, depth + 1) if k is None else [Layer("rally", None, False, f"[{short(k, 30)}]", e)]  # a computed key: may be any key
                else:
                    lit[k.value] = (v, func, cls)
            if lit:
                out.append(Layer("rally", frozenset(lit), True, f"{{...}}@{source.qualname(func)}", e, vals=lit))
            return out
        if isinstance(e, ast.Call):
            fn = dotted(e.func)
            if fn == "dict" or fn in ("copy.copy", "copy.deepcopy"):
                out = []
                for a in e.args:
                    out += self.layers(a, func, cls, depth + 1)
                kw = {k.arg: (k.value, func, cls) for k in e.keywords if k.arg}
                for k in e.keywords:
                    if k.arg is None:
                        out += self.layers(k.value, func, cls, depth + 1)
                if kw:
                    out.append(Layer("rally", frozenset(kw), True, "dict(k=...)", e, vals=kw))
                return out
            if isinstance(e.func, ast.Attribute) and e.func.attr == "copy" and not e.args:
                return self.layers(e.func.value, func, cls, depth + 1)
            if isinstance(e.func, ast.Attribute) and not e.args and not e.keywords:
                m = self.member(e.func.value, e.func.attr, func, cls)
                if m is not None:
                    return self.returned(m[1], m[0], depth)
            return self.user(e)
        if isinstance(e, ast.BinOp) and isinstance(e.op, ast.BitOr):
            return self.layers(e.left, func, cls, depth + 1) + self.layers(e.right, func, cls, depth + 1)
        if isinstance(e, ast.Name) or is_self_attr(e):
            got = self.variable(e, func, cls, depth)
            if got is not None:
                return got
        if isinstance(e, ast.Attribute):
            m = self.member(e.value, e.attr, func, cls)
            if m is not None and any(dotted(d) == "property" for d in m[1].decorator_list):
                return self.returned(m[1], m[0], depth)
            return self.user(e)
        return self.user(e)

    def is_new(self, e, func, cls, depth=0):
        """the value is a NEW dict (merging into it cannot change any other object): a display / comprehension / dict(...) / .copy(), or a property / method of a class of this module
        (or a single-assignment local) that returns such a value."""
        if depth > 6 or e is None:
            return False
        if isinstance(e, (ast.Dict, ast.DictComp)) or (isinstance(e, ast.BinOp) and isinstance(e.op, ast.BitOr)):
            return True
        if isinstance(e, ast.Call) and (dotted(e.func) in ("dict", "copy.copy", "copy.deepcopy", "collections.OrderedDict") or (isinstance(e.func, ast.Attribute) and e.func.attr == "copy")):
            return True
        if isinstance(e, ast.Name):
            d = assigns_to(func, e.id)
            return len(d) == 1 and self.is_new(d[0].value, func, cls, depth + 1)
        m = None
        if isinstance(e, ast.Call) and isinstance(e.func, ast.Attribute) and not e.args and not e.keywords:
            m = self.member(e.func.value, e.func.attr, func, cls)
        elif isinstance(e, ast.Attribute):
            m = self.member(e.value, e.attr, func, cls)
            m = m if m is not None and any(dotted(d) == "property" for d in m[1].decorator_list) else None
        if m is not None:
            rets = [n for n in walk_body(m[1]) if isinstance(n, ast.Return) and n.value is not None]
            return bool(rets) and all(self.is_new(r.value, m[1], m[0], depth + 1) for r in rets)
        return False

    def variable(self, e, func, cls, depth):
        """layers of a local / self attribute that is built inside `func` (for a self attribute read elsewhere: inside `__init__`); None if it is not built here."""
        name = u(e)
        defs = assigns_to(func, name)
        if not defs:
            init = self.mod.methods(cls).get("__init__") if is_self_attr(e) and cls is not None else None
            if init is not None and init is not func and assigns_to(init, name):
                return self.variable(e, init, cls, depth + 1)
            return None
        if len(defs) != 1:
            raise source.AnchorMissing(f"{source.qualname(func)}: `{name}` is assigned {len(defs)} times; the merge order into it is not decided")
        d0 = defs[0]
        g = cfg_of(func)
        merges = []
        for n in walk_body(func):
            if isinstance(n, ast.Call) and isinstance(n.func, ast.Attribute) and n.func.attr == "update" and u(n.func.value) == name:
                merges.append((n, list(n.args) + [k.value for k in n.keywords if k.arg is None], {k.arg for k in n.keywords if k.arg}))
            elif isinstance(n, ast.Assign) and isinstance(n.targets[0], ast.Subscript) and u(n.targets[0].value) == name:
                merges.append((n, [], n.targets[0].slice))
            elif isinstance(n, ast.AugAssign) and isinstance(n.op, ast.BitOr) and u(n.target) == name:
                merges.append((n, [n.value], set()))
            elif isinstance(n, ast.Call) and isinstance(n.func, ast.Attribute) and n.func.attr in ("setdefault", "pop", "clear", "popitem") and u(n.func.value) == name:
                raise source.AnchorMissing(f"{source.qualname(func)}: `{short(n, 60)}` — only update / item stores are understood by the merge-order analysis")
        merges.sort(key=lambda m: (m[0].lineno, m[0].col_offset))
        out = self.layers(d0.value, func, cls, depth + 1)
        if merges and not self.is_new(d0.value, func, cls):
            self.issues.append((f"`{name}` is not a new dict but `{short(d0.value, 50)}` itself: merging into it writes Rally's values into that object (the car's variables) for every later reader", d0))
        prev = d0
        for n, srcs, keys in merges:
            if not ordered(g, prev, n) or (prev is d0 and g.path_exists(g.node_of(n), g.node_of(d0))):
                self.issues.append((f"the merges into `{name}` are not executed in one fixed order", n))
            prev = n
            must = not guards(n, path_sensitive=True) and not any(isinstance(a, (ast.For, ast.AsyncFor, ast.While, ast.Try)) for a in source.ancestors(n) if any(a is x for x in walk_body(func)))
            sub = []
            for s_ in srcs:
                sub += self.layers(s_, func, cls, depth + 1)
            if isinstance(keys, ast.AST):
                sub.append(Layer("rally", frozenset([keys.value]) if isinstance(keys, ast.Constant) else None, isinstance(keys, ast.Constant), f"[{short(keys, 30)}]", n,
                                 vals={keys.value: (n.value, func, cls)} if isinstance(keys, ast.Constant) else None))
            elif keys:
                sub.append(Layer("rally", frozenset(keys), True, "update(k=...)", n, vals={k.arg: (k.value, func, cls) for k in n.keywords if k.arg}))
            for L in sub:
                out.append(Layer(L.origin, L.keys, L.must and must, L.text, n, L.src, L.vals))
        return out


def overridable(layers, keys, flow=None):
    """{key: layer or None} for every key whose FINAL value is not surely Rally's own: walking back from the last merged source, the first one that can hold the key is a user source
    (reported), or no Rally source holds it on every path (None), or the value Rally's own entry stores is itself read from one of the user sources of this composition
    (`d["http_port"] = plugin_variables.get("http_port", ...)`: the user layer is reported)."""
    bad = {}
    user_texts = {u(L.src) for L in layers if L.origin == "user"}
    for k in sorted(keys):
        for L in reversed(layers):
            if L.keys is None or k in L.keys:
                if L.origin == "user":
                    bad[k] = L
                    break
                if flow is not None and k in L.vals:
                    v, f, c = L.vals[k]
                    probe = DictFlow(flow.repo, flow.mod)  # a scratch instance: its issues are not this composition's
                    for x in ast.walk(v):
                        if isinstance(x, (ast.Name, ast.Attribute)) and isinstance(getattr(x, "ctx", None), ast.Load):
                            try:
                                hit = [U for U in probe.layers(x, f, c) if U.origin == "user" and u(U.src) in user_texts]
                            except AnchorMissing:
                                hit = []
                            if hit:
                                bad[k] = hit[0]
                                break
                    if k in bad:
                        break
                if L.must:
                    break
        else:
            bad[k] = None
    return bad


_SWALLOWS_OSERROR = ("OSError", "IOError", "EnvironmentError", "Exception", "BaseException")  # OSError, its aliases and its base classes (rmtree raises a plain OSError for a link)


def symlinked_data_path_rule(chk, rid, pv, cu, data_param):
    """cleanup removes ALL data paths: a data path is given by the user (car parameter data_paths) and may legally be a symbolic link to a directory on another disk. shutil.rmtree(<link>)
    refuses with OSError('Cannot call rmtree on a symbolic link'). Necessary: wherever the tree removal receives the data path itself, either the link case is handled (the call is
    only reached when the path is not a link and the link branch removes something or raises; or the path was resolved with realpath first), or the refusal is not swallowed (no handler
    for OSError without re-raise around the call or around the helper's calls, no ignore_errors / contextlib.suppress) - otherwise cleanup returns normally with the data still there."""
    own = [x for st in cu.body if not isinstance(st, (ast.FunctionDef, ast.AsyncFunctionDef, ast.ClassDef)) for x in source.walk_local(st)]
    loops = [x for x in own if isinstance(x, ast.For) and u(x.iter) == data_param and isinstance(x.target, ast.Name)]
    if not loops:
        raise AnchorMissing("cleanup: loop over the data paths")
    lv = loops[0].target.id
    # the code that removes ONE data path, by role: the callee that receives the loop variable (a nested or module-level helper), else the loop body itself
    hcalls = [x for x in ast.walk(loops[0]) if isinstance(x, ast.Call) and isinstance(x.func, ast.Name) and any(isinstance(a, ast.Name) and a.id == lv for a in x.args)]
    helper, hparam = None, None
    for c in hcalls:
        cand = [n for n in cu.body if isinstance(n, ast.FunctionDef) and n.name == c.func.id] or [n for n in pv.tree.body if isinstance(n, ast.FunctionDef) and n.name == c.func.id]
        if cand:
            b = source.bind_args(c, cand[0], skip_self=False)
            ps = [k for k, v in b.items() if isinstance(v, ast.Name) and v.id == lv]
            if ps:
                helper, hparam = cand[0], ps[0]
                break
    scope, pathv = (helper, hparam) if helper is not None else (loops[0], lv)
    rm = [x for x in ast.walk(scope) if isinstance(x, ast.Call) and dotted(x.func) == "shutil.rmtree" and x.args]
    if not rm:
        raise AnchorMissing("cleanup: the shutil.rmtree call that removes one data path")
    hdefs = local_defs(helper) if helper is not None else {}
    g = cfg_of(helper if helper is not None else cu)
    pb = {"p": pathv}
    LINK = ("os.path.islink(V_p)", "pathlib.Path(V_p).is_symlink()", "Path(V_p).is_symlink()", "V_p.is_symlink()")
    resolved = [n for n in ast.walk(scope) if isinstance(n, ast.Assign) and len(n.targets) == 1 and isinstance(n.targets[0], ast.Name) and n.targets[0].id == pathv
                and pat.is_(n.value, "os.path.realpath(V_p)", "pathlib.Path(V_p).resolve()", "Path(V_p).resolve()", "V_p.resolve()", binds=pb)]
    bad = []
    for r in rm:
        arg = source.inline_node(r.args[0], {k: v for k, v in hdefs.items() if k != pathv})
        on_link_itself = isinstance(arg, ast.Name) and arg.id == pathv  # anything else (realpath(p), an entry below p, ...) is not the user's link
        if not on_link_itself:
            continue
        if any(g.path_exists(g.node_of(a), g.node_of(r)) and not g.path_exists(g.node_of(r), g.node_of(a)) for a in resolved):
            # `p = os.path.realpath(p)` runs before the removal; when it is conditional its condition must be the link test
            if all(not pat.fact_nodes(a, stop=scope) or any(pat.is_(f, *LINK, binds=pb) for f in pat.fact_nodes(a, stop=scope)) for a in resolved):
                continue
        not_link = any(pat.is_(f, *[f"not {p_}" for p_ in LINK], binds=pb) for f in pat.fact_nodes(r, stop=scope))
        link_arm = [x for x in ast.walk(scope) if ((isinstance(x, ast.Call) and dotted(x.func) in ("shutil.rmtree", "os.remove", "os.unlink", "os.rmdir")) or isinstance(x, ast.Raise)) and x is not r
                    and any(pat.is_(f, *LINK, binds=pb) for f in pat.fact_nodes(x, stop=scope))]
        handled = not_link and bool(link_arm)
        if handled:
            continue
        # the refusal must then surface: look for whatever swallows an OSError of this call
        sw = None
        if any(k.arg in ("ignore_errors", "onerror", "onexc") for k in r.keywords) and not any(k.arg == "ignore_errors" and source.is_const(k.value, False) for k in r.keywords):
            sw = r
        sites = [r] + ([c for c in ast.walk(cu) if isinstance(c, ast.Call) and isinstance(c.func, ast.Name) and c.func.id == helper.name] if helper is not None else [])
        for s_ in sites:
            child = s_
            for a in source.ancestors(s_):
                if isinstance(a, (ast.FunctionDef, ast.AsyncFunctionDef)):
                    break
                if isinstance(a, ast.Try) and any(child is st for st in a.body):
                    for h in a.handlers:
                        names = [dotted(e_) or "?" for e_ in (h.type.elts if isinstance(h.type, ast.Tuple) else [h.type])] if h.type is not None else ["BaseException"]
                        if any(nm.split(".")[-1] in _SWALLOWS_OSERROR for nm in names) and not any(isinstance(x, ast.Raise) for x in ast.walk(h)):
                            sw = sw or h
                if isinstance(a, (ast.With, ast.AsyncWith)) and any(isinstance(i.context_expr, ast.Call) and last_attr(i.context_expr.func) == "suppress" for i in a.items):
                    sw = sw or a
                child = a
        if sw is not None:
            bad.append((r, sw))
    tag = source.qualname(helper) if helper is not None else source.qualname(cu)
    chk.ob(rid, "cleanup: a data path that is a symbolic link to a directory is removed as well, or the refusal of the tree removal is reported (not swallowed)", not bad, bad[0][0] if bad else rm[0],
           "" if not bad else f"`{short(bad[0][0], 40)}` receives the data path itself; for a symbolic link to a directory (data_paths on another disk) it raises OSError('Cannot call rmtree on a symbolic link'), "
           f"which {'the handler at line ' + str(bad[0][1].lineno) if isinstance(bad[0][1], ast.ExceptHandler) else short(bad[0][1], 40)} swallows: cleanup returns normally, the data survives into the next race",
           key=f"{_P}:{tag}:symlinked-data-path-removed-or-failure-reported")


def cleanup_isolation_rule(chk, rid, pv):
    """provisioner.cleanup: a path that cannot be deleted (OSError) does not stop the deletion of the remaining data paths and of the installation — either the removal call is
    protected for ONE path at a time (try/except OSError inside the helper / inside the loop body), or nothing in the function catches OSError at all (the failure is then reported,
    not swallowed). A try that spans the loop or several delete calls swallows the first failure together with all later deletions. Shared with C12 (clean up unless preserve)."""
    cu = pv.func("cleanup")
    cpar = params_of(cu)
    rms = [x for x in ast.walk(cu) if isinstance(x, ast.Call) and dotted(x.func) in ("shutil.rmtree", "os.remove", "os.rmdir", "os.unlink")]
    dels = [x for x in ast.walk(cu) if isinstance(x, ast.Call) and last_attr(x.func) in ("delete_path", "rmtree") and x not in rms]
    swallowing = [t for t in ast.walk(cu) if isinstance(t, ast.Try) and any((h.type is None or any(nm in (dotted(e_) or "") for e_ in (h.type.elts if isinstance(h.type, ast.Tuple) else [h.type])
                  for nm in ("OSError", "Exception", "BaseException", "IOError"))) and not any(isinstance(x, ast.Raise) for x in ast.walk(h)) for h in t.handlers)]
    bad = []
    for t in swallowing:
        inside = [x for st in t.body for x in ast.walk(st)]
        n_sites = sum(1 for x in inside if x in dels or x in rms)
        spans_loop = any(isinstance(x, (ast.For, ast.While)) and any(y in dels or y in rms for y in ast.walk(x)) for x in inside)
        if spans_loop or n_sites > 1:
            bad.append(t)
    chk.ob(rid, "cleanup: a failing deletion is contained per path (no handler swallows it together with the remaining deletions)", bool(rms or dels) and not bad, bad[0] if bad else cu,
           "" if not bad else f"the try at line {bad[0].lineno} spans {'the loop over the data paths' if any(isinstance(x, (ast.For, ast.While)) for st in bad[0].body for x in ast.walk(st)) else 'several deletions'}: "
           "the first path that cannot be removed leaves every later data path and the installation on disk while cleanup returns normally",
           key="esrally/mechanic/provisioner.py:cleanup:failure-contained-per-path")


def run(chk):
    repo = chk.repo
    tm, pv = repo.module(_T), repo.module(_P)
    chk.use(tm, pv, "docs/car.rst")
    chk.explanation = (
        "Decides precedence by merge-order analysis (later source wins): config-base variables < car variables < car parameters in the car loader, accumulated over the car names in the "
        "given order; Rally's node variables merged last in the installer; config bases appended in order under a not-in guard; template mirroring (target path = target root + path "
        "relative to the source root + name; text files appended with a rendered chunk that always ends in a newline; others copied; one extension table); cleanup deletes every data "
        "path and the installation unless preserve, in which case no delete is reachable; a symbolic-link data path is either handled or its refused removal is not swallowed. "
        "O13.5 models the variables the templates are rendered with as ordered merge layers (followed through locals, dict displays, properties and - by constructor field flow - "
        "through the installer objects): for every node variable of Rally the last layer that can hold it is Rally's own."
    )
    chk.not_decided = "Jinja output, filesystem effects, configparser interpolation."

    # ---- O13.1 merge order ---------------------------------------------------------------------------------------------------------------------
    chk.rule("O13.1", "merge order (later wins): config-base variables < car variables (car file < car params) in the loader; across cars accumulation in the given order; "
             "in the installer car variables < Rally's node variables (network host, ports, paths, names are in the last source)", 9,
             "any two sources defining one key: the documented precedence is inverted (e.g. a car overrides http_port, or --car-params does not override a mixin)")
    lc = tm.func("load_car")
    lp = params_of(lc)
    if len(lp) < 3:
        raise AnchorMissing("team.load_car(repo, name, car_params)")
    CL = tm.cls("CarLoader")
    cl = tm.methods(CL).get("load_car")
    if cl is None:
        raise AnchorMissing("CarLoader.load_car")
    cp = params_of(cl)
    if len(cp) < 3:
        raise AnchorMissing("CarLoader.load_car(self, name, car_params)")
    ret = [n for n in walk_body(lc) if isinstance(n, ast.Return) and isinstance(n.value, ast.Call) and last_attr(n.value.func) == "Car"]
    if not ret:
        raise AnchorMissing("return Car(...) in team.load_car")
    car_init = tm.methods(tm.cls("Car")).get("__init__")
    if car_init is None:
        raise AnchorMissing("Car.__init__")
    cargs = source.bind_args(ret[0].value, car_init)  # Car(...) arguments by PARAMETER name (positional or keyword)
    if "variables" not in cargs or "config_paths" not in cargs:
        raise AnchorMissing("variables / config_paths argument of Car(...) in team.load_car")
    var = u(cargs["variables"])
    seq, g = merges_into(lc, var)
    names = [s for s, _ in seq]
    # classify accumulators by what is merged into them in the loop
    loop = [n for n in walk_body(lc) if isinstance(n, ast.For) and u(n.iter) == lp[1]]
    chk.ob("O13.1", "cars are processed in the order given (plain loop over the names)", bool(loop), loop[0] if loop else lc, f"iterates `{u(loop[0].iter)}`" if loop else "no loop over the car names themselves (sorted/reversed/set?)")
    acc_roles = {}
    if loop:
        for n in ast.walk(loop[0]):
            if isinstance(n, ast.Call) and isinstance(n.func, ast.Attribute) and n.func.attr == "update" and n.args:
                src = u(n.args[0])
                role = "config-base" if src.endswith(".config_base_variables") else ("car" if src.endswith(".variables") else None)
                if role:
                    acc_roles[u(n.func.value)] = role
                    gs = guards(n, stop=loop[0])
                    chk.ob("O13.1", f"{role} variables of every car are accumulated unconditionally", not gs, n, f"guards {[(u(t), p) for t, p in gs]}" if gs else "")
    role_seq = [acc_roles.get(s, s) for s in names]
    ok = role_seq == ["config-base", "car"] and all(not guards(n) for _, n in seq) and ordered(g, seq[0][1], seq[1][1]) if len(seq) == 2 else False
    chk.ob("O13.1", "loader: config-base variables merged before car variables", ok, seq[0][1] if seq else lc, f"merge order into `{var}`: {role_seq}")
    dl = [n for n in ast.walk(loop[0]) if isinstance(n, ast.Call) and last_attr(n.func) == "load_car"] if loop else []
    dargs = source.bind_args(dl[0], cl) if dl else {}  # by parameter name of CarLoader.load_car
    ok = bool(dl) and u(dargs.get(cp[1])) == u(loop[0].target) and u(dargs.get(cp[2])) == lp[2]
    chk.ob("O13.1", "car parameters handed to every car/mixin descriptor", ok, dl[0] if dl else lc, "")
    cret = [n for n in walk_body(cl) if isinstance(n, ast.Return) and isinstance(n.value, ast.Call) and last_attr(n.value.func) == "CarDescriptor"]
    if not cret:
        raise AnchorMissing("return CarDescriptor(...)")
    cd_init = tm.methods(tm.cls("CarDescriptor")).get("__init__")
    if cd_init is None:
        raise AnchorMissing("CarDescriptor.__init__")
    cdargs = source.bind_args(cret[0].value, cd_init)  # CarDescriptor(...) arguments by parameter name
    if not {"variables", "config_base_variables", "config_paths"} <= set(cdargs):
        raise AnchorMissing("variables / config_base_variables / config_paths argument of CarDescriptor(...)")
    vvar = u(cdargs["variables"])
    bvar = u(cdargs["config_base_variables"])
    cs = tm.methods(CL).get("_copy_section")
    if cs is None or len(params_of(cs)) < 4:
        raise AnchorMissing("CarLoader._copy_section(self, cfg, section, target)")
    _, cs_cfg, cs_section, cs_target = params_of(cs)[:4]

    def copy_section_args(call):
        """arguments of a self._copy_section(...) call by parameter name, {} for any other node."""
        return source.bind_args(call, cs) if isinstance(call, ast.Call) and last_attr(call.func) == "_copy_section" else {}

    vdef = assigns_to(cl, vvar)
    va = copy_section_args(vdef[0].value) if len(vdef) == 1 else {}
    ok = len(vdef) == 1 and cs_section in va and source.is_const(va[cs_section], "variables") and not guards(vdef[0])
    chk.ob("O13.1", "car variables start from the car file's [variables] section", ok, vdef[0] if vdef else cl, "")
    seq2, g2 = merges_into(cl, vvar)
    ok = len(seq2) == 1 and seq2[0][0] == cp[2] and bool(vdef) and ordered(g2, vdef[0], seq2[0][1])
    chk.ob("O13.1", "car parameters merged after the car file's variables", ok, seq2[0][1] if seq2 else cl, f"merges into `{vvar}`: {[s for s, _ in seq2]}")
    if seq2:
        gs = guards(seq2[0][1])
        # every guard FACT (polarity resolved, conjunctions split) is the presence of the parameters themselves
        ok = all(pat.is_(f, "V_p", "V_p is not None", binds={"p": cp[2]}) for f in pat.fact_nodes(seq2[0][1], path_sensitive=False))
        chk.ob("O13.1", "car parameters applied to every descriptor (guarded only by their presence)", ok, seq2[0][1], f"guards {[(u(t), p) for t, p in gs]}" + ("" if ok else " — mixins / cars on the other branch do not get the parameters"))
    cb = [n for n in walk_body(cl) if u(copy_section_args(n).get(cs_target)) == bvar]
    ok = bool(cb) and source.is_const(copy_section_args(cb[0]).get(cs_section), "variables")
    chk.ob("O13.1", "config-base variables come from each base's config.ini [variables]", ok, cb[0] if cb else cl, "")
    # _copy_section: target.update / item stores of the section
    ok = any(isinstance(n, ast.Return) and u(n.value) == cs_target for n in walk_body(cs))
    chk.ob("O13.1", "_copy_section returns the target it filled", ok, cs, "")
    EI = pv.cls("ElasticsearchInstaller")
    ev_ = pv.methods(EI).get("variables")
    if ev_ is None:
        raise AnchorMissing("ElasticsearchInstaller.variables")
    # The installer's variables as ordered layers (later wins), followed through locals and through properties of the class (the node variables may live in a local dict or in
    # a property of their own): the car's variables are the first layer, every layer is merged unconditionally into a NEW dict, and for each of Rally's node variables the last
    # layer that can hold it is a dict written by Rally that does hold it.
    flow = DictFlow(repo, pv)
    L3 = flow.returned(ev_, EI, 0)
    over3 = overridable(L3, INTERNAL_KEYS, flow)
    held = set().union(*[L.keys for L in L3 if L.origin == "rally" and L.keys is not None]) if L3 else set()
    ok = len(L3) >= 2 and L3[0].origin == "user" and pat.is_(L3[0].src, "self.car.variables") and not over3 and all(L.must for L in L3) and not flow.issues
    chk.ob("O13.1", "installer: car variables merged before Rally's node variables", ok, (flow.issues[0][1] if flow.issues else L3[-1].node) if L3 else ev_,
           f"merge order: {[L.show() for L in L3]}; internal keys missing from the last source: {sorted(INTERNAL_KEYS - held)}" +
           ("".join(f"; `{k}` can be overridden by {L.show() if L is not None else 'nothing of Rally defines it'}" for k, L in sorted(over3.items())[:3])) + "".join(f"; {t}" for t, _ in flow.issues))
    BP = pv.cls("BareProvisioner")
    pvf = pv.methods(BP).get("_provisioner_variables")
    rvp = [n for n in walk_body(pvf) if isinstance(n, ast.Return)] if pvf else []
    if pvf is None or not rvp:
        raise AnchorMissing("BareProvisioner._provisioner_variables")
    seq4, g4 = merges_into(pvf, u(rvp[0].value))
    n4 = [s for s, _ in seq4]
    # decided on the merge layers (not on the spelling of the first update): the composed variables BEGIN with exactly the layers of the installer's `variables` property
    # (car variables, then Rally's node variables), all merged unconditionally - whether through update calls, a dict display or a dict(...) copy
    flow5 = DictFlow(repo, pv)
    L5 = flow5.returned(pvf, BP, 0)
    sig = lambda L: (L.origin, L.keys, L.must, u(L.src))  # noqa: E731
    ok = bool(L3) and [sig(L) for L in L5[:len(L3)]] == [sig(L) for L in L3] and all(L.must for L in L3)
    chk.ob("O13.1", "provisioner variables start from the installer's variables", ok, seq4[0][1] if seq4 else pvf, f"merge order: {[L.show() for L in L5]}")
    # the plugin-variable accumulator by ROLE: the local that collects `<installer>.variables` in the loop over self.plugin_installers
    plug_acc = {u(x.func.value) for l in walk_body(pvf) if isinstance(l, ast.For) and u(l.iter) == "self.plugin_installers" for x in ast.walk(l)
                if isinstance(x, ast.Call) and isinstance(x.func, ast.Attribute) and x.func.attr == "update" and x.args and isinstance(x.args[0], ast.Attribute) and x.args[0].attr == "variables"}
    late = [n for s_, n in seq4[1:] if s_ in plug_acc]
    if late:
        chk.adv("O13.1", "plugin variables are merged after the installer's variables: a plugin variable overrides a CAR variable of the same name (plugin-over-car precedence is outside the "
                "property's statement; that Rally's node variables still win is O13.5)", late[0])

    # ---- O13.2 config bases in order without duplicates ---------------------------------------------------------------------------------------------------
    chk.rule("O13.2", "config bases are appended in the given order, guarded by `not in` (no duplicates, no re-ordering)", 3, "two cars sharing a config base: its templates are rendered twice (appended twice)")
    # the accumulator of the config paths by ROLE: the list that receives, inside the loop over the car names, the elements of an inner loop over `<descriptor>.config_paths`
    apps = [n for n in ast.walk(loop[0]) if isinstance(n, ast.Call) and last_attr(n.func) == "append" and isinstance(n.func, ast.Attribute) and len(n.args) == 1] if loop else []
    cfgapp = []
    for n in apps:
        inner = source.enclosing(n, ast.For)
        if inner is not None and inner is not loop[0] and isinstance(inner.iter, ast.Attribute) and inner.iter.attr == "config_paths" and u(n.args[0]) == u(inner.target):
            cfgapp.append(n)
    ok = False
    if cfgapp:
        a = cfgapp[0]
        # exactly one guard fact (polarity / arm order resolved): the appended element is not yet in the accumulator
        fs = pat.fact_nodes(a, stop=loop[0])
        ok = len(fs) == 1 and pat.is_(fs[0], "E_x not in E_acc", binds={"x": u(a.args[0]), "acc": u(a.func.value)})
    chk.ob("O13.2", "config paths appended under `not in`", ok, cfgapp[0] if cfgapp else lc, "")
    resort = [n for n in walk_body(lc) if isinstance(n, ast.Call) and (dotted(n.func) in ("sorted", "reversed", "set") or last_attr(n.func) in ("sort", "reverse"))]
    chk.ob("O13.2", "no re-ordering of the accumulated paths", not resort, resort[0] if resort else lc, "")
    ok = bool(cfgapp) and u(cargs["config_paths"]) == u(cfgapp[0].func.value)
    chk.ob("O13.2", "the accumulated config paths are the car's config paths", ok, ret[0], "")
    # the loop over a car's config bases by ROLE: the loop that fills the descriptor's config paths / copies the bases' [variables] sections
    dcfg = u(cdargs["config_paths"])
    fills = [n for n in walk_body(cl) if isinstance(n, ast.Call) and ((last_attr(n.func) == "append" and isinstance(n.func, ast.Attribute) and u(n.func.value) == dcfg) or any(n is c for c in cb))]
    bl = [l for l in (source.enclosing(n, ast.For) for n in fills) if l is not None and source.enclosing_func(l) is cl]
    bl = [l for i, l in enumerate(bl) if not any(l is m for m in bl[:i])]
    it = bl[0].iter if bl else None
    it = local_defs(cl).get(it.id, it) if isinstance(it, ast.Name) else it
    ok = bool(bl) and isinstance(it, ast.Call) and last_attr(it.func) == "split"
    chk.ob("O13.2", "a car's config bases are applied in the order written (split on ',')", ok, bl[0] if bl else cl, "")
    req = [n for n in walk_body(lc) if isinstance(n, ast.Raise)]
    # a raise whose guard facts say that the accumulated config paths are empty (any polarity / orientation / spelling of emptiness)
    accv = u(cfgapp[0].func.value) if cfgapp else u(cargs["config_paths"])
    req_ok = [r for r in req if pat.guarded(r, "len(E_acc) == 0", "not E_acc", "len(E_acc) < 1", "E_acc == []", binds={"acc": accv}) is not None]
    chk.ob("O13.2", "at least one config base is required", bool(req_ok), req_ok[0] if req_ok else (req[0] if req else lc), "")

    # ---- O13.3 template mirroring ---------------------------------------------------------------------------------------------------------------------------
    chk.rule("O13.3", "target path == join(target root, path of the file's directory relative to the source root, name); text files are opened in append mode and receive the rendered template "
             "which always ends with a newline; other files are copied verbatim; the text/binary predicate is one extension table; every config base is applied in order", 8,
             "a template in a sub-directory lands elsewhere; a second base overwrites instead of appending; appended text glued onto the previous last line")
    walks = [(f, n) for f in pv.functions() for n in walk_body(f) if isinstance(n, ast.For) and isinstance(n.iter, ast.Call) and dotted(n.iter.func) == "os.walk"
             and any(isinstance(x, ast.Call) and last_attr(x.func) == "_render_template" for x in ast.walk(n))]
    chk.ob("O13.3", "template-mirroring sites located (bare and docker provisioner)", len(walks) >= 2, pv.tree, f"{len(walks)} os.walk site(s) rendering templates")
    rt = pv.func("_render_template")
    rp = params_of(rt)
    if len(rp) < 3:
        raise AnchorMissing("_render_template(env, variables, file_name)")

    def is_join(e, n=2):
        return isinstance(e, ast.Call) and dotted(e.func) == "os.path.join" and len(e.args) == n and not e.keywords

    for fn, W in walks:
        tag = source.qualname(fn)
        if not (isinstance(W.target, ast.Tuple) and len(W.target.elts) == 3 and isinstance(W.target.elts[0], ast.Name) and isinstance(W.target.elts[2], ast.Name) and W.iter.args):
            raise AnchorMissing(f"{tag}: `for <root>, <dirs>, <files> in os.walk(<source root>)`")
        # locals assigned exactly once inside the walk: name -> (value, statement). All names below are derived by ROLE from the data flow, never by spelling.
        acount, astmt = {}, {}
        for n in ast.walk(W):
            if isinstance(n, ast.Assign) and len(n.targets) == 1 and isinstance(n.targets[0], ast.Name):
                acount[n.targets[0].id] = acount.get(n.targets[0].id, 0) + 1
                astmt[n.targets[0].id] = n
        astmt = {k: v for k, v in astmt.items() if acount[k] == 1}
        adefs = {k: v.value for k, v in astmt.items()}
        src_root = u(W.iter.args[0])
        rootv = W.target.elts[0].id  # the walked directory (tuple position 0 of os.walk's items)
        filesv = W.target.elts[2].id  # its file names (tuple position 2)
        nameloops = [n for n in ast.walk(W) if isinstance(n, ast.For) and n is not W and isinstance(n.iter, ast.Name) and n.iter.id == filesv and isinstance(n.target, ast.Name)]
        NL = nameloops[0] if nameloops else None
        namev = NL.target.id if NL is not None else None  # loop variable of the loop over the file names
        in_nl = lambda k: NL is not None and any(x is astmt[k] for x in ast.walk(NL))  # noqa: E731
        # source file: the local defined (inside the loop over the names) as join(walked directory, name)
        srcs = [k for k, v in adefs.items() if in_nl(k) and is_join(v) and pat.is_(v, "os.path.join(V_root, V_name)", binds={"root": rootv, "name": namev})]
        srcv = srcs[0] if srcs else None
        # target file: the local that is opened
        opens = [n for n in ast.walk(W) if isinstance(n, ast.Call) and dotted(n.func) == "open"]
        tgtn = arg_of(opens[0], 0, "file") if opens else None
        tgtv = tgtn.id if isinstance(tgtn, ast.Name) else None
        tdef = adefs.get(tgtv) if tgtv is not None and in_nl(tgtv) else None
        # target file == join(<target dir>, name) with <target dir> == join(target root, <relative root>), each possibly through a single-assignment local
        tdir = tdef.args[0] if is_join(tdef) else None
        while isinstance(tdir, ast.Name) and tdir.id in adefs:
            tdir = adefs[tdir.id]
        relnode = tdir.args[1] if is_join(tdir) else None
        rel = adefs.get(relnode.id) if isinstance(relnode, ast.Name) else relnode  # the relative-root expression: second component of the target directory
        relok = rel is not None and pat.is_(rel, "V_root[len(E_src) + 1:]", "V_root[1 + len(E_src):]", "os.path.relpath(V_root, E_src)", binds={"root": rootv, "src": src_root})
        chk.ob("O13.3", f"{tag}: relative root == directory path relative to the source root", relok, (astmt[relnode.id] if isinstance(relnode, ast.Name) and relnode.id in astmt else rel) if rel is not None else W, u(rel) if rel is not None else "")
        ok = is_join(tdef) and is_join(tdir) and rel is not None and isinstance(tdef.args[1], ast.Name) and tdef.args[1].id == namev
        chk.ob("O13.3", f"{tag}: target file == join(join(target root, relative root), name)", ok, astmt[tgtv] if tdef is not None else W, u(tdef) if tdef is not None else "")
        ok = False
        if opens:
            mode = arg_of(opens[0], 1, "mode")
            b = pat.guarded(opens[0], "plain_text(V_f)", stop=W)
            ok = tgtv is not None and mode is not None and isinstance(mode, ast.Constant) and mode.value in ("a", "a+", "at") and b is not None and b["f"] in (srcv, tgtv)
        chk.ob("O13.3", f"{tag}: text files opened in append mode", ok, opens[0] if opens else W, f"mode={u(arg_of(opens[0], 1, 'mode')) if opens else None}")
        wr = [n for n in ast.walk(W) if isinstance(n, ast.Call) and last_attr(n.func) == "write" and n.args]
        wa = source.bind_args(wr[0].args[0], rt) if wr and isinstance(wr[0].args[0], ast.Call) and last_attr(wr[0].args[0].func) == "_render_template" else {}
        ok = bool(wa) and srcv is not None and u(wa.get(rp[2])) == srcv
        chk.ob("O13.3", f"{tag}: the rendered template is written", ok, wr[0] if wr else W, "")
        # templates are looked up by BASE name, so the environment (and with it Jinja's template cache, keyed by loader and name) must belong to the walked directory
        rcall = [n for n in ast.walk(W) if isinstance(n, ast.Call) and last_attr(n.func) == "_render_template"]
        envarg = source.bind_args(rcall[0], rt).get(rp[0]) if rcall else None
        envdef = adefs.get(envarg.id) if isinstance(envarg, ast.Name) else envarg
        ok = isinstance(envdef, ast.Call) and last_attr(envdef.func) == "Environment" and any(
            isinstance(x, ast.Call) and last_attr(x.func) == "FileSystemLoader" and x.args and u(x.args[0]) == rootv for x in ast.walk(envdef))
        chk.ob("O13.3", f"{tag}: a fresh template environment per walked directory, loading from that directory", ok, rcall[0] if rcall else W,
               (u(envdef)[:80] if envdef is not None else "environment is not created inside the walk") + ("" if ok else " — same-named templates of different directories share one cached template"),
               key=f"{_P}:{tag}:env-per-directory")
        cps = [n for n in ast.walk(W) if isinstance(n, ast.Call) and dotted(n.func) in ("shutil.copy", "shutil.copy2", "shutil.copyfile")]
        b = pat.guarded(cps[0], "not plain_text(V_f)", stop=W) if cps else None
        ok = bool(cps) and srcv is not None and tgtv is not None and [u(a) for a in cps[0].args] == [srcv, tgtv] and b is not None and b["f"] in (srcv, tgtv)
        chk.ob("O13.3", f"{tag}: other files copied verbatim", ok, cps[0] if cps else W, "")
        chk.ob("O13.3", f"{tag}: source file == join(walked directory, name)", srcv is not None, astmt[srcv] if srcv is not None else W, u(adefs[srcv]) if srcv is not None else f"no local is defined as os.path.join({rootv}, {namev}) in the loop over `{filesv}`")
    # docker provisioner: same precedence for its own variables
    DP = pv.cls("DockerProvisioner")
    dinit = pv.methods(DP).get("__init__")
    if dinit is None:
        raise AnchorMissing("DockerProvisioner.__init__")
    seq5, g5 = merges_into(dinit, "self.config_vars")
    n5 = [s_ for s_, _ in seq5]
    ddefs = local_defs(dinit)
    lastd = ddefs.get(n5[-1]) if n5 and n5[-1] in ddefs else None
    dkeys = {k.value for k in lastd.keys if isinstance(k, ast.Constant)} if isinstance(lastd, ast.Dict) else set()
    ok = len(n5) >= 2 and n5[0] == "self.car.variables" and {"network_host", "http_port", "transport_port", "data_paths", "node_name", "cluster_name"} <= dkeys and ordered(g5, seq5[0][1], seq5[-1][1])
    chk.ob("O13.1", "docker provisioner: car variables merged before Rally's node variables", ok, seq5[-1][1] if seq5 else dinit, f"merge order: {n5}")
    rets = [n for n in walk_body(rt) if isinstance(n, ast.Return)]
    ok = False
    if len(rets) == 1 and rets[0].value is not None:
        v = source.inline_node(rets[0].value, local_defs(rt))  # through single-assignment locals (`template`, a local holding the rendered text, ...)
        ok = isinstance(v, ast.BinOp) and isinstance(v.op, ast.Add) and source.is_const(v.right, "\n") and isinstance(v.left, ast.Call) and last_attr(v.left.func) in ("render", "rstrip")
    chk.ob("O13.3", "every rendered chunk ends with a newline (appended snippets never glue onto the previous line)", ok, rets[0] if rets else rt, u(rets[0].value) if rets else "")
    pt = pv.func("plain_text")
    ptd = local_defs(pt)

    def table_of(e):
        """the literal collection a membership test reads: written in place, or a single-assignment local / module constant holding it."""
        if isinstance(e, ast.Name):
            e = ptd.get(e.id) if e.id in ptd else pv.module_constant(e.id)
        return e if isinstance(e, (ast.List, ast.Tuple, ast.Set)) else None

    ok = any(isinstance(n, ast.Return) and isinstance(n.value, ast.Compare) and len(n.value.ops) == 1 and isinstance(n.value.ops[0], ast.In) and table_of(n.value.comparators[0]) is not None and
             {".yml", ".yaml", ".options", ".properties", ".json", ".ini", ".txt"} <= {e.value for e in table_of(n.value.comparators[0]).elts if isinstance(e, ast.Constant)} for n in walk_body(pt))
    chk.ob("O13.3", "text/binary predicate is one extension table (incl. .yml .options .properties)", ok, pt, "")
    prep = pv.methods(BP).get("prepare")
    if prep is None:
        raise AnchorMissing("BareProvisioner.prepare")
    loops = [n for n in walk_body(prep) if isinstance(n, ast.For) and u(n.iter) == "self.es_installer.config_source_paths"]
    ok = bool(loops) and any(isinstance(x, ast.Call) and u(x.func) == "self.apply_config" and x.args and u(x.args[0]) == u(loops[0].target) for x in ast.walk(loops[0])) and not guards(loops[0])
    chk.ob("O13.3", "every config base is applied, in order", ok, loops[0] if loops else prep, "")
    csp = pv.methods(EI).get("config_source_paths")
    ok = csp is not None and any(isinstance(n, ast.Return) and u(n.value) == "self.car.config_paths" for n in walk_body(csp))
    chk.ob("O13.3", "config source paths are the car's config paths (as accumulated)", ok, csp if csp is not None else EI, "")

    # ---- O13.4 cleanup -------------------------------------------------------------------------------------------------------------------------------------------
    chk.rule("O13.4", "cleanup: on the preserve-true edge no delete is reachable; on the false edge every data path and the install dir are deleted (no filter)", 4,
             "preserve-install removes something; or a data path outside the install dir is left behind")
    cu = pv.func("cleanup")
    cp_ = params_of(cu)
    if len(cp_) < 3:
        raise AnchorMissing("cleanup(preserve, install_dir, data_paths)")
    pb = {"p": cp_[0]}
    ifs = [n for st in cu.body if not isinstance(st, (ast.FunctionDef, ast.AsyncFunctionDef, ast.ClassDef)) for n in source.walk_local(st) if isinstance(n, ast.If) and pat.is_(n.test, "V_p", "not V_p", binds=pb)]
    if not ifs:
        raise AnchorMissing("branch on preserve in cleanup")
    I = ifs[0]
    # decided on the CFG edges of the test, not on arm position: the preserve edge is the true edge of `if preserve` / the false edge of `if not preserve`
    gc = cfg_of(cu)
    tn = gc.node_of(I)
    pres_lab, del_lab = ("true", "false") if pat.is_(I.test, "V_p", binds=pb) else ("false", "true")
    after_pres = gc.reachable(gc.edge_targets(tn, pres_lab))  # everything that can still run once the preserve edge was taken
    own = [x for st in cu.body if not isinstance(st, (ast.FunctionDef, ast.AsyncFunctionDef, ast.ClassDef)) for x in source.walk_local(st)]  # cleanup's own code (the nested delete_path helper is checked separately)
    dcalls = [x for x in own if isinstance(x, ast.Call) and last_attr(x.func) in ("delete_path", "rmtree", "remove", "unlink", "rmdir") and not is_logging_call(x)]
    dels_in_pres = [x for x in dcalls if gc.node_of(x).id in after_pres]
    chk.ob("O13.4", "nothing deleted when preserving", not dels_in_pres, I, f"reachable on the preserve edge: line {dels_in_pres[0].lineno}: {short(dels_in_pres[0])}" if dels_in_pres else "")
    # every other delete of the function is reachable only through the delete edge of that test (so none runs on the preserve edge, before the test or after the branch)
    outside = [x for x in dcalls if last_attr(x.func) in ("delete_path", "rmtree") and not gc.dominated_by_edge(gc.node_of(x), tn, del_lab)]
    chk.ob("O13.4", "no delete outside the preserve branch", not outside, outside[0] if outside else cu, "")
    in_del = lambda x: gc.dominated_by_edge(gc.node_of(x), tn, del_lab)  # noqa: E731
    dl = [x for x in own if isinstance(x, ast.For) and u(x.iter) == cp_[2] and in_del(x)]
    lbody = [s_ for s_ in dl[0].body if not (isinstance(s_, ast.Expr) and is_logging_call(s_.value))] if dl else []
    ok = bool(dl) and len(lbody) == 1 and isinstance(lbody[0], ast.Expr) and isinstance(lbody[0].value, ast.Call) and last_attr(lbody[0].value.func) == "delete_path" and len(lbody[0].value.args) == 1 and u(lbody[0].value.args[0]) == u(dl[0].target)
    chk.ob("O13.4", "every data path is deleted (unconditional loop)", ok, dl[0] if dl else I, "" if ok else "the loop over the data paths filters or skips some paths")
    di = [x for x in own if isinstance(x, ast.Call) and last_attr(x.func) == "delete_path" and len(x.args) == 1 and u(x.args[0]) == cp_[1] and in_del(x)]
    # unconditional on the delete edge: its only guard fact is `not preserve`
    ok = bool(di) and all(pat.is_(f, "not V_p", binds=pb) for f in pat.fact_nodes(di[0]))
    chk.ob("O13.4", "the installation directory is deleted", ok, di[0] if di else I, "")
    dp = [n for n in cu.body if isinstance(n, ast.FunctionDef) and n.name == "delete_path"]
    ok = bool(dp) and any(isinstance(x, ast.Call) and dotted(x.func) == "shutil.rmtree" and x.args and params_of(dp[0]) and u(x.args[0]) == params_of(dp[0])[0] for x in ast.walk(dp[0]))
    chk.ob("O13.4", "delete_path removes the given tree", ok, dp[0] if dp else cu, "")
    cleanup_isolation_rule(chk, "O13.4", pv)
    symlinked_data_path_rule(chk, "O13.4", pv, cu, cp_[2])

    # ---- O13.5 Rally's node variables win in the variables the templates are rendered with (F37) -------------------------------------------------------------------
    chk.rule("O13.5", "the variables every config template is rendered with: for each of Rally's node variables (network host, ports, paths, names) the LAST merged source that can hold "
             "the key is a dict written by Rally that holds it on every path - no car, plugin or other user-controlled source is merged after it; and these composed variables are "
             "the ones handed to the renderer", 3,
             "a plugin variable / plugin parameter (or any later user source) named http_port, network_host, node_name, data_paths, ... replaces Rally's value in the rendered "
             "elasticsearch.yml while Rally itself (launcher, telemetry, cleanup) keeps using its own")
    over5 = overridable(L5, INTERNAL_KEYS, flow5)
    first_bad = next((L for _, L in sorted(over5.items()) if L is not None), None)
    chk.ob("O13.5", "bare provisioner: Rally's node variables are the last source of their keys (no car / plugin / user source is merged after them)", bool(L5) and not over5 and not flow5.issues,
           (first_bad.node if first_bad is not None else (flow5.issues[0][1] if flow5.issues else pvf)),
           f"merge order: {[L.show() for L in L5]}" + "".join(f"; `{k}` is taken from {L.show() if L is not None else 'no source of Rally on every path'}" for k, L in sorted(over5.items())[:4]) +
           (f" (+{len(over5) - 4} more keys)" if len(over5) > 4 else "") + "".join(f"; {t}" for t, _ in flow5.issues),
           key=f"{_P}:BareProvisioner._provisioner_variables:node-variables-merged-last")
    # the composed variables reach the renderer: every apply_config(...) of prepare receives, as the parameter that flows into _render_template's variables, the result of that method
    binit = pv.methods(BP).get("__init__")
    if binit is None:
        raise AnchorMissing("BareProvisioner.__init__")
    # the function behind self.apply_config, by field flow: `self.apply_config = <parameter>` whose default is a module-level function
    positional = binit.args.posonlyargs + binit.args.args
    dflt = dict(zip([a.arg for a in positional[len(positional) - len(binit.args.defaults):]], binit.args.defaults))
    dflt.update({a.arg: d for a, d in zip(binit.args.kwonlyargs, binit.args.kw_defaults) if d is not None})
    ac_set = [n.value for n in walk_body(binit) if isinstance(n, ast.Assign) and len(n.targets) == 1 and is_self_attr(n.targets[0], "apply_config")]
    ac_default = dflt.get(ac_set[0].id) if len(ac_set) == 1 and isinstance(ac_set[0], ast.Name) else (ac_set[0] if len(ac_set) == 1 else None)
    acf = pv.get(ac_default.id, required=False) if isinstance(ac_default, ast.Name) else None
    if not isinstance(acf, ast.FunctionDef):
        raise AnchorMissing("BareProvisioner.__init__(..., apply_config=<module function>)")
    rcalls = [n for n in ast.walk(acf) if isinstance(n, ast.Call) and last_attr(n.func) == "_render_template"]
    vparam = next((u(source.bind_args(c, rt, skip_self=False).get(rp[1])) for c in rcalls if u(source.bind_args(c, rt, skip_self=False).get(rp[1])) in params_of(acf)), None)
    if vparam is None:
        raise AnchorMissing(f"{acf.name}: the parameter handed to _render_template as `{rp[1]}`")
    acalls = [n for n in walk_body(prep) if isinstance(n, ast.Call) and pat.is_(n.func, "self.apply_config")]
    pdefs = local_defs(prep)

    def composed(e):
        v = pdefs.get(e.id) if isinstance(e, ast.Name) else e
        return isinstance(v, ast.Call) and isinstance(v.func, ast.Attribute) and isinstance(v.func.value, ast.Name) and v.func.value.id == "self" and v.func.attr == pvf.name

    badc = [c for c in acalls if not composed(source.bind_args(c, acf, skip_self=False).get(vparam))]
    mut = [n for n in walk_body(prep) for e in [source.bind_args(c, acf, skip_self=False).get(vparam) for c in acalls] if isinstance(e, ast.Name)
           and ((isinstance(n, ast.Call) and isinstance(n.func, ast.Attribute) and n.func.attr in ("update", "pop", "setdefault", "clear") and u(n.func.value) == e.id)
                or (isinstance(n, (ast.Assign, ast.Delete)) and any(isinstance(t, ast.Subscript) and u(t.value) == e.id for t in n.targets)))]
    chk.ob("O13.5", "bare provisioner: every config base is rendered with the composed variables (unchanged between composition and rendering)", bool(acalls) and not badc and not mut,
           (badc or mut or [prep])[0], f"{len(acalls)} apply_config call(s)" + (f"; `{short((badc or mut)[0], 70)}`" if badc or mut else ""))
    # docker provisioner: the same question for the attribute its templates are rendered with
    dwalk = [W for f_, W in walks if source.enclosing_class(f_) is DP]
    drc = [n for W in dwalk for n in ast.walk(W) if isinstance(n, ast.Call) and last_attr(n.func) == "_render_template"]
    dvar = source.bind_args(drc[0], rt, skip_self=False).get(rp[1]) if drc else None
    if dvar is None or not is_self_attr(dvar):
        raise AnchorMissing("DockerProvisioner: the self attribute handed to _render_template as variables")
    flow6 = DictFlow(repo, pv)
    L6 = flow6.variable(dvar, dinit, DP, 0) or []
    DOCKER_KEYS = {"network_host", "http_port", "transport_port", "data_paths", "node_name", "cluster_name", "log_path", "install_root_path"}
    over6 = overridable(L6, DOCKER_KEYS, flow6)
    elsewhere = [n for f_ in pv.methods(DP).values() if f_ is not dinit for n in walk_body(f_)
                 if (isinstance(n, ast.Call) and isinstance(n.func, ast.Attribute) and n.func.attr in ("update", "pop", "setdefault", "clear") and u(n.func.value) == u(dvar))
                 or (isinstance(n, ast.Assign) and any(u(t) == u(dvar) or (isinstance(t, ast.Subscript) and u(t.value) == u(dvar)) for t in n.targets))]
    bad6 = next((L for _, L in sorted(over6.items()) if L is not None), None)
    chk.ob("O13.5", "docker provisioner: Rally's node variables are the last source of their keys in the variables its templates are rendered with", bool(L6) and not over6 and not flow6.issues and not elsewhere,
           bad6.node if bad6 is not None else (elsewhere[0] if elsewhere else dinit), f"merge order: {[L.show() for L in L6]}" + "".join(f"; `{k}` is taken from {L.show() if L is not None else 'no source of Rally on every path'}" for k, L in sorted(over6.items())[:4]) +
           "".join(f"; {t}" for t, _ in flow6.issues) + (f"; changed again in {source.qualname(elsewhere[0])}" if elsewhere else ""),
           key=f"{_P}:DockerProvisioner.__init__:node-variables-merged-last")


from sa.selftest import V  # noqa: E402

VARIANTS = [
    V("loader: swap the two updates", "break", _T, "    variables.update(all_config_base_vars)\n    variables.update(all_car_vars)", "    variables.update(all_car_vars)\n    variables.update(all_config_base_vars)", "O13.1"),
    V("installer: car variables win", "break", _P, "        variables.update(self.car.variables)\n        variables.update(self.node_variables)", "        variables.update(self.node_variables)\n        variables.update(self.car.variables)", "O13.1"),
    V("car params before the car file", "break", _T, "        variables = self._copy_section(config, \"variables\", {})\n        # add all car params here to override any defaults\n        if car_params:\n            variables.update(car_params)",
      "        variables = dict(car_params) if car_params else {}\n        self._copy_section(config, \"variables\", variables)", "O13.1"),
    V("seed m1: car params not applied to mixins", "break", _T, "        variables = self._copy_section(config, \"variables\", {})\n        # add all car params here to override any defaults\n        if car_params:\n            variables.update(car_params)",
      "        variables = self._copy_section(config, \"variables\", {})\n        if len(config_paths) > 0 and car_params:\n            variables.update(car_params)", "O13.1"),
    V("cars sorted by name", "break", _T, "    for n in name:\n        descriptor = CarLoader(repo).load_car(n, car_params)", "    for n in sorted(name):\n        descriptor = CarLoader(repo).load_car(n, car_params)", "O13.1"),
    V("duplicate config bases", "break", _T, "            if p not in all_config_paths:\n                all_config_paths.append(p)", "            all_config_paths.append(p)", "O13.2"),
    V("bare: open with w", "break", _P, "                with open(target_file, mode=\"a\", encoding=\"utf-8\") as f:\n                    f.write(_render_template(env, config_vars, source_file))", "                with open(target_file, mode=\"w\", encoding=\"utf-8\") as f:\n                    f.write(_render_template(env, config_vars, source_file))", "O13.3"),
    V("docker: open with w", "break", _P, "                        with open(target_file, mode=\"a\", encoding=\"utf-8\") as f:\n                            f.write(_render_template(env, self.config_vars, source_file))", "                        with open(target_file, mode=\"w\", encoding=\"utf-8\") as f:\n                            f.write(_render_template(env, self.config_vars, source_file))", "O13.3"),
    V("bare: target without the relative root", "break", _P, "            target_file = os.path.join(absolute_target_root, name)\n            if plain_text", "            target_file = os.path.join(target_root_path, name)\n            if plain_text", "O13.3"),
    V("docker: car variables win", "break", _P, "        self.config_vars.update(self.car.variables)\n        self.config_vars.update(provisioner_defaults)", "        self.config_vars.update(provisioner_defaults)\n        self.config_vars.update(self.car.variables)", "O13.1"),
    V("seed m2: no forced trailing newline", "break", _P, "        return template.render(variables) + \"\\n\"", "        return template.render(variables)", "O13.3"),
    V("delete in the preserve branch", "break", _P, "        console.info(f\"Preserving benchmark candidate installation at [{install_dir}].\", logger=logger)", "        console.info(f\"Preserving benchmark candidate installation at [{install_dir}].\", logger=logger)\n        delete_path(install_dir)", "O13.4"),
    V("seed m3: data paths under the install dir skipped", "break", _P, "        for path in data_paths:\n            delete_path(path)", "        for path in data_paths:\n            if not path.startswith(install_dir):\n                delete_path(path)", "O13.4"),
    # F37 (repaired by 5172c30): plugin variables merged after Rally's node variables, nothing re-applied
    V("F37: node variables not re-applied after the plugin variables", "break", _P, "        provisioner_vars.update(plugin_variables)\n        # Rally's own node variables always win - also over plugin variables\n        provisioner_vars.update(self.es_installer.node_variables)\n",
      "        provisioner_vars.update(plugin_variables)\n", "O13.5"),
    V("F37: node variables re-applied BEFORE the plugin variables", "break", _P, "        provisioner_vars.update(plugin_variables)\n        # Rally's own node variables always win - also over plugin variables\n        provisioner_vars.update(self.es_installer.node_variables)\n",
      "        provisioner_vars.update(self.es_installer.node_variables)\n        provisioner_vars.update(plugin_variables)\n", "O13.5"),
    V("F37: node variables re-applied only when there are no plugins", "break", _P, "        provisioner_vars.update(self.es_installer.node_variables)\n",
      "        if not self.plugin_installers:\n            provisioner_vars.update(self.es_installer.node_variables)\n", "O13.5"),
    V("F37: a user-provided override merged last", "break", _P, "        provisioner_vars[\"cluster_settings\"] = cluster_settings\n\n        return provisioner_vars",
      "        provisioner_vars[\"cluster_settings\"] = cluster_settings\n        provisioner_vars.update(self.es_installer.car.variables)\n\n        return provisioner_vars", "O13.5"),
    V("F37: templates rendered with the installer's variables only", "break", _P, "        for p in self.es_installer.config_source_paths:\n            self.apply_config(p, target_root_path, provisioner_vars)",
      "        for p in self.es_installer.config_source_paths:\n            self.apply_config(p, target_root_path, {**provisioner_vars, **self.plugin_installers[0].variables} if self.plugin_installers else provisioner_vars)", "O13.5"),
    V("provisioner: plugin variables first, installer's variables second", "break", _P, "        provisioner_vars.update(self.es_installer.variables)\n        provisioner_vars.update(plugin_variables)\n",
      "        provisioner_vars.update(plugin_variables)\n        provisioner_vars.update(self.es_installer.variables)\n", "O13.1"),
    # preserving
    V("F37 respelled: one dict display", "keep", _P, "        provisioner_vars = {}\n        provisioner_vars.update(self.es_installer.variables)\n        provisioner_vars.update(plugin_variables)\n        # Rally's own node variables always win - also over plugin variables\n        provisioner_vars.update(self.es_installer.node_variables)\n        provisioner_vars[\"cluster_settings\"] = cluster_settings\n",
      "        provisioner_vars = {**self.es_installer.variables, **plugin_variables, **self.es_installer.node_variables, \"cluster_settings\": cluster_settings}\n"),
    V("F37 respelled: installer held in a local, node variables in a local, dict() copy", "keep", _P, "        provisioner_vars = {}\n        provisioner_vars.update(self.es_installer.variables)\n        provisioner_vars.update(plugin_variables)\n        # Rally's own node variables always win - also over plugin variables\n        provisioner_vars.update(self.es_installer.node_variables)\n",
      "        own = self.es_installer.node_variables\n        provisioner_vars = dict(self.es_installer.variables)\n        provisioner_vars.update(plugin_variables)\n        provisioner_vars.update(own)\n"),
    V("F37 respelled: node variables back in a local dict of the property, method instead of property for the re-application", "keep", _P,
      "        variables = {}\n        variables.update(self.car.variables)\n        variables.update(self.node_variables)\n        return variables",
      "        defaults = self.node_variables\n        variables = {}\n        variables.update(self.car.variables)\n        variables.update(defaults)\n        return variables"),
    V("F37 respelled: cluster settings first, node variables last", "keep", _P, "        provisioner_vars.update(self.es_installer.node_variables)\n        provisioner_vars[\"cluster_settings\"] = cluster_settings\n",
      "        provisioner_vars[\"cluster_settings\"] = cluster_settings\n        provisioner_vars.update(self.es_installer.node_variables)\n"),
    V("dict unpacking in the installer", "keep", _P, "        variables = {}\n        variables.update(self.car.variables)\n        variables.update(self.node_variables)\n        return variables", "        variables = {**self.car.variables, **self.node_variables}\n        return variables"),
    V("os.path.relpath", "keep", _P, "        relative_root = root[len(source_root_path) + 1 :]", "        relative_root = os.path.relpath(root, source_root_path)"),
    V("inverted preserve test", "keep", _P, "    if preserve:\n        console.info(f\"Preserving benchmark candidate installation at [{install_dir}].\", logger=logger)\n    else:\n        logger.info(\"Wiping benchmark candidate installation at [%s].\", install_dir)\n        for path in data_paths:\n            delete_path(path)\n\n        delete_path(install_dir)",
      "    if not preserve:\n        logger.info(\"Wiping benchmark candidate installation at [%s].\", install_dir)\n        for path in data_paths:\n            delete_path(path)\n\n        delete_path(install_dir)\n    else:\n        console.info(f\"Preserving benchmark candidate installation at [{install_dir}].\", logger=logger)"),
]
