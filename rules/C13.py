"""C13 — cars compose in order with documented precedence; provisioning mirrors templates (DESIGN.md section 4, C13)."""
from __future__ import annotations

import ast

from sa import pat, source
from sa.cfg import cfg_of, guards
from sa.classes import is_logging_call
from sa.source import AnchorMissing, arg_of, dotted, is_self_attr, last_attr, local_defs, params_of, short, u, walk_body

_T = "esrally/mechanic/team.py"
_P = "esrally/mechanic/provisioner.py"

INTERNAL_KEYS = {"cluster_name", "node_name", "data_paths", "log_path", "network_host", "http_port", "transport_port", "install_root_path", "node_ip", "all_node_ips", "all_node_names"}


def merges_into(func, target: str):
    """program-ordered list of (source text, node) merged into dict variable `target`: d.update(src), d[k] = v, {**a, **b}, dict(a, **b)."""
    g = cfg_of(func)
    out = []
    for n in walk_body(func):
        if isinstance(n, ast.Call) and isinstance(n.func, ast.Attribute) and n.func.attr == "update" and u(n.func.value) == target and n.args:
            out.append((u(n.args[0]), n))
        elif isinstance(n, ast.Assign) and u(n.targets[0]) == target and isinstance(n.value, ast.Dict) and n.value.keys and all(k is None for k in n.value.keys):
            for v in n.value.values:
                out.append((u(v), n))
        elif isinstance(n, ast.Return) and isinstance(n.value, ast.Dict) and n.value.keys and all(k is None for k in n.value.keys) and u(n.value) == target:
            # `return {**a, **b}` (the returned expression itself is the merge; a `tmp = {...}; return tmp` pair is folded to this form at parse time)
            for v in n.value.values:
                out.append((u(v), n))
        elif isinstance(n, ast.Assign) and isinstance(n.targets[0], ast.Subscript) and u(n.targets[0].value) == target:
            out.append((f"[{u(n.targets[0].slice)}]", n))
    out.sort(key=lambda x: (x[1].lineno, x[1].col_offset))
    return out, g


def assigns_to(func, name: str):
    """the (annotated or plain) assignment statements of `func` whose target is `name`."""
    return [n for n in walk_body(func) if (isinstance(n, ast.Assign) and len(n.targets) == 1 and u(n.targets[0]) == name) or (isinstance(n, ast.AnnAssign) and n.value is not None and u(n.target) == name)]


def ordered(g, a, b):
    """a is executed before b on every path that executes both, and b can never precede a."""
    na, nb = g.node_of(a), g.node_of(b)
    return not g.path_exists(nb, na) or na.id == nb.id


def cleanup_isolation_rule(chk, rid, pv):
    """provisioner.cleanup: a path that cannot be deleted (OSError) does not stop the deletion of the remaining data paths and of the installation — either the removal call is
    protected for ONE path at a time (try/except OSError inside the helper / inside the loop body), or nothing in the function catches OSError at all (the failure is then reported,
    not swallowed). A try that spans the loop or several delete calls swallows the first failure together with all later deletions. Shared with C12 (clean up unless preserve)."""
    cu = pv.func("cleanup")
    cpar = params_of(cu)
    rms = [x for x in ast.walk(cu) if isinstance(x, ast.Call) and dotted(x.func) in ("shutil.rmtree", "os.remove", "os.rmdir", "os.unlink")]
    dels = [x for x in ast.walk(cu) if isinstance(x, ast.Call) and last_attr(x.func) in ("delete_path", "rmtree") and x not in rms]
    swallowing = [t for t in ast.walk(cu) if isinstance(t, ast.Try) and any((h.type is None or any(nm in (dotted(e_) or "") for e_ in (h.type.elts if isinstance(h.type, ast.Tuple) else [h.type])
                  for nm in ("OSError", "Exception", "BaseException", "IOError"))) and not any(isinstance(x, ast.Raise) for x in ast.walk(h)) for h in t.handlers)]
    bad = []
    for t in swallowing:
        inside = [x for st in t.body for x in ast.walk(st)]
        n_sites = sum(1 for x in inside if x in dels or x in rms)
        spans_loop = any(isinstance(x, (ast.For, ast.While)) and any(y in dels or y in rms for y in ast.walk(x)) for x in inside)
        if spans_loop or n_sites > 1:
            bad.append(t)
    chk.ob(rid, "cleanup: a failing deletion is contained per path (no handler swallows it together with the remaining deletions)", bool(rms or dels) and not bad, bad[0] if bad else cu,
           "" if not bad else f"the try at line {bad[0].lineno} spans {'the loop over the data paths' if any(isinstance(x, (ast.For, ast.While)) for st in bad[0].body for x in ast.walk(st)) else 'several deletions'}: "
           "the first path that cannot be removed leaves every later data path and the installation on disk while cleanup returns normally",
           key="esrally/mechanic/provisioner.py:cleanup:failure-contained-per-path")


def run(chk):
    repo = chk.repo
    tm, pv = repo.module(_T), repo.module(_P)
    chk.use(tm, pv, "docs/car.rst")
    chk.explanation = (
        "Decides precedence by merge-order analysis (later source wins): config-base variables < car variables < car parameters in the car loader, accumulated over the car names in the "
        "given order; Rally's node variables merged last in the installer; config bases appended in order under a not-in guard; template mirroring (target path = target root + path "
        "relative to the source root + name; text files appended with a rendered chunk that always ends in a newline; others copied; one extension table); cleanup deletes every data "
        "path and the installation unless preserve, in which case no delete is reachable."
    )
    chk.not_decided = "Jinja output, filesystem effects, configparser interpolation."

    # ---- O13.1 merge order ---------------------------------------------------------------------------------------------------------------------
    chk.rule("O13.1", "merge order (later wins): config-base variables < car variables (car file < car params) in the loader; across cars accumulation in the given order; "
             "in the installer car variables < Rally's node variables (network host, ports, paths, names are in the last source)", 9,
             "any two sources defining one key: the documented precedence is inverted (e.g. a car overrides http_port, or --car-params does not override a mixin)")
    lc = tm.func("load_car")
    lp = params_of(lc)
    if len(lp) < 3:
        raise AnchorMissing("team.load_car(repo, name, car_params)")
    CL = tm.cls("CarLoader")
    cl = tm.methods(CL).get("load_car")
    if cl is None:
        raise AnchorMissing("CarLoader.load_car")
    cp = params_of(cl)
    if len(cp) < 3:
        raise AnchorMissing("CarLoader.load_car(self, name, car_params)")
    ret = [n for n in walk_body(lc) if isinstance(n, ast.Return) and isinstance(n.value, ast.Call) and last_attr(n.value.func) == "Car"]
    if not ret:
        raise AnchorMissing("return Car(...) in team.load_car")
    car_init = tm.methods(tm.cls("Car")).get("__init__")
    if car_init is None:
        raise AnchorMissing("Car.__init__")
    cargs = source.bind_args(ret[0].value, car_init)  # Car(...) arguments by PARAMETER name (positional or keyword)
    if "variables" not in cargs or "config_paths" not in cargs:
        raise AnchorMissing("variables / config_paths argument of Car(...) in team.load_car")
    var = u(cargs["variables"])
    seq, g = merges_into(lc, var)
    names = [s for s, _ in seq]
    # classify accumulators by what is merged into them in the loop
    loop = [n for n in walk_body(lc) if isinstance(n, ast.For) and u(n.iter) == lp[1]]
    chk.ob("O13.1", "cars are processed in the order given (plain loop over the names)", bool(loop), loop[0] if loop else lc, f"iterates `{u(loop[0].iter)}`" if loop else "no loop over the car names themselves (sorted/reversed/set?)")
    acc_roles = {}
    if loop:
        for n in ast.walk(loop[0]):
            if isinstance(n, ast.Call) and isinstance(n.func, ast.Attribute) and n.func.attr == "update" and n.args:
                src = u(n.args[0])
                role = "config-base" if src.endswith(".config_base_variables") else ("car" if src.endswith(".variables") else None)
                if role:
                    acc_roles[u(n.func.value)] = role
                    gs = guards(n, stop=loop[0])
                    chk.ob("O13.1", f"{role} variables of every car are accumulated unconditionally", not gs, n, f"guards {[(u(t), p) for t, p in gs]}" if gs else "")
    role_seq = [acc_roles.get(s, s) for s in names]
    ok = role_seq == ["config-base", "car"] and all(not guards(n) for _, n in seq) and ordered(g, seq[0][1], seq[1][1]) if len(seq) == 2 else False
    chk.ob("O13.1", "loader: config-base variables merged before car variables", ok, seq[0][1] if seq else lc, f"merge order into `{var}`: {role_seq}")
    dl = [n for n in ast.walk(loop[0]) if isinstance(n, ast.Call) and last_attr(n.func) == "load_car"] if loop else []
    dargs = source.bind_args(dl[0], cl) if dl else {}  # by parameter name of CarLoader.load_car
    ok = bool(dl) and u(dargs.get(cp[1])) == u(loop[0].target) and u(dargs.get(cp[2])) == lp[2]
    chk.ob("O13.1", "car parameters handed to every car/mixin descriptor", ok, dl[0] if dl else lc, "")
    cret = [n for n in walk_body(cl) if isinstance(n, ast.Return) and isinstance(n.value, ast.Call) and last_attr(n.value.func) == "CarDescriptor"]
    if not cret:
        raise AnchorMissing("return CarDescriptor(...)")
    cd_init = tm.methods(tm.cls("CarDescriptor")).get("__init__")
    if cd_init is None:
        raise AnchorMissing("CarDescriptor.__init__")
    cdargs = source.bind_args(cret[0].value, cd_init)  # CarDescriptor(...) arguments by parameter name
    if not {"variables", "config_base_variables", "config_paths"} <= set(cdargs):
        raise AnchorMissing("variables / config_base_variables / config_paths argument of CarDescriptor(...)")
    vvar = u(cdargs["variables"])
    bvar = u(cdargs["config_base_variables"])
    cs = tm.methods(CL).get("_copy_section")
    if cs is None or len(params_of(cs)) < 4:
        raise AnchorMissing("CarLoader._copy_section(self, cfg, section, target)")
    _, cs_cfg, cs_section, cs_target = params_of(cs)[:4]

    def copy_section_args(call):
        """arguments of a self._copy_section(...) call by parameter name, {} for any other node."""
        return source.bind_args(call, cs) if isinstance(call, ast.Call) and last_attr(call.func) == "_copy_section" else {}

    vdef = assigns_to(cl, vvar)
    va = copy_section_args(vdef[0].value) if len(vdef) == 1 else {}
    ok = len(vdef) == 1 and cs_section in va and source.is_const(va[cs_section], "variables") and not guards(vdef[0])
    chk.ob("O13.1", "car variables start from the car file's [variables] section", ok, vdef[0] if vdef else cl, "")
    seq2, g2 = merges_into(cl, vvar)
    ok = len(seq2) == 1 and seq2[0][0] == cp[2] and bool(vdef) and ordered(g2, vdef[0], seq2[0][1])
    chk.ob("O13.1", "car parameters merged after the car file's variables", ok, seq2[0][1] if seq2 else cl, f"merges into `{vvar}`: {[s for s, _ in seq2]}")
    if seq2:
        gs = guards(seq2[0][1])
        # every guard FACT (polarity resolved, conjunctions split) is the presence of the parameters themselves
        ok = all(pat.is_(f, "V_p", "V_p is not None", binds={"p": cp[2]}) for f in pat.fact_nodes(seq2[0][1], path_sensitive=False))
        chk.ob("O13.1", "car parameters applied to every descriptor (guarded only by their presence)", ok, seq2[0][1], f"guards {[(u(t), p) for t, p in gs]}" + ("" if ok else " — mixins / cars on the other branch do not get the parameters"))
    cb = [n for n in walk_body(cl) if u(copy_section_args(n).get(cs_target)) == bvar]
    ok = bool(cb) and source.is_const(copy_section_args(cb[0]).get(cs_section), "variables")
    chk.ob("O13.1", "config-base variables come from each base's config.ini [variables]", ok, cb[0] if cb else cl, "")
    # _copy_section: target.update / item stores of the section
    ok = any(isinstance(n, ast.Return) and u(n.value) == cs_target for n in walk_body(cs))
    chk.ob("O13.1", "_copy_section returns the target it filled", ok, cs, "")
    EI = pv.cls("ElasticsearchInstaller")
    ev_ = pv.methods(EI).get("variables")
    if ev_ is None:
        raise AnchorMissing("ElasticsearchInstaller.variables")
    rv = [n for n in walk_body(ev_) if isinstance(n, ast.Return)]
    ivar = u(rv[0].value) if rv else None
    seq3, g3 = merges_into(ev_, ivar)
    n3 = [s for s, _ in seq3]
    edefs = local_defs(ev_)
    last_src = edefs.get(n3[-1]) if n3 and n3[-1] in edefs else None
    keys = {k.value for k in last_src.keys if isinstance(k, ast.Constant)} if isinstance(last_src, ast.Dict) else set()
    ok = len(n3) >= 2 and n3[0] == "self.car.variables" and INTERNAL_KEYS <= keys and all(not guards(n) for _, n in seq3) and ordered(g3, seq3[0][1], seq3[-1][1])
    chk.ob("O13.1", "installer: car variables merged before Rally's node variables", ok, seq3[-1][1] if seq3 else ev_, f"merge order: {n3}; internal keys missing from the last source: {sorted(INTERNAL_KEYS - keys)}")
    BP = pv.cls("BareProvisioner")
    pvf = pv.methods(BP).get("_provisioner_variables")
    rvp = [n for n in walk_body(pvf) if isinstance(n, ast.Return)] if pvf else []
    if pvf is None or not rvp:
        raise AnchorMissing("BareProvisioner._provisioner_variables")
    seq4, g4 = merges_into(pvf, u(rvp[0].value))
    n4 = [s for s, _ in seq4]
    ok = bool(n4) and n4[0] == "self.es_installer.variables"
    chk.ob("O13.1", "provisioner variables start from the installer's variables", ok, seq4[0][1] if seq4 else pvf, f"merge order: {n4}")
    # the plugin-variable accumulator by ROLE: the local that collects `<installer>.variables` in the loop over self.plugin_installers
    plug_acc = {u(x.func.value) for l in walk_body(pvf) if isinstance(l, ast.For) and u(l.iter) == "self.plugin_installers" for x in ast.walk(l)
                if isinstance(x, ast.Call) and isinstance(x.func, ast.Attribute) and x.func.attr == "update" and x.args and isinstance(x.args[0], ast.Attribute) and x.args[0].attr == "variables"}
    late = [n for s_, n in seq4[1:] if s_ in plug_acc]
    if late:
        chk.adv("O13.1", "plugin variables are merged after the installer's variables: a plugin parameter named like an internal node variable (http_port, network_host, ...) overrides it (plugins are outside the property's statement)", late[0])

    # ---- O13.2 config bases in order without duplicates ---------------------------------------------------------------------------------------------------
    chk.rule("O13.2", "config bases are appended in the given order, guarded by `not in` (no duplicates, no re-ordering)", 3, "two cars sharing a config base: its templates are rendered twice (appended twice)")
    # the accumulator of the config paths by ROLE: the list that receives, inside the loop over the car names, the elements of an inner loop over `<descriptor>.config_paths`
    apps = [n for n in ast.walk(loop[0]) if isinstance(n, ast.Call) and last_attr(n.func) == "append" and isinstance(n.func, ast.Attribute) and len(n.args) == 1] if loop else []
    cfgapp = []
    for n in apps:
        inner = source.enclosing(n, ast.For)
        if inner is not None and inner is not loop[0] and isinstance(inner.iter, ast.Attribute) and inner.iter.attr == "config_paths" and u(n.args[0]) == u(inner.target):
            cfgapp.append(n)
    ok = False
    if cfgapp:
        a = cfgapp[0]
        # exactly one guard fact (polarity / arm order resolved): the appended element is not yet in the accumulator
        fs = pat.fact_nodes(a, stop=loop[0])
        ok = len(fs) == 1 and pat.is_(fs[0], "E_x not in E_acc", binds={"x": u(a.args[0]), "acc": u(a.func.value)})
    chk.ob("O13.2", "config paths appended under `not in`", ok, cfgapp[0] if cfgapp else lc, "")
    resort = [n for n in walk_body(lc) if isinstance(n, ast.Call) and (dotted(n.func) in ("sorted", "reversed", "set") or last_attr(n.func) in ("sort", "reverse"))]
    chk.ob("O13.2", "no re-ordering of the accumulated paths", not resort, resort[0] if resort else lc, "")
    ok = bool(cfgapp) and u(cargs["config_paths"]) == u(cfgapp[0].func.value)
    chk.ob("O13.2", "the accumulated config paths are the car's config paths", ok, ret[0], "")
    # the loop over a car's config bases by ROLE: the loop that fills the descriptor's config paths / copies the bases' [variables] sections
    dcfg = u(cdargs["config_paths"])
    fills = [n for n in walk_body(cl) if isinstance(n, ast.Call) and ((last_attr(n.func) == "append" and isinstance(n.func, ast.Attribute) and u(n.func.value) == dcfg) or any(n is c for c in cb))]
    bl = [l for l in (source.enclosing(n, ast.For) for n in fills) if l is not None and source.enclosing_func(l) is cl]
    bl = [l for i, l in enumerate(bl) if not any(l is m for m in bl[:i])]
    it = bl[0].iter if bl else None
    it = local_defs(cl).get(it.id, it) if isinstance(it, ast.Name) else it
    ok = bool(bl) and isinstance(it, ast.Call) and last_attr(it.func) == "split"
    chk.ob("O13.2", "a car's config bases are applied in the order written (split on ',')", ok, bl[0] if bl else cl, "")
    req = [n for n in walk_body(lc) if isinstance(n, ast.Raise)]
    # a raise whose guard facts say that the accumulated config paths are empty (any polarity / orientation / spelling of emptiness)
    accv = u(cfgapp[0].func.value) if cfgapp else u(cargs["config_paths"])
    req_ok = [r for r in req if pat.guarded(r, "len(E_acc) == 0", "not E_acc", "len(E_acc) < 1", "E_acc == []", binds={"acc": accv}) is not None]
    chk.ob("O13.2", "at least one config base is required", bool(req_ok), req_ok[0] if req_ok else (req[0] if req else lc), "")

    # ---- O13.3 template mirroring ---------------------------------------------------------------------------------------------------------------------------
    chk.rule("O13.3", "target path == join(target root, path of the file's directory relative to the source root, name); text files are opened in append mode and receive the rendered template "
             "which always ends with a newline; other files are copied verbatim; the text/binary predicate is one extension table; every config base is applied in order", 8,
             "a template in a sub-directory lands elsewhere; a second base overwrites instead of appending; appended text glued onto the previous last line")
    walks = [(f, n) for f in pv.functions() for n in walk_body(f) if isinstance(n, ast.For) and isinstance(n.iter, ast.Call) and dotted(n.iter.func) == "os.walk"
             and any(isinstance(x, ast.Call) and last_attr(x.func) == "_render_template" for x in ast.walk(n))]
    chk.ob("O13.3", "template-mirroring sites located (bare and docker provisioner)", len(walks) >= 2, pv.tree, f"{len(walks)} os.walk site(s) rendering templates")
    rt = pv.func("_render_template")
    rp = params_of(rt)
    if len(rp) < 3:
        raise AnchorMissing("_render_template(env, variables, file_name)")

    def is_join(e, n=2):
        return isinstance(e, ast.Call) and dotted(e.func) == "os.path.join" and len(e.args) == n and not e.keywords

    for fn, W in walks:
        tag = source.qualname(fn)
        if not (isinstance(W.target, ast.Tuple) and len(W.target.elts) == 3 and isinstance(W.target.elts[0], ast.Name) and isinstance(W.target.elts[2], ast.Name) and W.iter.args):
            raise AnchorMissing(f"{tag}: `for <root>, <dirs>, <files> in os.walk(<source root>)`")
        # locals assigned exactly once inside the walk: name -> (value, statement). All names below are derived by ROLE from the data flow, never by spelling.
        acount, astmt = {}, {}
        for n in ast.walk(W):
            if isinstance(n, ast.Assign) and len(n.targets) == 1 and isinstance(n.targets[0], ast.Name):
                acount[n.targets[0].id] = acount.get(n.targets[0].id, 0) + 1
                astmt[n.targets[0].id] = n
        astmt = {k: v for k, v in astmt.items() if acount[k] == 1}
        adefs = {k: v.value for k, v in astmt.items()}
        src_root = u(W.iter.args[0])
        rootv = W.target.elts[0].id  # the walked directory (tuple position 0 of os.walk's items)
        filesv = W.target.elts[2].id  # its file names (tuple position 2)
        nameloops = [n for n in ast.walk(W) if isinstance(n, ast.For) and n is not W and isinstance(n.iter, ast.Name) and n.iter.id == filesv and isinstance(n.target, ast.Name)]
        NL = nameloops[0] if nameloops else None
        namev = NL.target.id if NL is not None else None  # loop variable of the loop over the file names
        in_nl = lambda k: NL is not None and any(x is astmt[k] for x in ast.walk(NL))  # noqa: E731
        # source file: the local defined (inside the loop over the names) as join(walked directory, name)
        srcs = [k for k, v in adefs.items() if in_nl(k) and is_join(v) and pat.is_(v, "os.path.join(V_root, V_name)", binds={"root": rootv, "name": namev})]
        srcv = srcs[0] if srcs else None
        # target file: the local that is opened
        opens = [n for n in ast.walk(W) if isinstance(n, ast.Call) and dotted(n.func) == "open"]
        tgtn = arg_of(opens[0], 0, "file") if opens else None
        tgtv = tgtn.id if isinstance(tgtn, ast.Name) else None
        tdef = adefs.get(tgtv) if tgtv is not None and in_nl(tgtv) else None
        # target file == join(<target dir>, name) with <target dir> == join(target root, <relative root>), each possibly through a single-assignment local
        tdir = tdef.args[0] if is_join(tdef) else None
        while isinstance(tdir, ast.Name) and tdir.id in adefs:
            tdir = adefs[tdir.id]
        relnode = tdir.args[1] if is_join(tdir) else None
        rel = adefs.get(relnode.id) if isinstance(relnode, ast.Name) else relnode  # the relative-root expression: second component of the target directory
        relok = rel is not None and pat.is_(rel, "V_root[len(E_src) + 1:]", "V_root[1 + len(E_src):]", "os.path.relpath(V_root, E_src)", binds={"root": rootv, "src": src_root})
        chk.ob("O13.3", f"{tag}: relative root == directory path relative to the source root", relok, (astmt[relnode.id] if isinstance(relnode, ast.Name) and relnode.id in astmt else rel) if rel is not None else W, u(rel) if rel is not None else "")
        ok = is_join(tdef) and is_join(tdir) and rel is not None and isinstance(tdef.args[1], ast.Name) and tdef.args[1].id == namev
        chk.ob("O13.3", f"{tag}: target file == join(join(target root, relative root), name)", ok, astmt[tgtv] if tdef is not None else W, u(tdef) if tdef is not None else "")
        ok = False
        if opens:
            mode = arg_of(opens[0], 1, "mode")
            b = pat.guarded(opens[0], "plain_text(V_f)", stop=W)
            ok = tgtv is not None and mode is not None and isinstance(mode, ast.Constant) and mode.value in ("a", "a+", "at") and b is not None and b["f"] in (srcv, tgtv)
        chk.ob("O13.3", f"{tag}: text files opened in append mode", ok, opens[0] if opens else W, f"mode={u(arg_of(opens[0], 1, 'mode')) if opens else None}")
        wr = [n for n in ast.walk(W) if isinstance(n, ast.Call) and last_attr(n.func) == "write" and n.args]
        wa = source.bind_args(wr[0].args[0], rt) if wr and isinstance(wr[0].args[0], ast.Call) and last_attr(wr[0].args[0].func) == "_render_template" else {}
        ok = bool(wa) and srcv is not None and u(wa.get(rp[2])) == srcv
        chk.ob("O13.3", f"{tag}: the rendered template is written", ok, wr[0] if wr else W, "")
        # templates are looked up by BASE name, so the environment (and with it Jinja's template cache, keyed by loader and name) must belong to the walked directory
        rcall = [n for n in ast.walk(W) if isinstance(n, ast.Call) and last_attr(n.func) == "_render_template"]
        envarg = source.bind_args(rcall[0], rt).get(rp[0]) if rcall else None
        envdef = adefs.get(envarg.id) if isinstance(envarg, ast.Name) else envarg
        ok = isinstance(envdef, ast.Call) and last_attr(envdef.func) == "Environment" and any(
            isinstance(x, ast.Call) and last_attr(x.func) == "FileSystemLoader" and x.args and u(x.args[0]) == rootv for x in ast.walk(envdef))
        chk.ob("O13.3", f"{tag}: a fresh template environment per walked directory, loading from that directory", ok, rcall[0] if rcall else W,
               (u(envdef)[:80] if envdef is not None else "environment is not created inside the walk") + ("" if ok else " — same-named templates of different directories share one cached template"),
               key=f"{_P}:{tag}:env-per-directory")
        cps = [n for n in ast.walk(W) if isinstance(n, ast.Call) and dotted(n.func) in ("shutil.copy", "shutil.copy2", "shutil.copyfile")]
        b = pat.guarded(cps[0], "not plain_text(V_f)", stop=W) if cps else None
        ok = bool(cps) and srcv is not None and tgtv is not None and [u(a) for a in cps[0].args] == [srcv, tgtv] and b is not None and b["f"] in (srcv, tgtv)
        chk.ob("O13.3", f"{tag}: other files copied verbatim", ok, cps[0] if cps else W, "")
        chk.ob("O13.3", f"{tag}: source file == join(walked directory, name)", srcv is not None, astmt[srcv] if srcv is not None else W, u(adefs[srcv]) if srcv is not None else f"no local is defined as os.path.join({rootv}, {namev}) in the loop over `{filesv}`")
    # docker provisioner: same precedence for its own variables
    DP = pv.cls("DockerProvisioner")
    dinit = pv.methods(DP).get("__init__")
    if dinit is None:
        raise AnchorMissing("DockerProvisioner.__init__")
    seq5, g5 = merges_into(dinit, "self.config_vars")
    n5 = [s_ for s_, _ in seq5]
    ddefs = local_defs(dinit)
    lastd = ddefs.get(n5[-1]) if n5 and n5[-1] in ddefs else None
    dkeys = {k.value for k in lastd.keys if isinstance(k, ast.Constant)} if isinstance(lastd, ast.Dict) else set()
    ok = len(n5) >= 2 and n5[0] == "self.car.variables" and {"network_host", "http_port", "transport_port", "data_paths", "node_name", "cluster_name"} <= dkeys and ordered(g5, seq5[0][1], seq5[-1][1])
    chk.ob("O13.1", "docker provisioner: car variables merged before Rally's node variables", ok, seq5[-1][1] if seq5 else dinit, f"merge order: {n5}")
    rets = [n for n in walk_body(rt) if isinstance(n, ast.Return)]
    ok = False
    if len(rets) == 1 and rets[0].value is not None:
        v = source.inline_node(rets[0].value, local_defs(rt))  # through single-assignment locals (`template`, a local holding the rendered text, ...)
        ok = isinstance(v, ast.BinOp) and isinstance(v.op, ast.Add) and source.is_const(v.right, "\n") and isinstance(v.left, ast.Call) and last_attr(v.left.func) in ("render", "rstrip")
    chk.ob("O13.3", "every rendered chunk ends with a newline (appended snippets never glue onto the previous line)", ok, rets[0] if rets else rt, u(rets[0].value) if rets else "")
    pt = pv.func("plain_text")
    ptd = local_defs(pt)

    def table_of(e):
        """the literal collection a membership test reads: written in place, or a single-assignment local / module constant holding it."""
        if isinstance(e, ast.Name):
            e = ptd.get(e.id) if e.id in ptd else pv.module_constant(e.id)
        return e if isinstance(e, (ast.List, ast.Tuple, ast.Set)) else None

    ok = any(isinstance(n, ast.Return) and isinstance(n.value, ast.Compare) and len(n.value.ops) == 1 and isinstance(n.value.ops[0], ast.In) and table_of(n.value.comparators[0]) is not None and
             {".yml", ".yaml", ".options", ".properties", ".json", ".ini", ".txt"} <= {e.value for e in table_of(n.value.comparators[0]).elts if isinstance(e, ast.Constant)} for n in walk_body(pt))
    chk.ob("O13.3", "text/binary predicate is one extension table (incl. .yml .options .properties)", ok, pt, "")
    prep = pv.methods(BP).get("prepare")
    if prep is None:
        raise AnchorMissing("BareProvisioner.prepare")
    loops = [n for n in walk_body(prep) if isinstance(n, ast.For) and u(n.iter) == "self.es_installer.config_source_paths"]
    ok = bool(loops) and any(isinstance(x, ast.Call) and u(x.func) == "self.apply_config" and x.args and u(x.args[0]) == u(loops[0].target) for x in ast.walk(loops[0])) and not guards(loops[0])
    chk.ob("O13.3", "every config base is applied, in order", ok, loops[0] if loops else prep, "")
    csp = pv.methods(EI).get("config_source_paths")
    ok = csp is not None and any(isinstance(n, ast.Return) and u(n.value) == "self.car.config_paths" for n in walk_body(csp))
    chk.ob("O13.3", "config source paths are the car's config paths (as accumulated)", ok, csp if csp is not None else EI, "")

    # ---- O13.4 cleanup -------------------------------------------------------------------------------------------------------------------------------------------
    chk.rule("O13.4", "cleanup: on the preserve-true edge no delete is reachable; on the false edge every data path and the install dir are deleted (no filter)", 4,
             "preserve-install removes something; or a data path outside the install dir is left behind")
    cu = pv.func("cleanup")
    cp_ = params_of(cu)
    if len(cp_) < 3:
        raise AnchorMissing("cleanup(preserve, install_dir, data_paths)")
    pb = {"p": cp_[0]}
    ifs = [n for st in cu.body if not isinstance(st, (ast.FunctionDef, ast.AsyncFunctionDef, ast.ClassDef)) for n in source.walk_local(st) if isinstance(n, ast.If) and pat.is_(n.test, "V_p", "not V_p", binds=pb)]
    if not ifs:
        raise AnchorMissing("branch on preserve in cleanup")
    I = ifs[0]
    # decided on the CFG edges of the test, not on arm position: the preserve edge is the true edge of `if preserve` / the false edge of `if not preserve`
    gc = cfg_of(cu)
    tn = gc.node_of(I)
    pres_lab, del_lab = ("true", "false") if pat.is_(I.test, "V_p", binds=pb) else ("false", "true")
    after_pres = gc.reachable(gc.edge_targets(tn, pres_lab))  # everything that can still run once the preserve edge was taken
    own = [x for st in cu.body if not isinstance(st, (ast.FunctionDef, ast.AsyncFunctionDef, ast.ClassDef)) for x in source.walk_local(st)]  # cleanup's own code (the nested delete_path helper is checked separately)
    dcalls = [x for x in own if isinstance(x, ast.Call) and last_attr(x.func) in ("delete_path", "rmtree", "remove", "unlink", "rmdir") and not is_logging_call(x)]
    dels_in_pres = [x for x in dcalls if gc.node_of(x).id in after_pres]
    chk.ob("O13.4", "nothing deleted when preserving", not dels_in_pres, I, f"reachable on the preserve edge: line {dels_in_pres[0].lineno}: {short(dels_in_pres[0])}" if dels_in_pres else "")
    # every other delete of the function is reachable only through the delete edge of that test (so none runs on the preserve edge, before the test or after the branch)
    outside = [x for x in dcalls if last_attr(x.func) in ("delete_path", "rmtree") and not gc.dominated_by_edge(gc.node_of(x), tn, del_lab)]
    chk.ob("O13.4", "no delete outside the preserve branch", not outside, outside[0] if outside else cu, "")
    in_del = lambda x: gc.dominated_by_edge(gc.node_of(x), tn, del_lab)  # noqa: E731
    dl = [x for x in own if isinstance(x, ast.For) and u(x.iter) == cp_[2] and in_del(x)]
    lbody = [s_ for s_ in dl[0].body if not (isinstance(s_, ast.Expr) and is_logging_call(s_.value))] if dl else []
    ok = bool(dl) and len(lbody) == 1 and isinstance(lbody[0], ast.Expr) and isinstance(lbody[0].value, ast.Call) and last_attr(lbody[0].value.func) == "delete_path" and len(lbody[0].value.args) == 1 and u(lbody[0].value.args[0]) == u(dl[0].target)
    chk.ob("O13.4", "every data path is deleted (unconditional loop)", ok, dl[0] if dl else I, "" if ok else "the loop over the data paths filters or skips some paths")
    di = [x for x in own if isinstance(x, ast.Call) and last_attr(x.func) == "delete_path" and len(x.args) == 1 and u(x.args[0]) == cp_[1] and in_del(x)]
    # unconditional on the delete edge: its only guard fact is `not preserve`
    ok = bool(di) and all(pat.is_(f, "not V_p", binds=pb) for f in pat.fact_nodes(di[0]))
    chk.ob("O13.4", "the installation directory is deleted", ok, di[0] if di else I, "")
    dp = [n for n in cu.body if isinstance(n, ast.FunctionDef) and n.name == "delete_path"]
    ok = bool(dp) and any(isinstance(x, ast.Call) and dotted(x.func) == "shutil.rmtree" and x.args and params_of(dp[0]) and u(x.args[0]) == params_of(dp[0])[0] for x in ast.walk(dp[0]))
    chk.ob("O13.4", "delete_path removes the given tree", ok, dp[0] if dp else cu, "")
    cleanup_isolation_rule(chk, "O13.4", pv)


from sa.selftest import V  # noqa: E402

VARIANTS = [
    V("loader: swap the two updates", "break", _T, "    variables.update(all_config_base_vars)\n    variables.update(all_car_vars)", "    variables.update(all_car_vars)\n    variables.update(all_config_base_vars)", "O13.1"),
    V("installer: car variables win", "break", _P, "        variables.update(self.car.variables)\n        variables.update(defaults)", "        variables.update(defaults)\n        variables.update(self.car.variables)", "O13.1"),
    V("car params before the car file", "break", _T, "        variables = self._copy_section(config, \"variables\", {})\n        # add all car params here to override any defaults\n        if car_params:\n            variables.update(car_params)",
      "        variables = dict(car_params) if car_params else {}\n        self._copy_section(config, \"variables\", variables)", "O13.1"),
    V("seed m1: car params not applied to mixins", "break", _T, "        variables = self._copy_section(config, \"variables\", {})\n        # add all car params here to override any defaults\n        if car_params:\n            variables.update(car_params)",
      "        variables = self._copy_section(config, \"variables\", {})\n        if len(config_paths) > 0 and car_params:\n            variables.update(car_params)", "O13.1"),
    V("cars sorted by name", "break", _T, "    for n in name:\n        descriptor = CarLoader(repo).load_car(n, car_params)", "    for n in sorted(name):\n        descriptor = CarLoader(repo).load_car(n, car_params)", "O13.1"),
    V("duplicate config bases", "break", _T, "            if p not in all_config_paths:\n                all_config_paths.append(p)", "            all_config_paths.append(p)", "O13.2"),
    V("bare: open with w", "break", _P, "                with open(target_file, mode=\"a\", encoding=\"utf-8\") as f:\n                    f.write(_render_template(env, config_vars, source_file))", "                with open(target_file, mode=\"w\", encoding=\"utf-8\") as f:\n                    f.write(_render_template(env, config_vars, source_file))", "O13.3"),
    V("docker: open with w", "break", _P, "                        with open(target_file, mode=\"a\", encoding=\"utf-8\") as f:\n                            f.write(_render_template(env, self.config_vars, source_file))", "                        with open(target_file, mode=\"w\", encoding=\"utf-8\") as f:\n                            f.write(_render_template(env, self.config_vars, source_file))", "O13.3"),
    V("bare: target without the relative root", "break", _P, "            target_file = os.path.join(absolute_target_root, name)\n            if plain_text", "            target_file = os.path.join(target_root_path, name)\n            if plain_text", "O13.3"),
    V("docker: car variables win", "break", _P, "        self.config_vars.update(self.car.variables)\n        self.config_vars.update(provisioner_defaults)", "        self.config_vars.update(provisioner_defaults)\n        self.config_vars.update(self.car.variables)", "O13.1"),
    V("seed m2: no forced trailing newline", "break", _P, "        return template.render(variables) + \"\\n\"", "        return template.render(variables)", "O13.3"),
    V("delete in the preserve branch", "break", _P, "        console.info(f\"Preserving benchmark candidate installation at [{install_dir}].\", logger=logger)", "        console.info(f\"Preserving benchmark candidate installation at [{install_dir}].\", logger=logger)\n        delete_path(install_dir)", "O13.4"),
    V("seed m3: data paths under the install dir skipped", "break", _P, "        for path in data_paths:\n            delete_path(path)", "        for path in data_paths:\n            if not path.startswith(install_dir):\n                delete_path(path)", "O13.4"),
    # preserving
    V("dict unpacking in the installer", "keep", _P, "        variables = {}\n        variables.update(self.car.variables)\n        variables.update(defaults)\n        return variables", "        variables = {**self.car.variables, **defaults}\n        return variables"),
    V("os.path.relpath", "keep", _P, "        relative_root = root[len(source_root_path) + 1 :]", "        relative_root = os.path.relpath(root, source_root_path)"),
    V("inverted preserve test", "keep", _P, "    if preserve:\n        console.info(f\"Preserving benchmark candidate installation at [{install_dir}].\", logger=logger)\n    else:\n        logger.info(\"Wiping benchmark candidate installation at [%s].\", install_dir)\n        for path in data_paths:\n            delete_path(path)\n\n        delete_path(install_dir)",
      "    if not preserve:\n        logger.info(\"Wiping benchmark candidate installation at [%s].\", install_dir)\n        for path in data_paths:\n            delete_path(path)\n\n        delete_path(install_dir)\n    else:\n        console.info(f\"Preserving benchmark candidate installation at [{install_dir}].\", logger=logger)"),
]
