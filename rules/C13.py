"""C13 — cars compose in order with documented precedence; provisioning mirrors templates (DESIGN.md section 4, C13)."""
from __future__ import annotations

import ast

from sa import source
from sa.cfg import cfg_of, guards
from sa.source import AnchorMissing, arg_of, dotted, is_self_attr, last_attr, local_defs, params_of, short, u, walk_body

_T = "esrally/mechanic/team.py"
_P = "esrally/mechanic/provisioner.py"

INTERNAL_KEYS = {"cluster_name", "node_name", "data_paths", "log_path", "network_host", "http_port", "transport_port", "install_root_path", "node_ip", "all_node_ips", "all_node_names"}


def merges_into(func, target: str):
    """program-ordered list of (source text, node) merged into dict variable `target`: d.update(src), d[k] = v, {**a, **b}, dict(a, **b)."""
    g = cfg_of(func)
    out = []
    for n in walk_body(func):
        if isinstance(n, ast.Call) and isinstance(n.func, ast.Attribute) and n.func.attr == "update" and u(n.func.value) == target and n.args:
            out.append((u(n.args[0]), n))
        elif isinstance(n, ast.Assign) and u(n.targets[0]) == target and isinstance(n.value, ast.Dict) and n.value.keys and all(k is None for k in n.value.keys):
            for v in n.value.values:
                out.append((u(v), n))
        elif isinstance(n, ast.Assign) and isinstance(n.targets[0], ast.Subscript) and u(n.targets[0].value) == target:
            out.append((f"[{u(n.targets[0].slice)}]", n))
    out.sort(key=lambda x: (x[1].lineno, x[1].col_offset))
    return out, g


def ordered(g, a, b):
    """a is executed before b on every path that executes both, and b can never precede a."""
    na, nb = g.node_of(a), g.node_of(b)
    return not g.path_exists(nb, na) or na.id == nb.id


def run(chk):
    repo = chk.repo
    tm, pv = repo.module(_T), repo.module(_P)
    chk.use(tm, pv, "docs/car.rst")
    chk.explanation = (
        "Decides precedence by merge-order analysis (later source wins): config-base variables < car variables < car parameters in the car loader, accumulated over the car names in the "
        "given order; Rally's node variables merged last in the installer; config bases appended in order under a not-in guard; template mirroring (target path = target root + path "
        "relative to the source root + name; text files appended with a rendered chunk that always ends in a newline; others copied; one extension table); cleanup deletes every data "
        "path and the installation unless preserve, in which case no delete is reachable."
    )
    chk.not_decided = "Jinja output, filesystem effects, configparser interpolation."

    # ---- O13.1 merge order ---------------------------------------------------------------------------------------------------------------------
    chk.rule("O13.1", "merge order (later wins): config-base variables < car variables (car file < car params) in the loader; across cars accumulation in the given order; "
             "in the installer car variables < Rally's node variables (network host, ports, paths, names are in the last source)", 9,
             "any two sources defining one key: the documented precedence is inverted (e.g. a car overrides http_port, or --car-params does not override a mixin)")
    lc = tm.func("load_car")
    lp = params_of(lc)
    ret = [n for n in walk_body(lc) if isinstance(n, ast.Return) and isinstance(n.value, ast.Call) and last_attr(n.value.func) == "Car"]
    if not ret:
        raise AnchorMissing("return Car(...) in team.load_car")
    var = u(ret[0].value.args[3]) if len(ret[0].value.args) >= 4 else None
    seq, g = merges_into(lc, var)
    names = [s for s, _ in seq]
    # classify accumulators by what is merged into them in the loop
    loop = [n for n in walk_body(lc) if isinstance(n, ast.For) and u(n.iter) == lp[1]]
    chk.ob("O13.1", "cars are processed in the order given (plain loop over the names)", bool(loop), loop[0] if loop else lc, f"iterates `{u(loop[0].iter)}`" if loop else "no loop over the car names themselves (sorted/reversed/set?)")
    acc_roles = {}
    if loop:
        for n in ast.walk(loop[0]):
            if isinstance(n, ast.Call) and isinstance(n.func, ast.Attribute) and n.func.attr == "update" and n.args:
                src = u(n.args[0])
                role = "config-base" if src.endswith(".config_base_variables") else ("car" if src.endswith(".variables") else None)
                if role:
                    acc_roles[u(n.func.value)] = role
                    gs = guards(n, stop=loop[0])
                    chk.ob("O13.1", f"{role} variables of every car are accumulated unconditionally", not gs, n, f"guards {[(u(t), p) for t, p in gs]}" if gs else "")
    role_seq = [acc_roles.get(s, s) for s in names]
    ok = role_seq == ["config-base", "car"] and all(not guards(n) for _, n in seq) and ordered(g, seq[0][1], seq[1][1]) if len(seq) == 2 else False
    chk.ob("O13.1", "loader: config-base variables merged before car variables", ok, seq[0][1] if seq else lc, f"merge order into `{var}`: {role_seq}")
    dl = [n for n in ast.walk(loop[0]) if isinstance(n, ast.Call) and last_attr(n.func) == "load_car"] if loop else []
    ok = bool(dl) and len(dl[0].args) >= 2 and u(dl[0].args[0]) == loop[0].target.id and u(dl[0].args[1]) == lp[2]
    chk.ob("O13.1", "car parameters handed to every car/mixin descriptor", ok, dl[0] if dl else lc, "")
    CL = tm.cls("CarLoader")
    cl = tm.methods(CL).get("load_car")
    if cl is None:
        raise AnchorMissing("CarLoader.load_car")
    cp = params_of(cl)
    cret = [n for n in walk_body(cl) if isinstance(n, ast.Return) and isinstance(n.value, ast.Call) and last_attr(n.value.func) == "CarDescriptor"]
    if not cret:
        raise AnchorMissing("return CarDescriptor(...)")
    vvar = u(cret[0].value.args[-1])
    bvar = u(cret[0].value.args[-2])
    vdef = [n for n in walk_body(cl) if isinstance(n, ast.Assign) and u(n.targets[0]) == vvar]
    ok = len(vdef) == 1 and isinstance(vdef[0].value, ast.Call) and last_attr(vdef[0].value.func) == "_copy_section" and source.is_const(vdef[0].value.args[1], "variables") and not guards(vdef[0])
    chk.ob("O13.1", "car variables start from the car file's [variables] section", ok, vdef[0] if vdef else cl, "")
    seq2, g2 = merges_into(cl, vvar)
    ok = len(seq2) == 1 and seq2[0][0] == cp[2] and bool(vdef) and ordered(g2, vdef[0], seq2[0][1])
    chk.ob("O13.1", "car parameters merged after the car file's variables", ok, seq2[0][1] if seq2 else cl, f"merges into `{vvar}`: {[s for s, _ in seq2]}")
    if seq2:
        gs = guards(seq2[0][1])
        ok = all(pol and u(t) == cp[2] for t, pol in gs)
        chk.ob("O13.1", "car parameters applied to every descriptor (guarded only by their presence)", ok, seq2[0][1], f"guards {[(u(t), p) for t, p in gs]}" + ("" if ok else " — mixins / cars on the other branch do not get the parameters"))
    cb = [n for n in walk_body(cl) if isinstance(n, ast.Call) and last_attr(n.func) == "_copy_section" and len(n.args) == 3 and u(n.args[2]) == bvar]
    ok = bool(cb) and source.is_const(cb[0].args[1], "variables")
    chk.ob("O13.1", "config-base variables come from each base's config.ini [variables]", ok, cb[0] if cb else cl, "")
    # _copy_section: target.update / item stores of the section
    cs = tm.methods(CL).get("_copy_section")
    ok = cs is not None and any(isinstance(n, ast.Return) and u(n.value) == params_of(cs)[3] for n in walk_body(cs))
    chk.ob("O13.1", "_copy_section returns the target it filled", ok, cs if cs is not None else CL, "")
    EI = pv.cls("ElasticsearchInstaller")
    ev_ = pv.methods(EI).get("variables")
    if ev_ is None:
        raise AnchorMissing("ElasticsearchInstaller.variables")
    rv = [n for n in walk_body(ev_) if isinstance(n, ast.Return)]
    ivar = u(rv[0].value) if rv else None
    seq3, g3 = merges_into(ev_, ivar)
    n3 = [s for s, _ in seq3]
    edefs = local_defs(ev_)
    last_src = edefs.get(n3[-1]) if n3 and n3[-1] in edefs else None
    keys = {k.value for k in last_src.keys if isinstance(k, ast.Constant)} if isinstance(last_src, ast.Dict) else set()
    ok = len(n3) >= 2 and n3[0] == "self.car.variables" and INTERNAL_KEYS <= keys and all(not guards(n) for _, n in seq3) and ordered(g3, seq3[0][1], seq3[-1][1])
    chk.ob("O13.1", "installer: car variables merged before Rally's node variables", ok, seq3[-1][1] if seq3 else ev_, f"merge order: {n3}; internal keys missing from the last source: {sorted(INTERNAL_KEYS - keys)}")
    BP = pv.cls("BareProvisioner")
    pvf = pv.methods(BP).get("_provisioner_variables")
    rvp = [n for n in walk_body(pvf) if isinstance(n, ast.Return)] if pvf else []
    if pvf is None or not rvp:
        raise AnchorMissing("BareProvisioner._provisioner_variables")
    seq4, g4 = merges_into(pvf, u(rvp[0].value))
    n4 = [s for s, _ in seq4]
    ok = bool(n4) and n4[0] == "self.es_installer.variables"
    chk.ob("O13.1", "provisioner variables start from the installer's variables", ok, seq4[0][1] if seq4 else pvf, f"merge order: {n4}")
    if "plugin_variables" in n4[1:]:
        chk.adv("O13.1", "plugin variables are merged after the installer's variables: a plugin parameter named like an internal node variable (http_port, network_host, ...) overrides it (plugins are outside the property's statement)", seq4[1][1])

    # ---- O13.2 config bases in order without duplicates ---------------------------------------------------------------------------------------------------
    chk.rule("O13.2", "config bases are appended in the given order, guarded by `not in` (no duplicates, no re-ordering)", 3, "two cars sharing a config base: its templates are rendered twice (appended twice)")
    apps = [n for n in ast.walk(loop[0]) if isinstance(n, ast.Call) and last_attr(n.func) == "append"] if loop else []
    cfgapp = [n for n in apps if "config" in u(n.func.value)]
    ok = False
    if cfgapp:
        a = cfgapp[0]
        gs = guards(a, stop=loop[0])
        ok = len(gs) == 1 and gs[0][1] and u(gs[0][0]) == f"{u(a.args[0])} not in {u(a.func.value)}"
        inner = source.enclosing(a, ast.For)
        ok = ok and inner is not None and u(inner.iter).endswith(".config_paths")
    chk.ob("O13.2", "config paths appended under `not in`", ok, cfgapp[0] if cfgapp else lc, "")
    resort = [n for n in walk_body(lc) if isinstance(n, ast.Call) and (dotted(n.func) in ("sorted", "reversed", "set") or last_attr(n.func) in ("sort", "reverse"))]
    chk.ob("O13.2", "no re-ordering of the accumulated paths", not resort, resort[0] if resort else lc, "")
    ok = len(ret[0].value.args) >= 3 and bool(cfgapp) and u(ret[0].value.args[2]) == u(cfgapp[0].func.value)
    chk.ob("O13.2", "the accumulated config paths are the car's config paths", ok, ret[0], "")
    bl = [n for n in walk_body(cl) if isinstance(n, ast.For) and "config_base" in u(n.iter)]
    ok = bool(bl) and isinstance(local_defs(cl).get(u(bl[0].iter)), ast.Call) and last_attr(local_defs(cl)[u(bl[0].iter)].func) == "split"
    chk.ob("O13.2", "a car's config bases are applied in the order written (split on ',')", ok, bl[0] if bl else cl, "")
    req = [n for n in walk_body(lc) if isinstance(n, ast.Raise)]
    chk.ob("O13.2", "at least one config base is required", bool(req) and any(pol and "== 0" in u(t) for t, pol in guards(req[0])), req[0] if req else lc, "")

    # ---- O13.3 template mirroring ---------------------------------------------------------------------------------------------------------------------------
    chk.rule("O13.3", "target path == join(target root, path of the file's directory relative to the source root, name); text files are opened in append mode and receive the rendered template "
             "which always ends with a newline; other files are copied verbatim; the text/binary predicate is one extension table; every config base is applied in order", 8,
             "a template in a sub-directory lands elsewhere; a second base overwrites instead of appending; appended text glued onto the previous last line")
    walks = [(f, n) for f in pv.functions() for n in walk_body(f) if isinstance(n, ast.For) and isinstance(n.iter, ast.Call) and dotted(n.iter.func) == "os.walk"
             and any(isinstance(x, ast.Call) and last_attr(x.func) == "_render_template" for x in ast.walk(n))]
    chk.ob("O13.3", "template-mirroring sites located (bare and docker provisioner)", len(walks) >= 2, pv.tree, f"{len(walks)} os.walk site(s) rendering templates")
    for fn, W in walks:
        tag = source.qualname(fn)
        adefs = {}
        for n in ast.walk(W):
            if isinstance(n, ast.Assign) and len(n.targets) == 1 and isinstance(n.targets[0], ast.Name):
                adefs[n.targets[0].id] = n.value
        src_root = u(W.iter.args[0])
        rootv = W.target.elts[0].id
        filesv = W.target.elts[2].id
        rel = adefs.get("relative_root")
        relok = rel is not None and (u(rel) in (f"{rootv}[len({src_root}) + 1:]", f"os.path.relpath({rootv}, {src_root})"))
        chk.ob("O13.3", f"{tag}: relative root == directory path relative to the source root", relok, rel if rel is not None else W, u(rel) if rel is not None else "")
        tf = [n for n in ast.walk(W) if isinstance(n, ast.Assign) and isinstance(n.targets[0], ast.Name) and n.targets[0].id == "target_file"]
        ok = False
        if tf:
            e = source.inline_node(tf[0].value, {k: v for k, v in adefs.items() if k in ("absolute_target_root",)})
            fl = source.enclosing(tf[0], ast.For)
            ok = isinstance(e, ast.Call) and dotted(e.func) == "os.path.join" and len(e.args) == 2 and isinstance(e.args[0], ast.Call) and dotted(e.args[0].func) == "os.path.join" \
                and len(e.args[0].args) == 2 and u(e.args[0].args[1]) == "relative_root" and u(e.args[1]) == fl.target.id and u(fl.iter) == filesv
        chk.ob("O13.3", f"{tag}: target file == join(join(target root, relative root), name)", ok, tf[0] if tf else W, u(tf[0].value) if tf else "")
        opens = [n for n in ast.walk(W) if isinstance(n, ast.Call) and dotted(n.func) == "open"]
        ok = False
        if opens:
            mode = arg_of(opens[0], 1, "mode")
            ok = u(opens[0].args[0]) == "target_file" and mode is not None and isinstance(mode, ast.Constant) and mode.value in ("a", "a+", "at") and any(pol and "plain_text" in u(t) for t, pol in guards(opens[0], stop=W))
        chk.ob("O13.3", f"{tag}: text files opened in append mode", ok, opens[0] if opens else W, f"mode={u(arg_of(opens[0], 1, 'mode')) if opens else None}")
        wr = [n for n in ast.walk(W) if isinstance(n, ast.Call) and last_attr(n.func) == "write"]
        ok = bool(wr) and isinstance(wr[0].args[0], ast.Call) and last_attr(wr[0].args[0].func) == "_render_template" and u(wr[0].args[0].args[2]) == "source_file"
        chk.ob("O13.3", f"{tag}: the rendered template is written", ok, wr[0] if wr else W, "")
        # templates are looked up by BASE name, so the environment (and with it Jinja's template cache, keyed by loader and name) must belong to the walked directory
        rcall = [n for n in ast.walk(W) if isinstance(n, ast.Call) and last_attr(n.func) == "_render_template"]
        envarg = rcall[0].args[0] if rcall and rcall[0].args else None
        envdef = adefs.get(envarg.id) if isinstance(envarg, ast.Name) else envarg
        ok = isinstance(envdef, ast.Call) and last_attr(envdef.func) == "Environment" and any(
            isinstance(x, ast.Call) and last_attr(x.func) == "FileSystemLoader" and x.args and u(x.args[0]) == rootv for x in ast.walk(envdef))
        chk.ob("O13.3", f"{tag}: a fresh template environment per walked directory, loading from that directory", ok, rcall[0] if rcall else W,
               (u(envdef)[:80] if envdef is not None else "environment is not created inside the walk") + ("" if ok else " — same-named templates of different directories share one cached template"),
               key=f"{_P}:{tag}:env-per-directory")
        cps = [n for n in ast.walk(W) if isinstance(n, ast.Call) and dotted(n.func) in ("shutil.copy", "shutil.copy2", "shutil.copyfile")]
        ok = bool(cps) and [u(a) for a in cps[0].args] == ["source_file", "target_file"] and any((not pol) and "plain_text" in u(t) for t, pol in guards(cps[0], stop=W))
        chk.ob("O13.3", f"{tag}: other files copied verbatim", ok, cps[0] if cps else W, "")
        sf = adefs.get("source_file")
        ok = sf is not None and u(sf) == f"os.path.join({rootv}, {source.enclosing(tf[0], ast.For).target.id if tf else 'name'})"
        chk.ob("O13.3", f"{tag}: source file == join(walked directory, name)", ok, sf if sf is not None else W, "")
    # docker provisioner: same precedence for its own variables
    DP = pv.cls("DockerProvisioner")
    dinit = pv.methods(DP).get("__init__")
    seq5, g5 = merges_into(dinit, "self.config_vars")
    n5 = [s_ for s_, _ in seq5]
    ddefs = local_defs(dinit)
    lastd = ddefs.get(n5[-1]) if n5 and n5[-1] in ddefs else None
    dkeys = {k.value for k in lastd.keys if isinstance(k, ast.Constant)} if isinstance(lastd, ast.Dict) else set()
    ok = len(n5) >= 2 and n5[0] == "self.car.variables" and {"network_host", "http_port", "transport_port", "data_paths", "node_name", "cluster_name"} <= dkeys and ordered(g5, seq5[0][1], seq5[-1][1])
    chk.ob("O13.1", "docker provisioner: car variables merged before Rally's node variables", ok, seq5[-1][1] if seq5 else dinit, f"merge order: {n5}")
    rt = pv.func("_render_template")
    rets = [n for n in walk_body(rt) if isinstance(n, ast.Return)]
    ok = False
    if len(rets) == 1:
        v = rets[0].value
        ok = isinstance(v, ast.BinOp) and isinstance(v.op, ast.Add) and source.is_const(v.right, "\n") and isinstance(v.left, ast.Call) and last_attr(v.left.func) in ("render", "rstrip")
    chk.ob("O13.3", "every rendered chunk ends with a newline (appended snippets never glue onto the previous line)", ok, rets[0] if rets else rt, u(rets[0].value) if rets else "")
    pt = pv.func("plain_text")
    ok = any(isinstance(n, ast.Return) and isinstance(n.value, ast.Compare) and isinstance(n.value.ops[0], ast.In) and isinstance(n.value.comparators[0], (ast.List, ast.Tuple, ast.Set)) and
             {".yml", ".yaml", ".options", ".properties", ".json", ".ini", ".txt"} <= {e.value for e in n.value.comparators[0].elts if isinstance(e, ast.Constant)} for n in walk_body(pt))
    chk.ob("O13.3", "text/binary predicate is one extension table (incl. .yml .options .properties)", ok, pt, "")
    prep = pv.methods(BP).get("prepare")
    loops = [n for n in walk_body(prep) if isinstance(n, ast.For) and u(n.iter) == "self.es_installer.config_source_paths"]
    ok = bool(loops) and any(isinstance(x, ast.Call) and u(x.func) == "self.apply_config" and u(x.args[0]) == loops[0].target.id for x in ast.walk(loops[0])) and not guards(loops[0])
    chk.ob("O13.3", "every config base is applied, in order", ok, loops[0] if loops else prep, "")
    csp = pv.methods(EI).get("config_source_paths")
    ok = csp is not None and any(isinstance(n, ast.Return) and u(n.value) == "self.car.config_paths" for n in walk_body(csp))
    chk.ob("O13.3", "config source paths are the car's config paths (as accumulated)", ok, csp if csp is not None else EI, "")

    # ---- O13.4 cleanup -------------------------------------------------------------------------------------------------------------------------------------------
    chk.rule("O13.4", "cleanup: on the preserve-true edge no delete is reachable; on the false edge every data path and the install dir are deleted (no filter)", 4,
             "preserve-install removes something; or a data path outside the install dir is left behind")
    cu = pv.func("cleanup")
    cp_ = params_of(cu)
    ifs = [n for n in cu.body if isinstance(n, ast.If) and u(n.test) in (cp_[0], f"not {cp_[0]}")]
    if not ifs:
        raise AnchorMissing("branch on preserve in cleanup")
    I = ifs[0]
    pres_arm, del_arm = (I.body, I.orelse) if u(I.test) == cp_[0] else (I.orelse, I.body)
    dels_in_pres = [x for s in pres_arm for x in ast.walk(s) if isinstance(x, ast.Call) and (last_attr(x.func) in ("delete_path", "rmtree", "remove", "unlink", "rmdir"))]
    chk.ob("O13.4", "nothing deleted when preserving", not dels_in_pres, I, "")
    outside = [x for s in cu.body if s is not I and not isinstance(s, ast.FunctionDef) for x in ast.walk(s) if isinstance(x, ast.Call) and last_attr(x.func) in ("delete_path", "rmtree")]
    chk.ob("O13.4", "no delete outside the preserve branch", not outside, outside[0] if outside else cu, "")
    dl = [x for s in del_arm for x in ast.walk(s) if isinstance(x, ast.For) and u(x.iter) == cp_[2]]
    ok = bool(dl) and len(dl[0].body) == 1 and isinstance(dl[0].body[0], ast.Expr) and isinstance(dl[0].body[0].value, ast.Call) and last_attr(dl[0].body[0].value.func) == "delete_path" and u(dl[0].body[0].value.args[0]) == dl[0].target.id
    chk.ob("O13.4", "every data path is deleted (unconditional loop)", ok, dl[0] if dl else I, "" if ok else "the loop over the data paths filters or skips some paths")
    di = [x for s in del_arm for x in ast.walk(s) if isinstance(x, ast.Call) and last_attr(x.func) == "delete_path" and u(x.args[0]) == cp_[1]]
    ok = bool(di) and not guards(di[0], stop=I)
    chk.ob("O13.4", "the installation directory is deleted", ok, di[0] if di else I, "")
    dp = [n for n in cu.body if isinstance(n, ast.FunctionDef) and n.name == "delete_path"]
    ok = bool(dp) and any(isinstance(x, ast.Call) and dotted(x.func) == "shutil.rmtree" and u(x.args[0]) == params_of(dp[0])[0] for x in ast.walk(dp[0]))
    chk.ob("O13.4", "delete_path removes the given tree", ok, dp[0] if dp else cu, "")


from sa.selftest import V  # noqa: E402

VARIANTS = [
    V("loader: swap the two updates", "break", _T, "    variables.update(all_config_base_vars)\n    variables.update(all_car_vars)", "    variables.update(all_car_vars)\n    variables.update(all_config_base_vars)", "O13.1"),
    V("installer: car variables win", "break", _P, "        variables.update(self.car.variables)\n        variables.update(defaults)", "        variables.update(defaults)\n        variables.update(self.car.variables)", "O13.1"),
    V("car params before the car file", "break", _T, "        variables = self._copy_section(config, \"variables\", {})\n        # add all car params here to override any defaults\n        if car_params:\n            variables.update(car_params)",
      "        variables = dict(car_params) if car_params else {}\n        self._copy_section(config, \"variables\", variables)", "O13.1"),
    V("seed m1: car params not applied to mixins", "break", _T, "        variables = self._copy_section(config, \"variables\", {})\n        # add all car params here to override any defaults\n        if car_params:\n            variables.update(car_params)",
      "        variables = self._copy_section(config, \"variables\", {})\n        if len(config_paths) > 0 and car_params:\n            variables.update(car_params)", "O13.1"),
    V("cars sorted by name", "break", _T, "    for n in name:\n        descriptor = CarLoader(repo).load_car(n, car_params)", "    for n in sorted(name):\n        descriptor = CarLoader(repo).load_car(n, car_params)", "O13.1"),
    V("duplicate config bases", "break", _T, "            if p not in all_config_paths:\n                all_config_paths.append(p)", "            all_config_paths.append(p)", "O13.2"),
    V("bare: open with w", "break", _P, "                with open(target_file, mode=\"a\", encoding=\"utf-8\") as f:\n                    f.write(_render_template(env, config_vars, source_file))", "                with open(target_file, mode=\"w\", encoding=\"utf-8\") as f:\n                    f.write(_render_template(env, config_vars, source_file))", "O13.3"),
    V("docker: open with w", "break", _P, "                        with open(target_file, mode=\"a\", encoding=\"utf-8\") as f:\n                            f.write(_render_template(env, self.config_vars, source_file))", "                        with open(target_file, mode=\"w\", encoding=\"utf-8\") as f:\n                            f.write(_render_template(env, self.config_vars, source_file))", "O13.3"),
    V("bare: target without the relative root", "break", _P, "            target_file = os.path.join(absolute_target_root, name)\n            if plain_text", "            target_file = os.path.join(target_root_path, name)\n            if plain_text", "O13.3"),
    V("docker: car variables win", "break", _P, "        self.config_vars.update(self.car.variables)\n        self.config_vars.update(provisioner_defaults)", "        self.config_vars.update(provisioner_defaults)\n        self.config_vars.update(self.car.variables)", "O13.1"),
    V("seed m2: no forced trailing newline", "break", _P, "        return template.render(variables) + \"\\n\"", "        return template.render(variables)", "O13.3"),
    V("delete in the preserve branch", "break", _P, "        console.info(f\"Preserving benchmark candidate installation at [{install_dir}].\", logger=logger)", "        console.info(f\"Preserving benchmark candidate installation at [{install_dir}].\", logger=logger)\n        delete_path(install_dir)", "O13.4"),
    V("seed m3: data paths under the install dir skipped", "break", _P, "        for path in data_paths:\n            delete_path(path)", "        for path in data_paths:\n            if not path.startswith(install_dir):\n                delete_path(path)", "O13.4"),
    # preserving
    V("dict unpacking in the installer", "keep", _P, "        variables = {}\n        variables.update(self.car.variables)\n        variables.update(defaults)\n        return variables", "        variables = {**self.car.variables, **defaults}\n        return variables"),
    V("os.path.relpath", "keep", _P, "        relative_root = root[len(source_root_path) + 1 :]", "        relative_root = os.path.relpath(root, source_root_path)"),
    V("inverted preserve test", "keep", _P, "    if preserve:\n        console.info(f\"Preserving benchmark candidate installation at [{install_dir}].\", logger=logger)\n    else:\n        logger.info(\"Wiping benchmark candidate installation at [%s].\", install_dir)\n        for path in data_paths:\n            delete_path(path)\n\n        delete_path(install_dir)",
      "    if not preserve:\n        logger.info(\"Wiping benchmark candidate installation at [%s].\", install_dir)\n        for path in data_paths:\n            delete_path(path)\n\n        delete_path(install_dir)\n    else:\n        console.info(f\"Preserving benchmark candidate installation at [{install_dir}].\", logger=logger)"),
]
