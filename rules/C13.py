"""C13 — cars compose in order with documented precedence; provisioning mirrors templates (DESIGN.md section 4, C13).

How the obligations are decided (hardening round 2): wherever the property speaks about VALUES (which variable wins, which paths in which order, which file lands where with
which content, what is removed) the analysed functions are interpreted by `Sim` - a small interpreter over the parsed, normalised AST that lives in this module - in model worlds
supplied by the rules (a team repository of ini files, template trees with recording models of os.walk / open / shutil / jinja2 / pathlib, a file system in which a removal can fail),
and the resulting values / recorded operations are compared with what the property demands. No code of the repository is imported or executed. An extracted helper, a
comprehension, a renamed local / attribute / parameter, a dict display instead of update calls, a guard clause: all compute the same values, so none of them is visible to a rule.
What the interpreter cannot evaluate becomes an UNKNOWN value; statements that depend on one are havocked (their writes become unknown); a rule that needs an unknown value reports
'not recognised' (chk.unknown, exit 2) - a falsified obligation always rests on KNOWN values that differ from the demanded ones. Where the property speaks about every possible
value of user data (Rally's node variables cannot be overridden by ANY car / plugin variable) the merge order is analysed symbolically (DictFlow) and cross-checked on values."""
from __future__ import annotations

import ast
import collections
import itertools
import operator
import posixpath

from sa import pat, source
from sa.cfg import cfg_of, guards
from sa.classes import is_logging_call
from sa.minieval import CannotEval
from sa.source import AnchorMissing, dotted, is_self_attr, last_attr, local_defs, params_of, short, u, walk_body

_T = "esrally/mechanic/team.py"
_P = "esrally/mechanic/provisioner.py"

INTERNAL_KEYS = {"cluster_name", "node_name", "data_paths", "log_path", "network_host", "http_port", "transport_port", "install_root_path", "node_ip", "all_node_ips", "all_node_names"}


def assigns_to(func, name: str):
    """the (annotated or plain) assignment statements of `func` whose target is `name`."""
    return [n for n in walk_body(func) if (isinstance(n, ast.Assign) and len(n.targets) == 1 and u(n.targets[0]) == name) or (isinstance(n, ast.AnnAssign) and n.value is not None and u(n.target) == name)]


def ordered(g, a, b):
    """a is executed before b on every path that executes both, and b can never precede a."""
    na, nb = g.node_of(a), g.node_of(b)
    return not g.path_exists(nb, na) or na.id == nb.id


class Layer:
    """one source merged into a variables dict. origin: 'rally' (a dict display / item store written in Rally's code: its keys are known) or 'user' (data that comes from a car, a plugin,
    a parameter or anything else that cannot be resolved: it may hold ANY key). keys: the constant keys of a 'rally' layer, None = any key. must: merged on every path (not under a
    condition, not in a loop that may run zero times)."""
    __slots__ = ("origin", "keys", "must", "text", "node", "src", "vals")

    def __init__(self, origin, keys, must, text, node, src=None, vals=None):
        self.origin, self.keys, self.must, self.text, self.node = origin, keys, must, text, node  # node: the statement / expression that merges the layer (for the report)
        self.src = src if src is not None else node  # the source expression itself
        self.vals = vals or {}  # 'rally' layers: key -> (value expression, function, class) as written

    def show(self):
        k = "*" if self.keys is None else (f"{len(self.keys)} keys" if len(self.keys) > 3 else ",".join(sorted(self.keys)))
        return f"{'' if self.must else 'maybe '}{self.origin}:{self.text}[{k}]"


class DictFlow:
    """Merge-order model of dict-valued expressions of ONE module (later layer wins), followed through locals, accumulators (`d = {}` + `d.update(src)` / `d[k] = v` / `d |= src`),
    dict displays with `**`, `dict(a, **b)`, `.copy()`, and through properties / methods of the module's classes. The class of a receiver other than `self` is resolved by FIELD FLOW
    (`self.x = <parameter>` in `__init__` -> the argument at the construction sites of the class -> the class constructed there; loop variables over a list of such objects) and, failing
    that, by a member name that only one class of the module defines (DESIGN appendix E). Whatever cannot be resolved is a 'user' layer that may hold any key. Nothing is evaluated."""

    def __init__(self, repo, mod):
        self.repo, self.mod = repo, mod
        self.issues: list = []  # (text, node): shapes that make the order analysis meaningless (aliased accumulator, unordered merges)
        self.classes = {c.name: c for c in mod.classes()}

    # ---- receiver classes -----------------------------------------------------------------------------------------------------------------------------------
    def value_type(self, e, func, depth=0):
        """('obj', ClassDef) / ('list', ClassDef) for a constructor call / a list (comprehension) of constructor calls of a class of this module, else None."""
        if depth > 6 or e is None:
            return None
        if isinstance(e, ast.Call) and last_attr(e.func) in self.classes:
            return "obj", self.classes[last_attr(e.func)]
        if isinstance(e, ast.ListComp):
            t = self.value_type(e.elt, func, depth + 1)
            return ("list", t[1]) if t and t[0] == "obj" else None
        if isinstance(e, ast.List) and e.elts:
            ts = [self.value_type(x, func, depth + 1) for x in e.elts]
            return ("list", ts[0][1]) if all(t and t[0] == "obj" and t[1] is ts[0][1] for t in ts) else None
        if isinstance(e, ast.Name) and func is not None:
            d = local_defs(func).get(e.id)
            return self.value_type(d, func, depth + 1) if d is not None else None
        return None

    def type_of(self, e, func, cls, depth=0):
        if depth > 6:
            return None
        if is_self_attr(e) and cls is not None:
            init = self.mod.methods(cls).get("__init__")
            sets = [n for n in walk_body(init) if isinstance(n, ast.Assign) and len(n.targets) == 1 and is_self_attr(n.targets[0], e.attr)] if init is not None else []
            if len(sets) != 1:
                return None
            v = sets[0].value
            if isinstance(v, ast.Name) and v.id in params_of(init):
                sites = [n for n in ast.walk(self.mod.tree) if isinstance(n, ast.Call) and last_attr(n.func) == cls.name] or \
                        [n for n in source.constructions(self.repo, cls.name) if source.module_of(n).relpath.startswith("esrally/")]
                ts = [self.value_type(source.bind_args(c, init).get(v.id), source.enclosing_func(c)) for c in sites]
                return ts[0] if ts and all(t is not None and t == ts[0] for t in ts) else None
            return self.value_type(v, init)
        if isinstance(e, ast.Name) and func is not None:
            loops = [n for n in walk_body(func) if isinstance(n, (ast.For, ast.AsyncFor)) and isinstance(n.target, ast.Name) and n.target.id == e.id]
            if len(loops) == 1:
                t = self.type_of(loops[0].iter, func, cls, depth + 1)
                return ("obj", t[1]) if t and t[0] == "list" else None
            d = local_defs(func).get(e.id)
            if isinstance(d, (ast.Name, ast.Attribute)):
                return self.type_of(d, func, cls, depth + 1)  # `inst = self.es_installer`
            return self.value_type(e, func)
        return None

    def member(self, recv, name, func, cls):
        """(class, function) of `recv.name`, or None."""
        if isinstance(recv, ast.Name) and recv.id == "self" and cls is not None:
            c = cls
        else:
            t = self.type_of(recv, func, cls)
            c = t[1] if t and t[0] == "obj" else None
            if c is None:
                owners = [k for k in self.classes.values() if name in self.mod.methods(k)]
                c = owners[0] if len(owners) == 1 else None
        f = self.mod.methods(c).get(name) if c is not None else None
        return (c, f) if f is not None else None

    # ---- layers ---------------------------------------------------------------------------------------------------------------------------------------------------
    def user(self, e, must=True):
        return [Layer("user", None, must, short(e, 50), e)]

    def returned(self, f, c, depth):
        rets = [n for n in walk_body(f) if isinstance(n, ast.Return) and n.value is not None]
        if len(rets) != 1:
            raise source.AnchorMissing(f"{source.qualname(f)}: exactly one `return <dict>` expected, found {len(rets)}")
        return self.layers(rets[0].value, f, c, depth + 1)

    def layers(self, e, func, cls, depth=0):
        if depth > 12:
            raise source.AnchorMissing(f"dict flow too deep at `{short(e, 60)}`")
        if isinstance(e, ast.Dict):
            out, lit = [], {}
            for k, v in zip(e.keys, e.values):
                if k is None or not isinstance(k, ast.Constant):
                    if lit:
                        out.append(Layer("rally", frozenset(lit), True, f"{{...}}@{source.qualname(func)}", e, vals=lit))
                        lit = {}
                    out += self.layers(v, func, cls, depth + 1) if k is None else [Layer("rally", None, False, f"[{short(k, 30)}]", e)]  # a computed key: may be any key
                else:
                    lit[k.value] = (v, func, cls)
            if lit:
                out.append(Layer("rally", frozenset(lit), True, f"{{...}}@{source.qualname(func)}", e, vals=lit))
            return out
        if isinstance(e, ast.Call):
            fn = dotted(e.func)
            if fn == "dict" or fn in ("copy.copy", "copy.deepcopy"):
                out = []
                for a in e.args:
                    out += self.layers(a, func, cls, depth + 1)
                kw = {k.arg: (k.value, func, cls) for k in e.keywords if k.arg}
                for k in e.keywords:
                    if k.arg is None:
                        out += self.layers(k.value, func, cls, depth + 1)
                if kw:
                    out.append(Layer("rally", frozenset(kw), True, "dict(k=...)", e, vals=kw))
                return out
            if fn in ("collections.ChainMap", "ChainMap") and e.args and not e.keywords:
                out = []
                for a in reversed(e.args):  # the FIRST mapping of a ChainMap wins: it is the last layer
                    out += self.layers(a, func, cls, depth + 1)
                return out
            if isinstance(e.func, ast.Attribute) and e.func.attr == "copy" and not e.args:
                return self.layers(e.func.value, func, cls, depth + 1)
            if isinstance(e.func, ast.Attribute) and not e.args and not e.keywords:
                m = self.member(e.func.value, e.func.attr, func, cls)
                if m is not None:
                    return self.returned(m[1], m[0], depth)
            return self.user(e)
        if isinstance(e, ast.BinOp) and isinstance(e.op, ast.BitOr):
            return self.layers(e.left, func, cls, depth + 1) + self.layers(e.right, func, cls, depth + 1)
        if isinstance(e, ast.Name) or is_self_attr(e):
            got = self.variable(e, func, cls, depth)
            if got is not None:
                return got
        if isinstance(e, ast.Attribute):
            m = self.member(e.value, e.attr, func, cls)
            if m is not None and any(dotted(d) == "property" for d in m[1].decorator_list):
                return self.returned(m[1], m[0], depth)
            return self.user(e)
        return self.user(e)

    def is_new(self, e, func, cls, depth=0):
        """the value is a NEW dict (merging into it cannot change any other object): a display / comprehension / dict(...) / .copy(), or a property / method of a class of this module
        (or a single-assignment local) that returns such a value."""
        if depth > 6 or e is None:
            return False
        if isinstance(e, (ast.Dict, ast.DictComp)) or (isinstance(e, ast.BinOp) and isinstance(e.op, ast.BitOr)):
            return True
        if isinstance(e, ast.Call) and (dotted(e.func) in ("dict", "copy.copy", "copy.deepcopy", "collections.OrderedDict") or (isinstance(e.func, ast.Attribute) and e.func.attr == "copy")):
            return True
        if isinstance(e, ast.Name):
            d = assigns_to(func, e.id)
            return len(d) == 1 and self.is_new(d[0].value, func, cls, depth + 1)
        m = None
        if isinstance(e, ast.Call) and isinstance(e.func, ast.Attribute) and not e.args and not e.keywords:
            m = self.member(e.func.value, e.func.attr, func, cls)
        elif isinstance(e, ast.Attribute):
            m = self.member(e.value, e.attr, func, cls)
            m = m if m is not None and any(dotted(d) == "property" for d in m[1].decorator_list) else None
        if m is not None:
            rets = [n for n in walk_body(m[1]) if isinstance(n, ast.Return) and n.value is not None]
            return bool(rets) and all(self.is_new(r.value, m[1], m[0], depth + 1) for r in rets)
        return False

    def variable(self, e, func, cls, depth):
        """layers of a local / self attribute that is built inside `func` (for a self attribute read elsewhere: inside `__init__`); None if it is not built here."""
        name = u(e)
        defs = assigns_to(func, name)
        if not defs:
            init = self.mod.methods(cls).get("__init__") if is_self_attr(e) and cls is not None else None
            if init is not None and init is not func and assigns_to(init, name):
                return self.variable(e, init, cls, depth + 1)
            return None
        if len(defs) != 1:
            raise source.AnchorMissing(f"{source.qualname(func)}: `{name}` is assigned {len(defs)} times; the merge order into it is not decided")
        d0 = defs[0]
        g = cfg_of(func)
        merges = []
        for n in walk_body(func):
            if isinstance(n, ast.Call) and isinstance(n.func, ast.Attribute) and n.func.attr == "update" and u(n.func.value) == name:
                merges.append((n, list(n.args) + [k.value for k in n.keywords if k.arg is None], {k.arg for k in n.keywords if k.arg}))
            elif isinstance(n, ast.Assign) and isinstance(n.targets[0], ast.Subscript) and u(n.targets[0].value) == name:
                merges.append((n, [], n.targets[0].slice))
            elif isinstance(n, ast.AugAssign) and isinstance(n.op, ast.BitOr) and u(n.target) == name:
                merges.append((n, [n.value], set()))
            elif isinstance(n, ast.Call) and isinstance(n.func, ast.Attribute) and n.func.attr in ("setdefault", "pop", "clear", "popitem") and u(n.func.value) == name:
                raise source.AnchorMissing(f"{source.qualname(func)}: `{short(n, 60)}` — only update / item stores are understood by the merge-order analysis")
        merges.sort(key=lambda m: (m[0].lineno, m[0].col_offset))
        out = self.layers(d0.value, func, cls, depth + 1)
        if merges and not self.is_new(d0.value, func, cls):
            self.issues.append((f"`{name}` is not a new dict but `{short(d0.value, 50)}` itself: merging into it writes Rally's values into that object (the car's variables) for every later reader", d0))
        prev = d0
        for n, srcs, keys in merges:
            if not ordered(g, prev, n) or (prev is d0 and g.path_exists(g.node_of(n), g.node_of(d0))):
                self.issues.append((f"the merges into `{name}` are not executed in one fixed order", n))
            prev = n
            must = not guards(n, path_sensitive=True) and not any(isinstance(a, (ast.For, ast.AsyncFor, ast.While, ast.Try)) for a in source.ancestors(n) if any(a is x for x in walk_body(func)))
            sub = []
            for s_ in srcs:
                sub += self.layers(s_, func, cls, depth + 1)
            if isinstance(keys, ast.AST):
                sub.append(Layer("rally", frozenset([keys.value]) if isinstance(keys, ast.Constant) else None, isinstance(keys, ast.Constant), f"[{short(keys, 30)}]", n,
                                 vals={keys.value: (n.value, func, cls)} if isinstance(keys, ast.Constant) else None))
            elif keys:
                sub.append(Layer("rally", frozenset(keys), True, "update(k=...)", n, vals={k.arg: (k.value, func, cls) for k in n.keywords if k.arg}))
            for L in sub:
                out.append(Layer(L.origin, L.keys, L.must and must, L.text, n, L.src, L.vals))
        return out


def overridable(layers, keys, flow=None):
    """{key: layer or None} for every key whose FINAL value is not surely Rally's own: walking back from the last merged source, the first one that can hold the key is a user source
    (reported), or no Rally source holds it on every path (None), or the value Rally's own entry stores is itself read from one of the user sources of this composition
    (`d["http_port"] = plugin_variables.get("http_port", ...)`: the user layer is reported)."""
    bad = {}
    user_texts = {u(L.src) for L in layers if L.origin == "user"}
    for k in sorted(keys):
        for L in reversed(layers):
            if L.keys is None or k in L.keys:
                if L.origin == "user":
                    bad[k] = L
                    break
                if flow is not None and k in L.vals:
                    v, f, c = L.vals[k]
                    probe = DictFlow(flow.repo, flow.mod)  # a scratch instance: its issues are not this composition's
                    for x in ast.walk(v):
                        if isinstance(x, (ast.Name, ast.Attribute)) and isinstance(getattr(x, "ctx", None), ast.Load):
                            try:
                                hit = [U for U in probe.layers(x, f, c) if U.origin == "user" and u(U.src) in user_texts]
                            except AnchorMissing:
                                hit = []
                            if hit:
                                bad[k] = hit[0]
                                break
                    if k in bad:
                        break
                if L.must:
                    break
        else:
            bad[k] = None
    return bad


_LINK, _LINK_TARGET = "/data/on-the-big-disk", "/mnt/big/elasticsearch-data"
_KEY_SYMLINK = f"{_P}:cleanup.delete_path:symlinked-data-path-removed-or-failure-reported"  # the construct the known finding F54 was recorded under (kept whatever the helper is called now)


def _removal_site(pv, cu):
    calls = [x for f in [cu] + [f for f in pv.tree.body if isinstance(f, (ast.FunctionDef, ast.AsyncFunctionDef))] for x in ast.walk(f) if isinstance(x, ast.Call) and dotted(x.func) == "shutil.rmtree"]
    inside = [x for x in calls if any(a is cu for a in source.ancestors(x))]
    return (inside or calls or [cu])[0]


def symlinked_data_path_rule(chk, rid, pv, cu, data_param=None):
    """cleanup removes ALL data paths: a data path is given by the user (car parameter data_paths) and may legally be a symbolic link to a directory on another disk. shutil.rmtree(<link>)
    refuses with OSError('Cannot call rmtree on a symbolic link'). Decided on VALUES: cleanup is interpreted over a model file system in which one data path is such a link (islink is
    true for it, realpath gives its target, rmtree of the link itself fails with OSError, unlink / remove of the link works). Necessary: the link is dealt with (the link is unlinked, or
    the tree it points to is removed) or the refusal surfaces (cleanup raises) - if cleanup returns normally and nothing was removed for that data path, the data survives silently."""
    install, data = "/node/install", ["/data/one", _LINK]
    events, sim, raised = _simulate_cleanup(chk.repo, pv, cu, False, install, data, links={_LINK: _LINK_TARGET})
    text = "cleanup: a data path that is a symbolic link to a directory is removed as well, or the refusal of the tree removal is reported (not swallowed)"
    at = _removal_site(pv, cu)
    handled = [(k, p) for k, p in events if isinstance(p, str) and ((k == "tree" and (p == _LINK_TARGET or p.startswith(_LINK_TARGET + "/") or p.startswith(_LINK + "/"))) or (k in ("unlink", "file") and p == _LINK))]
    blind = sim.notes or _relevant_unknown(sim, data + [install, _LINK_TARGET]) or any(not isinstance(p, str) for _, p in events)
    if raised is not None or handled:
        chk.ob(rid, text, True, at, "the refusal is reported" if raised is not None else f"model: {handled[0]!r}", key=_KEY_SYMLINK)
    elif blind:
        chk.unknown(rid, f"{text}: nothing was seen to be removed for the link, but the run was not fully interpreted ({_why(sim)})", at)
    else:
        chk.ob(rid, text, False, at, f"model cleanup(preserve=False, {install!r}, {data!r}) where `{_LINK}` is a symbolic link to the directory `{_LINK_TARGET}` (data_paths on another disk): the tree removal of the "
               f"link itself raises OSError('Cannot call rmtree on a symbolic link'), nothing else is done for it ({[p for _, p in events]!r} removed) and cleanup returns normally: the failure is swallowed, "
               "the data survives into the next race", key=_KEY_SYMLINK)


def cleanup_isolation_rule(chk, rid, pv):
    """provisioner.cleanup: a path that cannot be deleted (OSError) does not stop the deletion of the remaining data paths and of the installation - or the failure is reported (cleanup
    raises), not swallowed. Decided on VALUES: cleanup is interpreted over a model file system in which the removal of the FIRST data path fails with OSError; afterwards every other
    data path and the installation have been removed, or cleanup has raised. A try that spans the loop or several delete calls swallows the first failure together with all later
    deletions: cleanup returns normally and the rest is still there. Shared with C12 (clean up unless preserve)."""
    cu = pv.func("cleanup")
    if len(params_of(cu)) < 3:
        raise AnchorMissing("cleanup(preserve, install_dir, data_paths)")
    install, data = "/node/install", ["/data/one", "/node/install/es/data", "/data/two"]
    events, sim, raised = _simulate_cleanup(chk.repo, pv, cu, False, install, data, undeletable=(data[0],))
    text = "cleanup: a failing deletion is contained per path (no handler swallows it together with the remaining deletions)"
    key = "esrally/mechanic/provisioner.py:cleanup:failure-contained-per-path"
    removed = [p for _, p in events]
    rest = [p for p in data[1:] + [install] if p not in [q for q in removed if isinstance(q, str)]]
    tries = [t for t in ast.walk(cu) if isinstance(t, ast.Try)]
    blind = sim.notes or _relevant_unknown(sim, data + [install]) or any(not isinstance(p, str) for p in removed)
    if raised is not None or not rest:
        chk.ob(rid, text, True, cu, "the failure is reported" if raised is not None else "", key=key)
    elif blind:
        chk.unknown(rid, f"{text}: no removal of {rest} was seen after the failure, but the run was not fully interpreted ({_why(sim)})", cu)
    else:
        chk.ob(rid, text, False, tries[0] if tries else cu, f"model cleanup(preserve=False, {install!r}, {data!r}) where `{data[0]}` cannot be removed (OSError): cleanup returns normally, "
               f"only {removed!r} removed - the first path that cannot be removed leaves {rest!r} on disk while cleanup returns normally", key=key)


# =====================================================================================================================================================================
# Value simulation (local helper, a candidate for sa/): the statements of the analysed functions are INTERPRETED over representative values instead of being matched by shape.
# Nothing of the repository is imported or run: the interpreter walks the parsed (normalised) AST. Calls into functions / methods / classes of the repository are followed
# (an extracted helper, a comprehension, an accumulator in another spelling all compute the same values), the outside world (file system, configparser, os.walk, shutil, ...) is a
# small model supplied by the rule, and whatever is not modelled evaluates to an UNKNOWN value: a statement whose effect depends on an unknown value is "havocked" (every name it
# binds becomes unknown, every object it may change becomes tainted). A rule then inspects the resulting values: a value that is unknown means "shape not recognised"
# (chk.unknown), never a falsified obligation; a KNOWN value that differs from what the property demands is a located defect.


class _OpaqueT:
    def __repr__(self):
        return "<?>"

    def __bool__(self):  # python builtins (filter, any, sorted, `in`) must never decide anything on an unknown value
        raise CannotEval("truth of an unknown value")

    def __eq__(self, other):
        raise CannotEval("comparison with an unknown value")

    def __hash__(self):
        return 7


OPAQUE = _OpaqueT()  # a value the model knows nothing about


class _LoggerT:
    def __repr__(self):
        return "<logger>"


LOGGER = _LoggerT()  # the value of logging.getLogger(...): calls on it have no effect on anything


class Native:
    """base of the model objects of the outside world (public python methods are callable from interpreted code)."""
    _raw = True  # constructing one with an unknown argument still gives a model object


class Obj:
    """instance of a class of the repository."""
    __slots__ = ("cls", "fields")

    def __init__(self, cls):
        self.cls, self.fields = cls, {}

    def __repr__(self):
        return f"<{self.cls.node.name} {self.fields}>"


class ClassRef:
    __slots__ = ("node", "mod", "env")

    def __init__(self, node, mod, env=None):
        self.node, self.mod, self.env = node, mod, env


class Fn:
    __slots__ = ("node", "mod", "env", "self_", "cls")

    def __init__(self, node, mod, env=None, self_=None, cls=None):
        self.node, self.mod, self.env, self.self_, self.cls = node, mod, env, self_, cls


class ModRef:
    __slots__ = ("name",)

    def __init__(self, name):
        self.name = name


class _BoundM:
    """method of a builtin container / string, bound to its receiver (so that the call can decide what an unknown argument does to the receiver)."""
    __slots__ = ("recv", "name")

    def __init__(self, recv, name):
        self.recv, self.name = recv, name


class _Return(Exception):
    def __init__(self, value):
        self.value = value


class Raised(Exception):
    """the interpreted code raised (node: the raise / assert statement, or the expression in which the model world failed); exc: name of the exception class, None if unknown."""

    def __init__(self, node, exc=None):
        self.node, self.exc = node, exc


class ModelError(Exception):
    """raised by a model function of the outside world: the modelled call fails with the named builtin exception (shutil.rmtree on a symbolic link -> OSError)."""

    def __init__(self, exc):
        self.exc = exc


_EXC_ALIASES = {"IOError": "OSError", "EnvironmentError": "OSError"}
_EXC_PARENT = {"KeyError": "LookupError", "IndexError": "LookupError", "LookupError": "Exception", "ValueError": "Exception", "UnicodeError": "ValueError", "UnicodeDecodeError": "UnicodeError",
               "OSError": "Exception", "FileNotFoundError": "OSError", "FileExistsError": "OSError", "PermissionError": "OSError", "NotADirectoryError": "OSError", "IsADirectoryError": "OSError",
               "TimeoutError": "OSError", "TypeError": "Exception", "AttributeError": "Exception", "AssertionError": "Exception", "RuntimeError": "Exception", "NotImplementedError": "RuntimeError",
               "StopIteration": "Exception", "ArithmeticError": "Exception", "ZeroDivisionError": "ArithmeticError", "Exception": "BaseException", "KeyboardInterrupt": "BaseException",
               "SystemExit": "BaseException", "BaseException": None}


def _handler_catches(h, exc):
    """True / False / None (undecidable): does `except <h.type>` catch an exception of the class named exc?"""
    if h.type is None:
        return True
    names = [(dotted(t) or "?").split(".")[-1] for t in (h.type.elts if isinstance(h.type, ast.Tuple) else [h.type])]
    names = [_EXC_ALIASES.get(n, n) for n in names]
    if exc is None:
        return True if "BaseException" in names else None
    exc = _EXC_ALIASES.get(exc, exc)
    if exc in _EXC_PARENT:  # a builtin exception: its ancestry is known, classes of the repository never catch it
        chain, c = [], exc
        while c is not None:
            chain.append(c)
            c = _EXC_PARENT.get(c)
        return any(n in chain for n in names)
    if exc in names or "Exception" in names or "BaseException" in names:
        return True
    return None  # an exception class of the repository and a handler for another class: it may be a base class


class _Break(Exception):
    pass


class _Continue(Exception):
    pass


class _Budget(CannotEval):
    pass


class Env:
    __slots__ = ("vars", "parent", "mod", "cls")

    def __init__(self, mod, parent=None, cls=None, vars=None):
        self.vars, self.parent, self.mod, self.cls = vars if vars is not None else {}, parent, mod, cls

    def find(self, name):
        e = self
        while e is not None:
            if name in e.vars:
                return e
            e = e.parent
        return None


_MISSING = object()
_MUTABLE = (list, dict, set, Obj, Native, collections.ChainMap)
_SAFE_ERRORS = (KeyError, IndexError, ValueError, TypeError, AttributeError, StopIteration, ZeroDivisionError, RecursionError, OverflowError)
_BINOPS = {ast.Add: operator.add, ast.Sub: operator.sub, ast.Mult: operator.mul, ast.Div: operator.truediv, ast.FloorDiv: operator.floordiv, ast.Mod: operator.mod, ast.Pow: operator.pow,
           ast.BitOr: operator.or_, ast.BitAnd: operator.and_, ast.BitXor: operator.xor}
_IOPS = {ast.Add: operator.iadd, ast.Sub: operator.isub, ast.Mult: operator.imul, ast.Div: operator.itruediv, ast.FloorDiv: operator.ifloordiv, ast.Mod: operator.imod, ast.Pow: operator.ipow,
         ast.BitOr: operator.ior, ast.BitAnd: operator.iand, ast.BitXor: operator.ixor}
_CMPOPS = {ast.Eq: operator.eq, ast.NotEq: operator.ne, ast.Lt: operator.lt, ast.LtE: operator.le, ast.Gt: operator.gt, ast.GtE: operator.ge}
# methods of builtin containers that change the receiver / that store an argument as an element (an unknown element is still a known container)
_MUTATORS = {"append", "extend", "insert", "pop", "remove", "sort", "reverse", "clear", "update", "setdefault", "popitem", "add", "discard", "difference_update", "intersection_update",
             "symmetric_difference_update", "appendleft", "extendleft", "move_to_end"}
_STORES_ELEMENT = {"append", "insert", "add", "appendleft"}
_PURE_BUILTINS = {"len": len, "str": str, "int": int, "float": float, "bool": bool, "list": list, "tuple": tuple, "set": set, "frozenset": frozenset, "dict": dict, "sorted": sorted,
                  "reversed": reversed, "enumerate": enumerate, "zip": zip, "range": range, "min": min, "max": max, "sum": sum, "any": any, "all": all, "filter": filter, "map": map,
                  "iter": iter, "next": next, "repr": repr, "abs": abs, "round": round, "bytes": bytes, "object": object, "slice": slice, "divmod": divmod, "ord": ord, "chr": chr}
_TYPES = (str, int, float, bool, list, tuple, set, frozenset, dict, bytes, object)


def _ordered(v):
    """deterministic iteration order for sets (Python's own depends on the hash seed): an order that is unlikely to coincide with any meaningful one."""
    return sorted(v, key=repr, reverse=True) if isinstance(v, (set, frozenset)) else v


_PURE_EXTERNALS = {
    "os.path.join": posixpath.join, "os.path.basename": posixpath.basename, "os.path.dirname": posixpath.dirname, "os.path.split": posixpath.split, "os.path.splitext": posixpath.splitext,
    "os.path.normpath": posixpath.normpath, "os.path.relpath": posixpath.relpath, "os.path.isabs": posixpath.isabs, "os.path.commonprefix": posixpath.commonprefix,
    "posixpath.join": posixpath.join, "itertools.chain": itertools.chain, "itertools.chain.from_iterable": itertools.chain.from_iterable,
    "collections.OrderedDict": collections.OrderedDict, "collections.ChainMap": collections.ChainMap, "logging.getLogger": lambda *a, **k: LOGGER,
    "copy.copy": lambda v: _plain_copy(v, False), "copy.deepcopy": lambda v, *a: _plain_copy(v, True), "os.fspath": lambda v: v if isinstance(v, str) else OPAQUE,
}


def _plain_copy(v, deep):
    """copy.copy / copy.deepcopy of plain containers (model objects carry AST nodes: those are never copied)."""
    import copy

    def plain(x, d=0):
        return d < 8 and (x is None or isinstance(x, (str, int, float, bool, bytes)) or (isinstance(x, (list, tuple, set, frozenset)) and all(plain(y, d + 1) for y in x))
                          or (isinstance(x, dict) and all(plain(k, d + 1) and plain(y, d + 1) for k, y in x.items())))
    if deep:
        return copy.deepcopy(v) if plain(v) else OPAQUE
    return copy.copy(v) if isinstance(v, (list, dict, set, tuple, frozenset, str, int, float, bool, bytes)) or v is None else OPAQUE



class _PPath(Native):
    """pathlib.Path over the model world of a simulation: pure operations are computed on the path text, operations that touch the file system go to the model functions
    (os.path.exists, os.makedirs, open, os.unlink, ...) the rule supplied - whatever the rule did not model is 'not recognised'."""

    def __init__(self, world, *parts):
        if not all(isinstance(x, (str, _PPath)) for x in parts):
            raise CannotEval("pathlib.Path of an unknown value")
        self._world, self._s = world, (posixpath.join(*[str(x) for x in parts]) if parts else ".")

    def __str__(self):
        return self._s

    def __fspath__(self):
        return self._s

    def __repr__(self):
        return f"Path({self._s!r})"

    def __eq__(self, other):
        return isinstance(other, _PPath) and other._s == self._s

    def __hash__(self):
        return hash(self._s)

    def __truediv__(self, other):
        return _PPath(self._world, self, other)

    def __rtruediv__(self, other):
        return _PPath(self._world, other, self)

    def _w(self, name, *a, **k):
        if name not in self._world:
            raise CannotEval(f"{name} is not part of the model world")
        return self._world[name](*a, **k)

    name = property(lambda self: posixpath.basename(self._s))
    parent = property(lambda self: _PPath(self._world, posixpath.dirname(self._s) or "."))
    suffix = property(lambda self: posixpath.splitext(self._s)[1])
    stem = property(lambda self: posixpath.splitext(posixpath.basename(self._s))[0])
    parts = property(lambda self: tuple(x for x in self._s.split("/") if x))

    def joinpath(self, *others):
        return _PPath(self._world, self, *others)

    def with_name(self, name):
        return _PPath(self._world, posixpath.dirname(self._s), name)

    def with_suffix(self, suffix):
        return _PPath(self._world, posixpath.splitext(self._s)[0] + suffix)

    def relative_to(self, other):
        return _PPath(self._world, posixpath.relpath(self._s, str(other)))

    def is_absolute(self):
        return self._s.startswith("/")

    def as_posix(self):
        return self._s

    def exists(self):
        return self._w("os.path.exists", self._s)

    def is_dir(self):
        return self._w("os.path.isdir", self._s)

    def is_file(self):
        return self._w("os.path.isfile", self._s)

    def is_symlink(self):
        return self._w("os.path.islink", self._s)

    def resolve(self, *a, **k):
        return _PPath(self._world, self._w("os.path.realpath", self._s))

    def mkdir(self, *a, **k):
        return self._w("os.makedirs", self._s)

    def open(self, mode="r", *a, **k):
        return self._w("open", self._s, mode)

    def write_text(self, text, *a, **k):
        self._w("open", self._s, "w").write(text)

    def unlink(self, *a, **k):
        return self._w("os.unlink", self._s)

    def rmdir(self):
        return self._w("os.rmdir", self._s)


class _Suppress(Native):
    """contextlib.suppress(<exception classes>)."""

    def __init__(self, *classes):
        self.names = [c.name.split(".")[-1] if isinstance(c, ModRef) else None for c in classes]


class Sim:
    def __init__(self, repo, externals=None, overrides=None, silent_prefixes=("esrally.utils.console.", "logging."), follow=("esrally.utils.io.",), budget=60000):
        self.repo = repo
        self.follow = tuple(follow)  # other modules of the repository whose functions are interpreted as well (everything else outside the analysed module is unknown)
        self.ext = dict(_PURE_EXTERNALS)
        self.ext.update(externals or {})
        for n in ("pathlib.Path", "pathlib.PurePath", "pathlib.PosixPath", "pathlib.PurePosixPath"):
            self.ext.setdefault(n, self._path)
        self.ext.setdefault("contextlib.suppress", _Suppress)
        self.over = overrides or {}  # qualified name of a repository function -> python callable(*values) used instead of interpreting it
        self.silent = tuple(silent_prefixes)  # external calls that only print / log: no effect, nothing tainted
        self.tainted: dict = {}  # id -> object whose content is unknown (kept alive so that ids stay unique)
        self.budget = budget
        self.notes: list = []  # (statement, reason) of every havocked statement, for diagnostics
        self.unknown_calls: list = []  # argument values of every call the model knows nothing about
        self.assumed: list = []  # guard clauses with an undecidable test that only raise: assumed not taken
        self.handling: list = []  # the exceptions whose handlers are being executed (innermost last)
        self.depth = 0
        self._modenv: dict = {}

    def _path(self, *parts):
        return _PPath(self.ext, *parts)

    _path._raw = True  # type: ignore[attr-defined]

    # ---- unknown values ---------------------------------------------------------------------------------------------------------------------------------------------
    def unknown(self, v) -> bool:
        return v is OPAQUE or id(v) in self.tainted

    def taint(self, v):
        if isinstance(v, _MUTABLE):
            self.tainted[id(v)] = v

    def known(self, v, depth=0) -> bool:
        """the value is known through and through (containers, fields of objects)."""
        if self.unknown(v) or depth > 8:
            return False
        if isinstance(v, dict):
            return all(self.known(k, depth + 1) and self.known(x, depth + 1) for k, x in v.items())
        if isinstance(v, (list, tuple, set, frozenset)):
            return all(self.known(x, depth + 1) for x in v)
        return True

    def tick(self, n=1):
        self.budget -= n
        if self.budget < 0:
            raise _Budget("simulation budget exhausted")

    def truth(self, v) -> bool:
        if self.unknown(v):
            raise CannotEval("truth of an unknown value")
        if isinstance(v, (Obj, Fn, ClassRef, ModRef, _LoggerT)):
            return True
        try:
            return bool(v)
        except _SAFE_ERRORS as x:
            raise CannotEval(f"truth: {type(x).__name__}")

    def iterate(self, v):
        if self.unknown(v):
            raise CannotEval("iteration over an unknown value")
        if isinstance(v, (Obj, Fn, ClassRef, ModRef, _LoggerT)) or v is None or isinstance(v, (int, float, bool)):
            raise CannotEval("iteration over a non-iterable model value")
        try:
            return iter(_ordered(v))
        except _SAFE_ERRORS as x:
            raise CannotEval(f"iteration: {type(x).__name__}")

    def py(self, v):
        """a repository function handed to a python builtin (sorted key, filter predicate, ...)."""
        if isinstance(v, Fn):
            return lambda *a, **k: self.invoke(v, list(a), k)
        if isinstance(v, ClassRef):
            return lambda *a, **k: self.construct(v, list(a), k)
        if isinstance(v, _BoundM):
            return lambda *a, **k: self.container_call(v.recv, v.name, list(a), k)
        return v

    # ---- names --------------------------------------------------------------------------------------------------------------------------------------------------------
    def module_env(self, mod) -> Env:
        if mod.relpath not in self._modenv:
            self._modenv[mod.relpath] = Env(mod)
        return self._modenv[mod.relpath]

    def module_name(self, mod, name):
        me = self.module_env(mod)
        if name in me.vars:
            return me.vars[name]
        v = _MISSING
        for st in mod.tree.body:
            if isinstance(st, (ast.FunctionDef, ast.AsyncFunctionDef)) and st.name == name:
                v = Fn(st, mod)
            elif isinstance(st, ast.ClassDef) and st.name == name:
                v = ClassRef(st, mod)
            elif isinstance(st, ast.Assign) and any(isinstance(t, ast.Name) and t.id == name for t in st.targets):
                me.vars[name] = OPAQUE  # cycles
                try:
                    v = self.eval(st.value, me)
                except CannotEval:
                    v = OPAQUE
        if v is _MISSING and name in mod.imports:
            v = ModRef(mod.imports[name])
        if v is not _MISSING:
            me.vars[name] = v
        return v

    def name(self, id_, env):
        e = env.find(id_)
        if e is not None:
            return e.vars[id_]
        v = self.module_name(env.mod, id_)
        if v is not _MISSING:
            return v
        if id_ in _PURE_BUILTINS:
            return _PURE_BUILTINS[id_]
        if id_ in ("isinstance", "print", "getattr", "hasattr", "type", "callable", "id", "hash", "super", "open", "vars", "setattr", "issubclass", "format", "input", "exec", "eval"):
            return self.ext.get(id_, ModRef(id_))
        if id_ in ("Exception", "BaseException", "ValueError", "KeyError", "TypeError", "OSError", "IOError", "RuntimeError", "AssertionError", "NotImplementedError", "StopIteration",
                   "AttributeError", "IndexError", "FileNotFoundError", "NotImplemented", "Ellipsis", "__name__", "__file__"):
            return ModRef("builtins." + id_)
        raise CannotEval(f"unbound name {id_}")

    def resolve(self, ref: ModRef):
        """a dotted external name: a model function of the rule, a function / class of another module of the repository, or itself (unknown to the model)."""
        if ref.name in self.ext:
            return self.ext[ref.name]
        if ref.name.startswith(self.follow):
            parts = ref.name.split(".")
            for i in range(len(parts) - 1, 0, -1):
                rel = "/".join(parts[:i]) + ".py"
                if not self.repo.exists(rel) and self.repo.exists("/".join(parts[:i]) + "/__init__.py"):
                    rel = "/".join(parts[:i]) + "/__init__.py"
                if self.repo.exists(rel):
                    try:
                        mod = self.repo.module(rel)
                    except AnchorMissing:
                        return ref
                    v = self.module_name(mod, parts[i])
                    for attr in parts[i + 1:]:
                        if v is _MISSING:
                            break
                        try:
                            v = self.getattr(v, attr)
                        except CannotEval:
                            v = _MISSING
                    return ref if v is _MISSING or isinstance(v, ModRef) else v
        return ref

    # ---- calls ----------------------------------------------------------------------------------------------------------------------------------------------------------
    def unknown_call(self, args, kwargs, recv=None):
        """a call the model knows nothing about: its result is unknown and it may have changed every mutable object it received."""
        for a in list(args) + list(kwargs.values()) + ([recv] if recv is not None else []):
            self.taint(a)
        self.unknown_calls.append(list(args) + list(kwargs.values()))
        return OPAQUE

    def call_value(self, f, args, kwargs):
        self.tick()
        if isinstance(f, ModRef):
            if f.name.startswith(self.silent) and f.name not in self.ext:
                return None
            r = self.resolve(f)
            if isinstance(r, ModRef):
                if r.name == "isinstance" and len(args) == 2:
                    return self.isinstance_(args[0], args[1])
                if r.name == "print":
                    return None
                if r.name in ("type", "id", "hash", "callable", "hasattr", "getattr", "issubclass", "vars", "format"):
                    return OPAQUE
                return self.unknown_call(args, kwargs)
            f = r
        if isinstance(f, Fn):
            return self.invoke(f, args, kwargs)
        if isinstance(f, ClassRef):
            return self.construct(f, args, kwargs)
        if isinstance(f, _BoundM):
            return self.container_call(f.recv, f.name, args, kwargs)
        if f is _noop:
            return None
        if f is OPAQUE or isinstance(f, (Obj, _LoggerT)) or not callable(f):
            return self.unknown_call(args, kwargs)
        # a python callable: a pure builtin, a model function of the rule, a public method of a model object
        raw = getattr(f, "_raw", False)
        if not raw and any(self.unknown(a) for a in list(args) + list(kwargs.values())):
            return OPAQUE
        if f is str and len(args) == 1 and isinstance(args[0], _PPath):
            return str(args[0])
        if any(f is b for b in _PURE_BUILTINS.values()) and any(isinstance(a, (Obj, ClassRef, ModRef, _LoggerT, Native)) for a in list(args) + list(kwargs.values())):
            return OPAQUE
        if not isinstance(getattr(f, "__self__", None), _PPath):
            # the outside world takes path-like objects wherever it takes a path
            args, kwargs = [str(a) if isinstance(a, _PPath) else a for a in args], {k: (str(v) if isinstance(v, _PPath) else v) for k, v in kwargs.items()}
        try:
            return f(*[self.py(_ordered(a)) for a in args], **{k: self.py(v) for k, v in kwargs.items()})
        except _SAFE_ERRORS as x:
            raise CannotEval(f"{getattr(f, '__name__', f)}: {type(x).__name__}: {x}")

    def isinstance_(self, v, t):
        ts = t if isinstance(t, tuple) else (t,)
        if v is OPAQUE:
            return OPAQUE
        out = False
        for c in ts:
            if isinstance(c, ClassRef):
                out = out or (isinstance(v, Obj) and any(k is c.node for k in self.mro(v.cls)))
            elif isinstance(c, type) and c in _TYPES:
                out = out or (not isinstance(v, (Obj, Native, Fn, ClassRef, ModRef, _LoggerT)) and isinstance(v, c))
            else:
                return OPAQUE
        return out

    def container_call(self, r, name, args, kwargs):
        if name.startswith("_"):
            raise CannotEval(f"method {name}")
        vals = list(args) + list(kwargs.values())
        if self.unknown(r):
            return OPAQUE  # content unknown before, content unknown afterwards
        if any(self.unknown(a) for a in vals):
            if name in _STORES_ELEMENT or (name == "setdefault" and not self.unknown(args[0])):
                pass  # the unknown value becomes an element; the container itself stays known
            elif name in _MUTATORS:
                self.taint(r)
                return OPAQUE
            else:
                return OPAQUE
        try:
            m = getattr(r, name)
        except AttributeError:
            raise CannotEval(f"{type(r).__name__}.{name}")
        try:
            return m(*[self.py(_ordered(a)) if name in ("extend", "update", "join", "fromkeys", "union") else self.py(a) for a in args], **{k: self.py(v) for k, v in kwargs.items()})
        except (KeyError, IndexError, ValueError) as x:
            if isinstance(r, (dict, list, tuple, str, set)) and name in ("pop", "remove", "index", "popitem") and all(self.known(a) for a in args):
                raise Raised(None, type(x).__name__)
            raise CannotEval(f"{type(r).__name__}.{name}: {type(x).__name__}: {x}")
        except _SAFE_ERRORS as x:
            raise CannotEval(f"{type(r).__name__}.{name}: {type(x).__name__}: {x}")

    def mro(self, cref: ClassRef, depth=0) -> list:
        out = [cref.node]
        if depth < 6:
            for b in cref.node.bases:
                if isinstance(b, ast.Name):
                    v = self.module_name(cref.mod, b.id)
                    if isinstance(v, ClassRef):
                        out += [k for k in self.mro_refs(v, depth + 1)]
        return out

    def mro_refs(self, cref, depth=0):
        return self.mro(cref, depth)

    def class_member(self, cref: ClassRef, name):
        """(defining ClassRef, statement) of a method / class-level assignment, through base classes of the same module."""
        todo, seen = [cref], 0
        while todo and seen < 12:
            c = todo.pop(0)
            seen += 1
            for st in c.node.body:
                if isinstance(st, (ast.FunctionDef, ast.AsyncFunctionDef)) and st.name == name:
                    return c, st
                if isinstance(st, ast.Assign) and any(isinstance(t, ast.Name) and t.id == name for t in st.targets):
                    return c, st
            for b in c.node.bases:
                if isinstance(b, ast.Name):
                    v = self.module_name(c.mod, b.id)
                    if isinstance(v, ClassRef):
                        todo.append(v)
        return None

    def has_unknown_base(self, cref: ClassRef) -> bool:
        return any(not (isinstance(b, ast.Name) and b.id == "object") and not (isinstance(b, ast.Name) and isinstance(self.module_name(cref.mod, b.id), ClassRef)) for b in cref.node.bases)

    def record_fields(self, cref: ClassRef):
        """[(name, default expression or None)] of a @dataclass / typing.NamedTuple class (the generated constructor takes them in this order), else None."""
        decos = [dotted(d.func if isinstance(d, ast.Call) else d) or "" for d in cref.node.decorator_list]
        bases = [dotted(b) or "" for b in cref.node.bases]
        if not any(d.split(".")[-1] == "dataclass" for d in decos) and not any(b.split(".")[-1] == "NamedTuple" for b in bases):
            return None
        out = []
        for st in cref.node.body:
            if isinstance(st, ast.AnnAssign) and isinstance(st.target, ast.Name) and "ClassVar" not in u(st.annotation):
                out.append((st.target.id, st.value))
            elif isinstance(st, ast.Assign) and len(st.targets) == 1 and isinstance(st.targets[0], ast.Name):  # (N7 turned `x: T = v` into `x = v`)
                out.append((st.targets[0].id, st.value))
        return out

    def construct(self, cref: ClassRef, args, kwargs):
        o = Obj(cref)
        m = self.class_member(cref, "__init__")
        fields = self.record_fields(cref) if m is None else None
        if fields is not None:
            if len(args) > len(fields) or any(k not in [f for f, _ in fields] for k in kwargs):
                raise CannotEval(f"arguments of {cref.node.name}(...)")
            env = Env(cref.mod, cref.env, cref)
            for i, (f, d) in enumerate(fields):
                if i < len(args):
                    o.fields[f] = args[i]
                elif f in kwargs:
                    o.fields[f] = kwargs[f]
                elif d is None:
                    raise CannotEval(f"missing argument {f} of {cref.node.name}(...)")
                elif isinstance(d, ast.Call) and (dotted(d.func) or "").split(".")[-1] == "field":
                    kw = {k.arg: k.value for k in d.keywords}
                    o.fields[f] = self.call_value(self.eval(kw["default_factory"], env), [], {}) if "default_factory" in kw else (self.eval(kw["default"], env) if "default" in kw else OPAQUE)
                else:
                    o.fields[f] = self.eval_or_opaque(d, env)
            post = self.class_member(cref, "__post_init__")
            if post is not None:
                try:
                    self.invoke(Fn(post[1], post[0].mod, post[0].env, o, post[0]), [], {})
                except CannotEval as x:
                    if isinstance(x, _Budget):
                        raise
                    self.taint(o)
            return o
        if m is None:
            if self.has_unknown_base(cref) or args or kwargs:
                self.unknown_call(args, kwargs)
                self.taint(o)
            return o
        try:
            self.invoke(Fn(m[1], m[0].mod, m[0].env, o, m[0]), args, kwargs)
        except CannotEval as x:
            if isinstance(x, _Budget):
                raise
            self.unknown_call(args, kwargs)
            self.taint(o)
        return o

    def invoke(self, fn: Fn, args, kwargs):
        self.tick()
        node = fn.node
        qn = source.qualname(node) if not isinstance(node, ast.Lambda) else None
        if qn in self.over:
            return self.over[qn](*(([fn.self_] if fn.self_ is not None else []) + list(args)), **kwargs)
        if self.depth > 25:
            raise CannotEval("call depth")
        if not isinstance(node, ast.Lambda) and any(isinstance(x, (ast.Yield, ast.YieldFrom, ast.Await)) for x in walk_body(node)):
            raise CannotEval("generator / coroutine")
        decos = [] if isinstance(node, ast.Lambda) else [dotted(d) or "?" for d in node.decorator_list]
        if any(d not in ("property", "staticmethod", "classmethod", "abc.abstractmethod", "abstractmethod", "functools.cached_property", "cached_property") and not d.endswith(".setter") for d in decos):
            raise CannotEval(f"decorated function {qn}")
        a = node.args
        env = Env(fn.mod, fn.env, fn.cls)
        pos = [x.arg for x in a.posonlyargs + a.args]
        vals = list(args)
        if fn.self_ is not None and "staticmethod" not in decos:
            vals = [fn.self_] + vals
        defenv = fn.env if fn.env is not None else self.module_env(fn.mod)
        defaults = dict(zip(pos[len(pos) - len(a.defaults):], a.defaults))
        kw = dict(kwargs)
        for i, p in enumerate(pos):
            if i < len(vals):
                env.vars[p] = vals[i]
            elif p in kw:
                env.vars[p] = kw.pop(p)
            elif p in defaults:
                env.vars[p] = self.eval_or_opaque(defaults[p], defenv)
            else:
                raise CannotEval(f"missing argument {p} of {qn}")
        extra = vals[len(pos):]
        if a.vararg is not None:
            env.vars[a.vararg.arg] = tuple(extra)
        elif extra:
            raise CannotEval(f"too many arguments for {qn}")
        for p, d in zip(a.kwonlyargs, a.kw_defaults):
            if p.arg in kw:
                env.vars[p.arg] = kw.pop(p.arg)
            elif d is not None:
                env.vars[p.arg] = self.eval_or_opaque(d, defenv)
            else:
                raise CannotEval(f"missing keyword argument {p.arg} of {qn}")
        if a.kwarg is not None:
            env.vars[a.kwarg.arg] = kw
        elif kw:
            raise CannotEval(f"unexpected keyword argument(s) {sorted(kw)} for {qn}")
        self.depth += 1
        try:
            if isinstance(node, ast.Lambda):
                return self.eval(node.body, env)
            try:
                self.exec_block(node.body, env)
            except _Return as r:
                return r.value
            return None
        finally:
            self.depth -= 1

    def eval_or_opaque(self, e, env):
        try:
            return self.eval(e, env)
        except CannotEval as x:
            if isinstance(x, _Budget):
                raise
            return OPAQUE

    # ---- attributes ---------------------------------------------------------------------------------------------------------------------------------------------------
    def getattr(self, v, attr):
        if v is OPAQUE:
            return OPAQUE
        if v is LOGGER:
            return _noop
        if isinstance(v, ModRef):
            r = ModRef(v.name + "." + attr)
            return self.ext[r.name] if r.name in self.ext and not callable(self.ext[r.name]) else r
        if isinstance(v, Obj):
            if id(v) in self.tainted:
                return OPAQUE
            if attr in v.fields:
                return v.fields[attr]
            m = self.class_member(v.cls, attr)
            if m is None:
                if self.has_unknown_base(v.cls):
                    return OPAQUE
                raise CannotEval(f"attribute {attr} of {v.cls.node.name}")
            c, st = m
            if isinstance(st, ast.Assign):
                return self.eval(st.value, Env(c.mod, c.env, c))
            f = Fn(st, c.mod, c.env, v, c)
            decos = [dotted(d) or "?" for d in st.decorator_list]
            if any(d in ("property", "functools.cached_property", "cached_property") for d in decos):
                return self.invoke(f, [], {})
            if "staticmethod" in decos:
                f.self_ = None
            return f
        if isinstance(v, ClassRef):
            m = self.class_member(v, attr)
            if m is None:
                raise CannotEval(f"attribute {attr} of class {v.node.name}")
            c, st = m
            return self.eval(st.value, Env(c.mod, c.env, c)) if isinstance(st, ast.Assign) else Fn(st, c.mod, c.env, None, c)
        if attr.startswith("_"):
            raise CannotEval(f"attribute {attr}")
        if isinstance(v, Native):
            try:
                return getattr(v, attr)
            except AttributeError:
                raise CannotEval(f"attribute {attr} of {type(v).__name__}")
        if isinstance(v, (list, dict, set, frozenset, tuple, str, bytes, collections.ChainMap)) or (isinstance(v, type) and v in (dict, str, list, set, frozenset, tuple)):
            if not hasattr(v, attr):
                raise CannotEval(f"attribute {attr} of {type(v).__name__}")
            return _BoundM(v, attr)
        if isinstance(v, Fn) or v is None or isinstance(v, (int, float)):
            raise CannotEval(f"attribute {attr} of {type(v).__name__}")
        return OPAQUE  # iterators, views and other python objects: nothing the model relies on

    # ---- expressions --------------------------------------------------------------------------------------------------------------------------------------------------
    def eval(self, e, env):
        self.tick()
        m = getattr(self, "e_" + type(e).__name__, None)
        if m is None:
            raise CannotEval(f"{type(e).__name__}: {short(e, 50)}")
        return m(e, env)

    def e_Constant(self, e, env):
        return e.value

    def e_Name(self, e, env):
        return self.name(e.id, env)

    def e_Attribute(self, e, env):
        return self.getattr(self.eval(e.value, env), e.attr)

    def e_Slice(self, e, env):
        parts = [self.eval(x, env) if x is not None else None for x in (e.lower, e.upper, e.step)]
        return OPAQUE if any(self.unknown(p) for p in parts) else slice(*parts)

    def e_Subscript(self, e, env):
        v, k = self.eval(e.value, env), self.eval(e.slice, env)
        if self.unknown(v) or self.unknown(k):
            return OPAQUE
        if isinstance(v, (Obj, Fn, ClassRef, ModRef, _LoggerT)) or isinstance(v, type):
            return OPAQUE if isinstance(v, (ModRef, type)) else self._fail(f"subscript of {type(v).__name__}")
        try:
            return v[k]
        except ModelError as x:
            raise Raised(e, x.exc)
        except (KeyError, IndexError) as x:
            if isinstance(v, (dict, list, tuple, str, Native)) and self.known(k):
                raise Raised(e, type(x).__name__)
            raise CannotEval(f"{short(e, 40)}: {type(x).__name__}")
        except _SAFE_ERRORS as x:
            raise CannotEval(f"{short(e, 40)}: {type(x).__name__}")

    def _fail(self, msg):
        raise CannotEval(msg)

    def e_Compare(self, e, env):
        left = self.eval(e.left, env)
        for op, c in zip(e.ops, e.comparators):
            right = self.eval(c, env)
            if isinstance(op, (ast.Is, ast.IsNot)):
                if left is OPAQUE or right is OPAQUE:
                    return OPAQUE
                r = (left is right) if isinstance(op, ast.Is) else (left is not right)
            elif self.unknown(left) or self.unknown(right):
                return OPAQUE
            elif isinstance(op, (ast.In, ast.NotIn)):
                if isinstance(right, (Obj, Fn, ClassRef, ModRef, _LoggerT)) or right is None:
                    raise CannotEval(f"membership in {type(right).__name__}")
                try:
                    r = (left in right) if isinstance(op, ast.In) else (left not in right)
                except _SAFE_ERRORS as x:
                    raise CannotEval(f"{short(e, 40)}: {type(x).__name__}")
            else:
                if isinstance(left, (Obj, Native)) or isinstance(right, (Obj, Native)):
                    if not isinstance(op, (ast.Eq, ast.NotEq)):
                        raise CannotEval("ordering of objects")
                    r = (left is right) if isinstance(op, ast.Eq) else (left is not right)
                else:
                    try:
                        r = _CMPOPS[type(op)](left, right)
                    except _SAFE_ERRORS as x:
                        raise CannotEval(f"{short(e, 40)}: {type(x).__name__}")
            if not r:
                return False
            left = right
        return True

    def e_BoolOp(self, e, env):
        r = None
        for x in e.values:
            r = self.eval(x, env)
            if self.unknown(r):
                return OPAQUE
            t = self.truth(r)
            if (isinstance(e.op, ast.And) and not t) or (isinstance(e.op, ast.Or) and t):
                return r
        return r

    def e_UnaryOp(self, e, env):
        v = self.eval(e.operand, env)
        if self.unknown(v):
            return OPAQUE
        if isinstance(e.op, ast.Not):
            return not self.truth(v)
        try:
            return {ast.USub: operator.neg, ast.UAdd: operator.pos, ast.Invert: operator.invert}[type(e.op)](v)
        except _SAFE_ERRORS as x:
            raise CannotEval(f"{short(e, 40)}: {type(x).__name__}")

    def e_BinOp(self, e, env):
        a, b = self.eval(e.left, env), self.eval(e.right, env)
        if self.unknown(a) or self.unknown(b):
            return OPAQUE
        if isinstance(e.op, ast.Div) and (isinstance(a, _PPath) or isinstance(b, _PPath)) and all(isinstance(x, (str, _PPath)) for x in (a, b)):
            return a / b
        if any(isinstance(x, (Obj, Fn, ClassRef, ModRef, _LoggerT, Native)) for x in (a, b)) or type(e.op) not in _BINOPS:
            return OPAQUE
        if isinstance(e.op, ast.Mod) and isinstance(a, str) and not self.known(b):
            return OPAQUE
        try:
            return _BINOPS[type(e.op)](a, b)
        except _SAFE_ERRORS as x:
            raise CannotEval(f"{short(e, 40)}: {type(x).__name__}")

    def e_IfExp(self, e, env):
        t = self.eval(e.test, env)
        if self.unknown(t):
            return OPAQUE
        return self.eval(e.body if self.truth(t) else e.orelse, env)

    def _elts(self, elts, env):
        out = []
        for x in elts:
            if isinstance(x, ast.Starred):
                out.extend(self.iterate(self.eval(x.value, env)))
            else:
                out.append(self.eval(x, env))
        return out

    def e_List(self, e, env):
        return self._elts(e.elts, env)

    def e_Tuple(self, e, env):
        return tuple(self._elts(e.elts, env))

    def e_Set(self, e, env):
        try:
            return set(self._elts(e.elts, env))
        except TypeError:
            raise CannotEval("unhashable set element")

    def e_Dict(self, e, env):
        out, bad = {}, False
        for k, v in zip(e.keys, e.values):
            if k is None:
                src = self.eval(v, env)
                if self.unknown(src) or not isinstance(src, (dict, collections.ChainMap)):
                    bad = True
                else:
                    out.update(src)
            else:
                kv = self.eval(k, env)
                if self.unknown(kv):
                    bad = True
                else:
                    try:
                        out[kv] = self.eval(v, env)
                    except TypeError:
                        raise CannotEval("unhashable key")
        if bad:
            self.taint(out)
        return out

    def e_JoinedStr(self, e, env):
        out = []
        for v in e.values:
            if isinstance(v, ast.Constant):
                out.append(str(v.value))
            else:
                val = self.eval(v.value, env)
                spec = self.eval(v.format_spec, env) if v.format_spec is not None else ""
                if not self.known(val) or self.unknown(spec) or isinstance(val, (Obj, Fn, ClassRef, ModRef, _LoggerT, Native)):
                    return OPAQUE
                val = repr(val) if v.conversion == 114 else (str(val) if v.conversion == 115 else (ascii(val) if v.conversion == 97 else val))
                try:
                    out.append(format(val, spec))
                except _SAFE_ERRORS as x:
                    raise CannotEval(f"format: {type(x).__name__}")
        return "".join(out)

    def e_FormattedValue(self, e, env):
        return self.e_JoinedStr(ast.JoinedStr(values=[e]), env)

    def e_Lambda(self, e, env):
        return Fn(e, env.mod, env, None, env.cls)

    def e_NamedExpr(self, e, env):
        v = self.eval(e.value, env)
        env.vars[e.target.id] = v
        return v

    def e_Starred(self, e, env):
        raise CannotEval("starred expression")

    def _comp(self, gens, env, emit):
        """lazy evaluation of comprehension clauses (a generator expression consumed by list.extend sees the list grow, as in Python)."""
        def rec(i, env_):
            if i == len(gens):
                yield emit(env_)
                return
            g = gens[i]
            if g.is_async:
                raise CannotEval("async comprehension")
            for v in self.iterate(self.eval(g.iter, env_)):
                self.tick()
                e2 = Env(env_.mod, env_, env_.cls)
                self.assign(g.target, v, e2)
                ok = True
                for c in g.ifs:
                    if not self.truth(self.eval(c, e2)):
                        ok = False
                        break
                if ok:
                    yield from rec(i + 1, e2)
        return rec(0, Env(env.mod, env, env.cls))

    def _eager(self, e, env, build):
        try:
            return build()
        except CannotEval as x:
            if isinstance(x, _Budget):
                raise
            return OPAQUE  # a comprehension has no effect of its own: an undecidable one is simply an unknown value

    def e_ListComp(self, e, env):
        return self._eager(e, env, lambda: list(self._comp(e.generators, env, lambda en: self.eval(e.elt, en))))

    def e_SetComp(self, e, env):
        return self._eager(e, env, lambda: set(self._comp(e.generators, env, lambda en: self.eval(e.elt, en))))

    def e_DictComp(self, e, env):
        return self._eager(e, env, lambda: dict(self._comp(e.generators, env, lambda en: (self.eval(e.key, en), self.eval(e.value, en)))))

    def e_GeneratorExp(self, e, env):
        return self._comp(e.generators, env, lambda en: self.eval(e.elt, en))

    def e_Call(self, e, env):
        f = self.eval(e.func, env)
        args = []
        for a in e.args:
            if isinstance(a, ast.Starred):
                args.extend(self.iterate(self.eval(a.value, env)))
            else:
                args.append(self.eval(a, env))
        kwargs = {}
        for k in e.keywords:
            v = self.eval(k.value, env)
            if k.arg is None:
                if self.unknown(v) or not isinstance(v, dict):
                    raise CannotEval("** of an unknown value")
                kwargs.update(v)
            else:
                kwargs[k.arg] = v
        if f is OPAQUE and isinstance(e.func, ast.Attribute):
            return OPAQUE if is_logging_call(e) else self.unknown_call(args, kwargs)
        try:
            return self.call_value(f, args, kwargs)
        except ModelError as x:
            raise Raised(e, x.exc)
        except Raised as r:
            if r.node is None:
                r.node = e
            raise

    # ---- statements -----------------------------------------------------------------------------------------------------------------------------------------------------
    def assign(self, t, v, env):
        if isinstance(t, ast.Name):
            env.vars[t.id] = v
        elif isinstance(t, (ast.Tuple, ast.List)):
            if self.unknown(v):
                for x in t.elts:
                    self.assign(x.value if isinstance(x, ast.Starred) else x, OPAQUE, env)
                return
            vals = list(self.iterate(v))
            star = [i for i, x in enumerate(t.elts) if isinstance(x, ast.Starred)]
            if star:
                i, rest = star[0], len(t.elts) - star[0] - 1
                if len(vals) < len(t.elts) - 1:
                    raise CannotEval("unpacking")
                vals = vals[:i] + [vals[i:len(vals) - rest]] + vals[len(vals) - rest:]
            if len(vals) != len(t.elts):
                raise CannotEval("unpacking")
            for x, val in zip(t.elts, vals):
                self.assign(x.value if isinstance(x, ast.Starred) else x, val, env)
        elif isinstance(t, ast.Attribute):
            o = self.eval(t.value, env)
            if isinstance(o, Obj):
                o.fields[t.attr] = v
            elif isinstance(o, Native) and not t.attr.startswith("_"):
                setattr(o, t.attr, v)
            elif o is OPAQUE:
                pass
            else:
                raise CannotEval(f"attribute store on {type(o).__name__}")
        elif isinstance(t, ast.Subscript):
            o, k = self.eval(t.value, env), self.eval(t.slice, env)
            if self.unknown(o):
                return
            if self.unknown(k):
                self.taint(o)
                return
            if not isinstance(o, (list, dict, collections.ChainMap)):
                raise CannotEval(f"item store on {type(o).__name__}")
            try:
                o[k] = v
            except _SAFE_ERRORS as x:
                raise CannotEval(f"item store: {type(x).__name__}")
        else:
            raise CannotEval(f"assignment target {type(t).__name__}")

    def exec_block(self, stmts, env):
        for s in stmts:
            self.exec_stmt(s, env)

    def exec_stmt(self, s, env):
        self.tick()
        try:
            m = getattr(self, "s_" + type(s).__name__, None)
            if m is None:
                raise CannotEval(f"statement {type(s).__name__}")
            try:
                m(s, env)
            except RuntimeError as x:  # (a container changed while it is iterated, too deep a recursion of the interpreted code)
                raise CannotEval(f"{type(x).__name__}: {x}")
        except CannotEval as x:
            if isinstance(x, _Budget) or not self.can_havoc(s):
                raise
            self.havoc(s, env)
            self.notes.append((s, str(x)))

    def can_havoc(self, s) -> bool:
        """the statement can be replaced by 'anything it writes is unknown now': it contains no jump out of itself whose being taken would be unknown as well
        (a `raise` is different: the analysed question is always about runs that complete, so an undecidable raise is assumed not to happen)."""
        if isinstance(s, (ast.Global, ast.Nonlocal)):
            return False
        for n in source.walk_local(s):
            if isinstance(n, (ast.Return, ast.Yield, ast.YieldFrom, ast.Await)):
                return False
            if isinstance(n, (ast.Break, ast.Continue)):
                loop = source.enclosing(n, (ast.For, ast.AsyncFor, ast.While))
                if loop is None or not (loop is s or any(a is s for a in source.ancestors(loop))):
                    return False
        return True

    _RO_METHODS = {"get", "items", "keys", "values", "copy", "index", "count", "split", "rsplit", "join", "startswith", "endswith", "strip", "lstrip", "rstrip", "lower", "upper", "format",
                   "replace", "union", "intersection", "difference", "issubset", "issuperset", "isdisjoint", "splitlines", "partition", "rpartition", "encode", "decode", "title", "find"}

    def _readonly(self, top, env) -> bool:
        """the occurrence `top` (a name / attribute / subscript chain) only reads the object it denotes."""
        p = source.parent(top)
        c = top
        while isinstance(p, (ast.Starred, ast.keyword)):
            c, p = p, source.parent(p)
        if isinstance(p, (ast.Compare, ast.BoolOp, ast.UnaryOp, ast.FormattedValue, ast.JoinedStr, ast.BinOp)):
            return True
        if isinstance(p, (ast.For, ast.AsyncFor, ast.comprehension)):
            return c is p.iter
        if isinstance(p, (ast.If, ast.While, ast.IfExp, ast.Assert)):
            return c is p.test
        if isinstance(p, ast.Subscript):
            return c is p.slice
        if isinstance(p, ast.Call):
            if c is p.func:
                return True  # calling the object itself (a function value)
            if is_logging_call(p):
                return True
            if isinstance(p.func, ast.Name) and p.func.id in _PURE_BUILTINS or (isinstance(p.func, ast.Name) and p.func.id in ("isinstance", "print", "hasattr")):
                return env.find(p.func.id) is None
            d = dotted(p.func)
            if d is not None and env.find(d.split(".")[0]) is None:
                root = self.module_name(env.mod, d.split(".")[0])
                if isinstance(root, ModRef):
                    full = root.name + d[len(d.split(".")[0]):]
                    return full.startswith(self.silent) or full in _PURE_EXTERNALS
            return False
        return False

    def havoc(self, s, env):
        for n in source.walk_local(s):
            if isinstance(n, ast.Name) and isinstance(n.ctx, (ast.Store, ast.Del)):
                env.vars[n.id] = OPAQUE
            elif isinstance(n, (ast.Attribute, ast.Subscript)) and isinstance(n.ctx, (ast.Store, ast.Del)):
                o = self.eval_or_opaque(n.value, env)
                if isinstance(n, ast.Attribute) and isinstance(o, Obj) and isinstance(n.ctx, ast.Store):
                    o.fields[n.attr] = OPAQUE
                else:
                    self.taint(o)
            elif isinstance(n, ast.Name) and isinstance(n.ctx, ast.Load) and env.find(n.id) is not None:
                # the longest attribute / subscript chain that starts at this name
                top = n
                while isinstance(source.parent(top), (ast.Attribute, ast.Subscript)) and source.parent(top).value is top and isinstance(source.parent(top).ctx, ast.Load):
                    top = source.parent(top)
                p = source.parent(top)
                recv_of_call = isinstance(top, ast.Attribute) and isinstance(p, ast.Call) and p.func is top
                if recv_of_call:
                    o = self.eval_or_opaque(top.value, env)
                    if o is LOGGER or is_logging_call(p) or (not isinstance(o, (Obj, Native)) and top.attr in self._RO_METHODS):
                        continue
                    self.taint(o)
                elif not self._readonly(top, env):
                    o = self.eval_or_opaque(top, env)
                    if o is OPAQUE:
                        o = self.eval_or_opaque(n, env)
                    self.taint(o)

    def s_Assign(self, s, env):
        v = self.eval(s.value, env)
        for t in s.targets:
            self.assign(t, v, env)

    def s_AnnAssign(self, s, env):
        if s.value is not None:
            self.assign(s.target, self.eval(s.value, env), env)

    def s_AugAssign(self, s, env):
        cur, v = self.eval(s.target, env), self.eval(s.value, env)
        if cur is OPAQUE:
            res = OPAQUE
        elif id(cur) in self.tainted:
            res = cur
        elif self.unknown(v):
            if isinstance(cur, _MUTABLE):
                self.taint(cur)
                res = cur
            else:
                res = OPAQUE
        elif isinstance(cur, (Obj, Native, Fn, ClassRef, ModRef)) or type(s.op) not in _IOPS:
            raise CannotEval("augmented assignment")
        else:
            try:
                res = _IOPS[type(s.op)](cur, _ordered(v) if isinstance(cur, list) else v)
            except _SAFE_ERRORS as x:
                raise CannotEval(f"{short(s, 40)}: {type(x).__name__}")
        self.assign(s.target, res, env)

    def s_Expr(self, s, env):
        self.eval(s.value, env)

    def s_Pass(self, s, env):
        pass

    def s_Import(self, s, env):
        for a in s.names:
            env.vars[(a.asname or a.name).split(".")[0]] = ModRef(a.name if a.asname else a.name.split(".")[0])

    def s_ImportFrom(self, s, env):
        for a in s.names:
            env.vars[a.asname or a.name] = ModRef(f"{s.module}.{a.name}")

    def s_If(self, s, env):
        t = self.eval(s.test, env)
        arm = getattr(s, "_synthetic_arm", None)
        if self.unknown(t) and arm:
            # a guard clause (N8 moved the rest of the block into the synthetic arm) whose test is undecidable: if all it does is raise, the run that completes is the one
            # that continues - the question asked of a simulation is always about runs that complete
            explicit = s.orelse if arm == "body" else s.body
            if explicit and isinstance(explicit[-1], ast.Raise) and all(self.can_havoc(x) for x in explicit):
                for x in explicit:
                    self.havoc(x, env)
                self.assumed.append(s)
                self.exec_block(getattr(s, arm), env)
                return
        self.exec_block(s.body if self.truth(t) else s.orelse, env)

    def s_For(self, s, env):
        broke = False
        for v in self.iterate(self.eval(s.iter, env)):
            self.tick()
            self.assign(s.target, v, env)
            try:
                self.exec_block(s.body, env)
            except _Break:
                broke = True
                break
            except _Continue:
                continue
        if not broke:
            self.exec_block(s.orelse, env)

    def s_While(self, s, env):
        broke = False
        while self.truth(self.eval(s.test, env)):
            self.tick(5)
            try:
                self.exec_block(s.body, env)
            except _Break:
                broke = True
                break
            except _Continue:
                continue
        if not broke:
            self.exec_block(s.orelse, env)

    def s_Return(self, s, env):
        raise _Return(self.eval(s.value, env) if s.value is not None else None)

    def s_Raise(self, s, env):
        if s.exc is None:
            if self.handling:
                raise self.handling[-1]  # bare `raise` in a handler
            raise Raised(s)
        target = s.exc.func if isinstance(s.exc, ast.Call) else s.exc
        if isinstance(target, ast.Name) and self.handling and env.find(target.id) is not None and env.find(target.id).vars[target.id] is self.handling[-1]:
            raise self.handling[-1]  # `raise e` of the caught exception
        raise Raised(s, (dotted(target) or "?").split(".")[-1] if dotted(target) else None)

    def s_Break(self, s, env):
        raise _Break()

    def s_Continue(self, s, env):
        raise _Continue()

    def s_Assert(self, s, env):
        t = self.eval_or_opaque(s.test, env)
        if not self.unknown(t) and not self.truth(t):
            raise Raised(s, "AssertionError")

    def s_FunctionDef(self, s, env):
        env.vars[s.name] = Fn(s, env.mod, env, None, env.cls)

    s_AsyncFunctionDef = s_FunctionDef

    def s_ClassDef(self, s, env):
        env.vars[s.name] = ClassRef(s, env.mod, env)

    def s_With(self, s, env):
        suppress = []
        for it in s.items:
            v = self.eval(it.context_expr, env)
            if isinstance(v, _Suppress):
                suppress.append(v)
            if it.optional_vars is not None:
                self.assign(it.optional_vars, v, env)
        try:
            self.exec_block(s.body, env)
        except Raised as r:
            for sp in suppress:
                if any(n is None for n in sp.names):
                    raise CannotEval("contextlib.suppress of an unknown class")
                c = _handler_catches(ast.ExceptHandler(type=ast.Tuple(elts=[ast.Name(id=n, ctx=ast.Load()) for n in sp.names], ctx=ast.Load()), name=None, body=[]), r.exc)
                if c is None:
                    raise CannotEval(f"whether contextlib.suppress({', '.join(sp.names)}) swallows {r.exc} is not known")
                if c:
                    return
            raise

    def s_Try(self, s, env):
        """exceptions are followed when they are raised by the interpreted code itself (raise / assert), by a failing model function of the outside world (ModelError) or by a
        KeyError / IndexError / ValueError of a builtin container operation on known values."""
        try:
            try:
                self.exec_block(s.body, env)
            except Raised as r:
                for h in s.handlers:
                    c = _handler_catches(h, r.exc)
                    if c is None:
                        raise CannotEval(f"whether `except {u(h.type)}` catches {r.exc or 'the raised exception'} is not known")
                    if c:
                        if h.name:
                            env.vars[h.name] = r
                        self.handling.append(r)
                        try:
                            self.exec_block(h.body, env)
                        finally:
                            self.handling.pop()
                        break
                else:
                    raise
            else:
                self.exec_block(s.orelse, env)
        except CannotEval:
            raise
        except BaseException:
            self.exec_block(s.finalbody, env)
            raise
        self.exec_block(s.finalbody, env)


def _noop(*a, **k):
    return None


# ---- the model world of the car loader -------------------------------------------------------------------------------------------------------------------------------------
# three cars (two with config bases, one mixin without any), four config bases (one of them without a config.ini), car parameters. Every key is defined by a chosen set of
# sources so that each clause of the documented precedence decides the value of at least one key; every source also has a key of its own (only_<source>).
# The e_* keys are defined TWICE each: with a value by an earlier / lower-precedence source and with the EMPTY STRING (`key =` in the ini file, `key:` as a car parameter: the
# documented way to clear a default) by the source the documented precedence lets win - an empty definition is a definition like any other.
_CARS = {
    "c2": {"meta": {"description": "car two", "type": "car"}, "config": {"base": "b2,b3,b2"},
           "variables": {"k_all": "c2", "k_car": "c2", "k_mixin": "c2", "k_cb": "c2", "k_c2": "c2", "only_c2": "c2", "e_car": "c2", "e_p": "c2"}},
    "c1": {"meta": {"description": "car one", "type": "car"}, "config": {"base": "b1,,b4,b2"},
           "variables": {"k_all": "c1", "k_car": "c1", "only_c1": "c1", "e_car": "", "e_cb": "", "e_mixin": "c1"}},
    "mx": {"meta": {"description": "a mixin", "type": "mixin"}, "variables": {"k_all": "mx", "k_mixin": "mx", "k_mx": "mx", "only_mx": "mx", "e_mixin": ""}},
}
_BASES = {
    "b1": {"variables": {"k_all": "b1", "k_base": "b1", "k_in": "b1", "k_cb": "b1", "only_b1": "b1", "e_cb": "b1", "e_in": "b1"}},
    "b2": None,  # a config base without a config.ini
    "b3": {"variables": {"k_all": "b3", "k_base": "b3", "k_bp": "b3", "only_b3": "b3", "e_base": "b3"}},
    "b4": {"variables": {"k_in": "b4", "only_b4": "b4", "e_in": "", "e_base": ""}},
}
_NAMES = ["c2", "c1", "mx"]  # neither sorted nor reverse-sorted: any re-ordering of the names changes the result
_PARAMS = {"k_all": "P", "k_c2": "P", "k_mx": "P", "k_bp": "P", "only_p": "P", "e_p": ""}
# what the documented precedence demands for the keys that the winning source defines with the empty string (with / without the car parameters)
_EMPTY = {"e_car": "", "e_mixin": "", "e_cb": "", "e_base": "", "e_in": "", "e_p": ""}
_EMPTY_NO_PARAMS = dict(_EMPTY, e_p="c2")
_MODEL = "model team repository (cars c2, c1 and mixin mx composed in that order; config bases b2,b3,b2 / b1,,b4,b2 / none; car parameters P)"


def _model_file(path):
    """sections of the ini file at `path` in the model team repository (None: no such file): <car>.ini, <base>/config.ini - decided on the last path components only."""
    if not isinstance(path, str):
        raise CannotEval("path")
    base, parent = posixpath.basename(path), posixpath.basename(posixpath.dirname(path))
    if base == "config.ini":
        return _BASES.get(parent)
    if base.endswith(".ini"):
        return _CARS.get(base[:-4])
    return None


def _model_exists(path):
    if not isinstance(path, str):
        raise CannotEval("path")
    return _model_file(path) is not None if path.endswith(".ini") else True


class _Cfg(Native):
    """configparser.ConfigParser over the model files."""

    def __init__(self, *a, **k):
        self._data = {}

    def read(self, filenames, encoding=None):
        ok = []
        for p in ([filenames] if isinstance(filenames, str) else list(filenames)):
            secs = _model_file(p)
            if secs is not None:
                ok.append(p)
                for s_, kv in secs.items():
                    self._data.setdefault(s_, {}).update(kv)
        return ok

    def sections(self):
        return list(self._data)

    def has_section(self, s_):
        return s_ in self._data

    def has_option(self, s_, o):
        return o in self._data.get(s_, {})

    def options(self, s_):
        return list(self._data[s_])

    def items(self, section=None):
        return list(self._data[section].items()) if section is not None else [(s_, dict(kv)) for s_, kv in self._data.items()]

    def get(self, s_, o, **kw):
        if s_ in self._data and o in self._data[s_]:
            return self._data[s_][o]
        if "fallback" in kw:
            return kw["fallback"]
        raise KeyError(o)

    def __contains__(self, s_):
        return s_ in self._data

    def __getitem__(self, s_):
        return dict(self._data[s_])


_TEAM_WORLD = {"os.path.exists": _model_exists, "os.path.isfile": _model_exists, "os.path.isdir": _model_exists, "configparser.ConfigParser": _Cfg, "configparser.RawConfigParser": _Cfg}


def _bases_of(paths):
    """the config-base names a list of paths walks through, in order (every path must lie in exactly one base of the model), else None."""
    out = []
    for p in paths:
        hit = [c for c in p.split("/") if c in _BASES] if isinstance(p, str) else []
        if len(hit) != 1:
            return None
        out.append(hit[0])
    return out


def _dedupe(seq):
    out = []
    for x in seq:
        if x not in out:
            out.append(x)
    return out


def _why(sim, limit=2):
    """the statements the simulation could not interpret (reported with a 'not recognised' verdict)."""
    notes = "; ".join(f"line {getattr(s_, 'lineno', '?')}: `{short(s_, 50)}` ({r})" for s_, r in sim.notes[-limit:])
    calls = f"{len(sim.unknown_calls)} call(s) into code the model knows nothing about" if sim.unknown_calls else ""
    return "; ".join(x for x in (notes, calls) if x) or "no statement was skipped"


def team_rules(chk, repo, tm):
    """O13.1 (loader part) and O13.2, decided on VALUES: team.load_car and CarLoader.load_car are interpreted over the model team repository above; what they return is compared with
    what the documented precedence / ordering demands. Helpers, comprehensions, other accumulator idioms, renamed locals / attributes / parameters all compute the same values."""
    lc = tm.func("load_car")
    if len(params_of(lc)) < 3:
        raise AnchorMissing("team.load_car(repo, name, car_params)")
    CL = tm.cls("CarLoader")
    cl = tm.methods(CL).get("load_car")
    if cl is None or len(params_of(cl)) < 3:
        raise AnchorMissing("CarLoader.load_car(self, name, car_params)")
    ret = [n for n in walk_body(lc) if isinstance(n, ast.Return) and n.value is not None]
    at_ret = ret[-1] if ret else lc
    cret = [n for n in walk_body(cl) if isinstance(n, ast.Return) and n.value is not None]
    at_cret = cret[-1] if cret else cl
    loops = [n for n in ast.walk(lc) if isinstance(n, (ast.For, ast.comprehension)) and any(isinstance(x, ast.Name) and x.id == params_of(lc)[1] for x in ast.walk(n.iter))]
    at_loop = (loops[0] if isinstance(loops[0], ast.For) else source.enclosing_stmt(loops[0].iter)) if loops else lc

    class Composed:
        """team.load_car(<repo>, names, params) over the model: .raised (the raise statement) or .vars / .paths (the variables / config paths of the returned car; None = unknown)."""

        def __init__(self, names, params):
            self.sim = Sim(repo, externals=_TEAM_WORLD)
            self.raised = self.vars = self.paths = None
            try:
                car = self.sim.invoke(Fn(lc, tm), ["/T", list(names), None if params is None else dict(params)], {})
            except Raised as r:
                self.raised = r.node if r.node is not None else lc
                return
            if not isinstance(car, Obj) or self.sim.unknown(car):
                raise AnchorMissing(f"team.load_car: the composed car could not be evaluated ({_why(self.sim)})")
            # the two attributes the provisioner reads (car.variables, car.config_paths); failing that, by content: the only dict / the only list of paths below config bases
            dicts = [v for v in car.fields.values() if isinstance(v, dict)]
            lists = [v for v in car.fields.values() if isinstance(v, (list, tuple)) and self.sim.known(v) and v and _bases_of(v) is not None]
            v = car.fields["variables"] if "variables" in car.fields else (dicts[0] if len(dicts) == 1 else None)
            p = car.fields["config_paths"] if "config_paths" in car.fields else (lists[0] if len(lists) == 1 else None)
            self.vars = v if isinstance(v, dict) and self.sim.known(v) else None
            self.paths = p if isinstance(p, (list, tuple)) and self.sim.known(p) else None

    class Described:
        """the descriptor object CarLoader(<repo>).load_car(name, params) returns for a car of the model."""

        def __init__(self, name, params):
            self.sim = Sim(repo, externals=_TEAM_WORLD)
            try:
                loader = self.sim.construct(ClassRef(CL, tm), ["/T"], {})
                d = self.sim.call_value(self.sim.getattr(loader, cl.name), [name, None if params is None else dict(params)], {})
            except Raised as r:
                raise AnchorMissing(f"CarLoader.load_car raises at line {getattr(r.node, 'lineno', '?')} for car `{name}` of the model")
            if not isinstance(d, Obj) or self.sim.unknown(d):
                raise AnchorMissing(f"CarLoader.load_car: the descriptor could not be evaluated ({_why(self.sim)})")
            self.fields = d.fields
            self.unknown = [a for a, v in d.fields.items() if not self.sim.known(v)]

        def holding(self, key):
            """the dict-valued field that defines `key` (role by content, not by attribute name); None if there is none."""
            hit = [v for v in self.fields.values() if isinstance(v, dict) and self.sim.known(v) and key in v]
            return hit[0] if len(hit) == 1 else None

        def base_lists(self):
            return [(a, _bases_of(v)) for a, v in self.fields.items() if isinstance(v, (list, tuple)) and self.sim.known(v) and v and _bases_of(v) is not None]

    # ---- team.load_car: composition of several cars --------------------------------------------------------------------------------------------------------------------
    C = Composed(_NAMES, _PARAMS)
    try:
        C0 = Composed(_NAMES, None)
    except AnchorMissing:
        C0 = None

    def on_vars(text, keys, node, c=None, extra=""):
        """one obligation on the composed variables: every listed key has the value the documented precedence demands."""
        c = c or C
        if c.raised is not None:
            chk.unknown("O13.1", f"{text}: {_MODEL}: composing the cars raises instead of returning a car; the model does not satisfy a check the loader makes", c.raised)
        elif c.vars is None:
            chk.unknown("O13.1", f"{text}: the variables handed to the car could not be evaluated ({_why(c.sim)})", node)
        else:
            bad = {k: c.vars.get(k) for k, want in keys.items() if not (k in c.vars and c.vars[k] == want)}
            chk.ob("O13.1", text, not bad, node, "" if not bad else f"{_MODEL}{extra}: " + "; ".join(f"`{k}` is {got!r}, the documented precedence demands {keys[k]!r}" for k, got in sorted(bad.items())))

    on_vars("cars are processed in the order given (plain loop over the names)", {"k_car": "c1", "k_mixin": "mx"}, at_loop)
    on_vars("config-base variables of every car are accumulated unconditionally", {"only_b1": "b1", "only_b3": "b3", "only_b4": "b4"}, at_loop)
    on_vars("car variables of every car are accumulated unconditionally", {"only_c1": "c1", "only_c2": "c2", "only_mx": "mx"}, at_loop)
    on_vars("loader: config-base variables merged before car variables", {"k_cb": "c2", "k_base": "b1", "k_in": "b4"}, at_ret)
    if C.raised is None and C.vars is not None and all(k in C.vars and C.vars[k] == v for k, v in _PARAMS.items()) and C0 is not None and C0.raised is None and C0.vars is not None:
        # with the parameters everything is fine: the same composition without parameters is the same minus the parameters
        on_vars("car parameters handed to every car/mixin descriptor", {"k_all": "mx", "k_c2": "c2", "k_mx": "mx", "k_bp": "b3"}, at_loop, C0, " without car parameters")
    else:
        on_vars("car parameters handed to every car/mixin descriptor", dict(_PARAMS), at_loop)
    # "for every team directory ... with ARBITRARY variable sets": the precedence is a statement about DEFINITIONS, not about values. `key =` (the empty string) is a legal definition
    # and the way to clear a default of an earlier car / a config base: the later car's / the car's / the later base's / the parameter's empty value is the composed value - a
    # reader, a merge or a copy that skips "blank" values lets the earlier, lower-precedence value survive into the rendered configuration.
    text = "a variable that the winning source defines with the empty string (`key =`) takes part in the precedence like any other definition: it replaces the earlier / lower-precedence value"
    on_vars(text, _EMPTY, at_ret)
    if C.raised is None and C.vars is not None and all(k in C.vars and C.vars[k] == v for k, v in _EMPTY.items()) and C0 is not None:
        on_vars(text + " (no car parameters)", _EMPTY_NO_PARAMS, at_ret, C0, " without car parameters")

    # ---- CarLoader.load_car: one descriptor ----------------------------------------------------------------------------------------------------------------------------
    D1, D2, DM, DM0, DME = Described("c1", _PARAMS), Described("c2", _PARAMS), Described("mx", _PARAMS), Described("mx", None), Described("mx", {})

    def on_desc(rid, text, cases, node=at_cret):
        """cases: (descriptor, a key that identifies the field, {key: demanded value}, keys that must be absent)."""
        bad = []
        for d, ident, keys, absent in cases:
            f = d.holding(ident)
            if f is None:
                # the role was not located (the composed car, decided above, is what counts for the property): not recognised
                chk.unknown(rid, f"{text}: no dict-valued field of the descriptor holds `{ident}`" + (f"; field(s) {d.unknown} could not be evaluated ({_why(d.sim)})" if d.unknown else
                            f": {{{', '.join(f'{a}={v!r}' for a, v in d.fields.items() if isinstance(v, dict))}}}"), node)
                return
            bad += [f"`{k}` is {f.get(k)!r}, expected {want!r}" for k, want in keys.items() if not (k in f and f[k] == want)] + [f"`{k}` is defined ({f[k]!r})" for k in absent if k in f]
        chk.ob(rid, text, not bad, node, "" if not bad else "model team repository: " + "; ".join(bad[:3]))

    on_desc("O13.1", "car variables start from the car file's [variables] section", [(D1, "only_c1", {"only_c1": "c1", "k_car": "c1"}, []), (D2, "only_c2", {"only_c2": "c2", "k_cb": "c2"}, [])])
    on_desc("O13.1", "car parameters merged after the car file's variables", [(D1, "only_c1", {"k_all": "P", "only_p": "P"}, []), (D2, "only_c2", {"k_all": "P", "k_c2": "P", "only_p": "P"}, [])])
    # a mixin (no config base) gets the parameters as well; absent (None) or empty parameters change nothing and do not fail
    on_desc("O13.1", "car parameters applied to every descriptor (guarded only by their presence)",
            [(DM, "only_mx", {"k_mx": "P", "k_all": "P", "only_p": "P"}, []), (DM0, "only_mx", {"k_mx": "mx", "k_all": "mx"}, ["only_p"]), (DME, "only_mx", {"k_mx": "mx", "k_all": "mx"}, ["only_p"])])
    on_desc("O13.1", "config-base variables come from each base's config.ini [variables]", [(D1, "only_b1", {"only_b1": "b1", "only_b4": "b4", "k_base": "b1"}, ["only_c1", "only_p"]), (D2, "only_b3", {"only_b3": "b3", "k_base": "b3"}, ["only_c2", "only_p"])])
    cs = tm.methods(CL).get("_copy_section")
    if cs is None:
        chk.ob("O13.1", "_copy_section returns the target it filled", True, CL, "no such helper any more: that the sections reach the descriptor is decided by the obligations above")
    else:
        # the helper is called the way its callers call it: through an instance (a plain method, a @staticmethod and a @classmethod all bind themselves). The three roles
        # (parser, section name, target dict) are decided by VALUE, not by parameter position or name: the order written today is tried first, then every other order - an order
        # in which the parser is asked for a section of a dict, or a string is filled, does not evaluate.
        decos = {(dotted(d) or "?").split(".")[-1] for d in cs.decorator_list}
        n_roles = len(params_of(cs)) - (0 if "staticmethod" in decos else 1)
        s3, target, got = Sim(repo, externals=_TEAM_WORLD), {"kept": "x"}, OPAQUE
        for perm in (itertools.permutations(range(3)) if n_roles == 3 else ()):
            sim_, cfg, tgt = Sim(repo, externals=_TEAM_WORLD), _Cfg(), {"kept": "x"}
            cfg.read("/T/cars/v1/c1.ini")
            roles = [cfg, "variables", tgt]
            try:
                r = sim_.call_value(sim_.getattr(sim_.construct(ClassRef(CL, tm), ["/T"], {}), cs.name), [roles[i] for i in perm], {})
            except (CannotEval, Raised):
                r = OPAQUE
            if perm == (0, 1, 2) or (r is not OPAQUE and sim_.known(tgt) and (r is tgt or tgt != {"kept": "x"})):  # another order counts only if it is seen to fill / return the dict
                s3, target, got = sim_, tgt, r
            if got is not OPAQUE and s3.known(target):
                break
        if got is OPAQUE or not s3.known(target):
            chk.unknown("O13.1", f"_copy_section returns the target it filled: the helper could not be evaluated ({_why(s3)})", cs)
        else:
            want = dict({"kept": "x"}, **_CARS["c1"]["variables"])
            ok = got is target and target == want
            chk.ob("O13.1", "_copy_section returns the target it filled", ok, cs, "" if ok else f"model: returned {got!r}, target afterwards {target!r}")

    # ---- O13.2 config bases in order without duplicates ----------------------------------------------------------------------------------------------------------------
    want_bases = ["b2", "b3", "b1", "b4"]  # first occurrences in the order given: c2 -> b2,b3,(b2) ; c1 -> b1,b4,(b2)
    three = ("config paths appended under `not in`", "no re-ordering of the accumulated paths", "the accumulated config paths are the car's config paths")
    if C.raised is not None:
        chk.unknown("O13.2", f"{_MODEL}: composing the cars raises instead of returning a car; the model does not satisfy a check the loader makes", C.raised)
    elif C.paths is None:
        chk.unknown("O13.2", f"the config paths handed to the car could not be evaluated ({_why(C.sim)})", at_ret)
    else:
        got = _bases_of(C.paths)
        if got is None:
            for text in three:
                chk.ob("O13.2", text, False, at_ret, f"{_MODEL}: the car's config paths are {list(C.paths)!r}: not the template directories of the config bases")
        else:
            dup = [b for i, b in enumerate(got) if b in got[:i]]
            chk.ob("O13.2", three[0], not dup, at_loop, "" if not dup else f"{_MODEL}: the car's config bases are {got}: {_dedupe(dup)} more than once")
            ok = _dedupe(got) == [b for b in want_bases if b in got]
            chk.ob("O13.2", three[1], ok, at_ret, "" if ok else f"{_MODEL}: the car's config bases are {got}, in the order given they are {want_bases}")
            # exactly the descriptors' own config paths: one field of the descriptors provides every path
            provided = {a: [p for d in (D1, D2) for p in (d.fields.get(a) if isinstance(d.fields.get(a), (list, tuple)) and d.sim.known(d.fields.get(a)) else [])] for a in D1.fields}
            ok = set(got) == set(want_bases) and any(all(p in ps for p in C.paths) for ps in provided.values())
            if not ok and (D1.unknown or D2.unknown):
                chk.unknown("O13.2", f"{three[2]}: descriptor field(s) {D1.unknown or D2.unknown} could not be evaluated", at_ret)
            else:
                chk.ob("O13.2", three[2], ok, at_ret, "" if ok else f"{_MODEL}: the car's config paths are {list(C.paths)!r} (bases {got}); the descriptors provide the bases {want_bases}")
    # the bases of ONE car: in the order written, empty names skipped (duplicates may or may not be dropped here already)
    text = "a car's config bases are applied in the order written (split on ',')"
    cases = [(D1, ["b1", "b4", "b2"]), (D2, ["b2", "b3", "b2"])]
    blind = [d for d, _ in cases if not d.base_lists()]
    if blind:
        chk.unknown("O13.2", f"{text}: no field of the descriptor holds paths below the config bases of the model" +
                    (f"; field(s) {blind[0].unknown} could not be evaluated ({_why(blind[0].sim)})" if blind[0].unknown else ""), cl)
    else:
        bad = [f"descriptor field `{a}` walks the bases {got}, written: {want}" for d, want in cases for a, got in d.base_lists() if got != want and got != _dedupe(want)]
        f1 = D1.holding("only_b1")
        if f1 is not None and f1.get("k_in") != "b4":
            bad.append(f"bases b1,b4 both define `k_in`: the descriptor holds {f1.get('k_in')!r}, the later base b4 must win")
        chk.ob("O13.2", text, not bad, at_cret, "" if not bad else "model team repository: " + "; ".join(bad[:2]))
    req = [n for n in ast.walk(lc) if isinstance(n, ast.Raise)]
    try:
        CM = Composed(["mx"], _PARAMS)
    except AnchorMissing as x:
        chk.unknown("O13.2", f"at least one config base is required: {x}", req[0] if req else lc)
        return
    if CM.raised is None and CM.paths is None:
        chk.unknown("O13.2", f"at least one config base is required: the config paths of a car composed of a mixin only could not be evaluated ({_why(CM.sim)})", req[0] if req else lc)
    else:
        chk.ob("O13.2", "at least one config base is required", CM.raised is not None, CM.raised if CM.raised is not None else (req[0] if req else lc),
               "" if CM.raised is not None else f"model: composing only a mixin (no config base at all) returns a car with the config paths {list(CM.paths)!r} instead of failing")


def _car_field(pv, cls):
    """the attribute in which a provisioner / installer class keeps the car it was constructed with: `self.<a> = <first constructor parameter>` (by field flow, not by name)."""
    init = pv.methods(cls).get("__init__")
    if init is None or len(params_of(init)) < 2:
        raise AnchorMissing(f"{cls.name}.__init__(self, car, ...)")
    p = params_of(init)[1]
    attrs = [n.targets[0].attr for n in walk_body(init) if isinstance(n, ast.Assign) and len(n.targets) == 1 and is_self_attr(n.targets[0]) and isinstance(n.value, ast.Name) and n.value.id == p]
    if len(attrs) != 1:
        raise AnchorMissing(f"{cls.name}.__init__: the attribute that keeps the car (`self.<a> = {p}`)")
    return attrs[0]


def _is_car_vars(L, car_attr):
    """the layer is the variables of the car: `<...>.<car attribute>.variables` (through whatever receiver chain leads to the installer)."""
    return L.origin == "user" and isinstance(L.src, ast.Attribute) and L.src.attr == "variables" and isinstance(L.src.value, ast.Attribute) and L.src.value.attr == car_attr


def _sig(L):
    d = dotted(L.src) if isinstance(L.src, ast.AST) else None
    return (L.origin, L.keys, L.must, ".".join(d.split(".")[-2:]) if d and L.origin == "user" else (u(L.src) if L.origin == "user" else ""))


def installer_rules(chk, repo, pv, st):
    EI = pv.cls("ElasticsearchInstaller")
    ev_ = pv.methods(EI).get("variables")
    if ev_ is None:
        raise AnchorMissing("ElasticsearchInstaller.variables")
    car_attr = _car_field(pv, EI)
    # The installer's variables as ordered layers (later wins), followed through locals and through properties of the class (the node variables may live in a local dict or in
    # a property of their own): the car's variables are a layer of it, every layer is merged unconditionally into a NEW dict, and for each of Rally's node variables the last
    # layer that can hold it is a dict written by Rally that does hold it.
    flow = DictFlow(repo, pv)
    L3 = flow.returned(ev_, EI, 0)
    st["L3"] = L3
    text = "installer: car variables merged before Rally's node variables"
    if not L3:
        chk.unknown("O13.1", f"{text}: the dict returned by ElasticsearchInstaller.variables was not modelled", ev_)
    elif not any(_is_car_vars(L, car_attr) for L in L3) and any(L.origin == "user" for L in L3):
        chk.unknown("O13.1", f"{text}: none of the merged sources {[L.show() for L in L3]} was recognised as the car's variables (`self.{car_attr}.variables`)", ev_)
    else:
        over3 = overridable(L3, INTERNAL_KEYS, flow)
        held = set().union(*[L.keys for L in L3 if L.origin == "rally" and L.keys is not None])
        has_car = any(_is_car_vars(L, car_attr) for L in L3)
        ok = has_car and not over3 and all(L.must for L in L3) and not flow.issues
        chk.ob("O13.1", text, ok, flow.issues[0][1] if flow.issues else L3[-1].node,
               f"merge order: {[L.show() for L in L3]}; internal keys missing from the last source: {sorted(INTERNAL_KEYS - held)}" + ("" if has_car else "; the car's variables are not merged at all") +
               ("".join(f"; `{k}` can be overridden by {L.show() if L is not None else 'nothing of Rally defines it'}" for k, L in sorted(over3.items())[:3])) + "".join(f"; {t}" for t, _ in flow.issues))
    BP = pv.cls("BareProvisioner")
    pvf = pv.methods(BP).get("_provisioner_variables")
    if pvf is None:
        # by ROLE: the method of the provisioner, called as self.<m>() in prepare, that returns a dict holding Rally's node variables
        prep = pv.methods(BP).get("prepare")
        for m in ({n.func.attr for n in walk_body(prep) if isinstance(n, ast.Call) and is_self_attr(n.func) and not n.args} if prep is not None else ()):
            f = pv.methods(BP).get(m)
            try:
                Ls = DictFlow(repo, pv).returned(f, BP, 0) if f is not None else []
            except AnchorMissing:
                Ls = []
            if any(L.origin == "rally" and L.keys and L.keys & INTERNAL_KEYS for L in Ls):
                pvf = f
                break
    if pvf is None:
        raise AnchorMissing("BareProvisioner: the method that composes the variables the config templates are rendered with (_provisioner_variables)")
    # decided on the merge layers (not on the spelling of the first update): the composed variables BEGIN with exactly the layers of the installer's `variables` property
    # (car variables, then Rally's node variables), all merged unconditionally - whether through update calls, a dict display or a dict(...) copy
    flow5 = DictFlow(repo, pv)
    L5 = flow5.returned(pvf, BP, 0)
    st["L5"], st["flow5"], st["pvf"] = L5, flow5, pvf
    text = "provisioner variables start from the installer's variables"
    if not L5 or not L3:
        chk.unknown("O13.1", f"{text}: the dict returned by {source.qualname(pvf)} was not modelled", pvf)
    else:
        ok = [_sig(L) for L in L5[:len(L3)]] == [_sig(L) for L in L3] and all(L.must for L in L3)
        chk.ob("O13.1", text, ok, L5[0].node if isinstance(L5[0].node, ast.AST) else pvf, f"merge order: {[L.show() for L in L5]}")
    # the plugin-variable accumulator by ROLE: the local that collects `<installer>.variables` in the loop over self.plugin_installers
    plug = [L for L in L5[len(L3):] if L.origin == "user" and not L.must] if L5 and L3 else []
    if plug:
        chk.adv("O13.1", "plugin variables are merged after the installer's variables: a plugin variable overrides a CAR variable of the same name (plugin-over-car precedence is outside the "
                "property's statement; that Rally's node variables still win is O13.5)", plug[0].node)


# ---- cleanup on values -----------------------------------------------------------------------------------------------------------------------------------------------------


def _simulate_cleanup(repo, pv, cu, preserve, install, data, undeletable=(), links=None, missing=()):
    """cleanup(preserve, install, data) over a model file system in which every path exists except those in `missing` (and everything below them: removing one of those fails with
    FileNotFoundError); removing a path in `undeletable` fails with OSError, a path in `links` is a symbolic link to a directory (rmtree / rmdir of the link itself fails with
    OSError, unlink / remove works, realpath gives the target). Returns the recorded removals [(kind, path)], the simulation and the exception that escaped (None if cleanup returned)."""
    events = []
    links = dict(links or {})

    def fails(path):
        return isinstance(path, str) and path in undeletable

    def absent(path):
        return isinstance(path, str) and any(path == m or path.startswith(m.rstrip("/") + "/") for m in missing)

    def rmtree(path=OPAQUE, *a, **k):
        if k.get("onerror") is not None or k.get("onexc") is not None:
            raise CannotEval("shutil.rmtree with an error callback")
        quiet = k.get("ignore_errors", a[0] if a else False)
        if quiet is OPAQUE:
            raise CannotEval("shutil.rmtree(ignore_errors=<unknown>)")
        if fails(path) or absent(path) or (isinstance(path, str) and path in links):
            if quiet:
                return None  # fails silently
            raise ModelError("FileNotFoundError" if absent(path) else "OSError")
        events.append(("tree", path))

    def unlink(path=OPAQUE, *a, **k):
        if fails(path) or absent(path):
            raise ModelError("FileNotFoundError" if absent(path) else "OSError")
        events.append(("unlink" if isinstance(path, str) and path in links else "file", path))

    def rmdir(path=OPAQUE, *a, **k):
        if fails(path) or absent(path) or (isinstance(path, str) and path in links):
            raise ModelError("FileNotFoundError" if absent(path) else "OSError")
        events.append(("dir", path))

    def move(src=OPAQUE, dst=OPAQUE, *a, **k):
        events.append(("move", src))

    for f in (rmtree, unlink, rmdir, move):
        f._raw = True  # type: ignore[attr-defined]   (an unknown path is recorded as such)
    world = {"os.path.exists": lambda p: not absent(p), "os.path.lexists": lambda p: not absent(p), "os.path.isdir": lambda p: not absent(p), "os.path.isfile": lambda p: False, "os.path.islink": lambda p: p in links,
             "os.path.realpath": lambda p: links.get(p, p), "os.path.abspath": lambda p: p, "os.readlink": lambda p: links[p],
             "shutil.rmtree": rmtree, "os.remove": unlink, "os.unlink": unlink, "os.rmdir": rmdir, "os.removedirs": rmdir, "shutil.move": move, "os.rename": move}
    sim = Sim(repo, externals=world)
    ps = params_of(cu)
    named = {"preserve": preserve, "install_dir": install, "data_paths": list(data)}
    raised = None
    try:
        if set(named) <= set(ps):  # the callers pass keywords: the names are the interface
            sim.invoke(Fn(cu, pv), [], named)
        else:
            sim.invoke(Fn(cu, pv), [preserve, install, list(data)], {})
    except Raised as r:
        raised = r
    return events, sim, raised


def cleanup_rules(chk, repo, pv):
    cu = pv.func("cleanup")
    if len(params_of(cu)) < 3:
        raise AnchorMissing("cleanup(preserve, install_dir, data_paths)")
    install, data = "/node/install", ["/data/one", "/node/install/es/data", "/data/two"]
    kept, sim_k, r_k = _simulate_cleanup(repo, pv, cu, True, install, data)
    gone, sim_g, r_g = _simulate_cleanup(repo, pv, cu, False, install, data)
    if r_k is not None or r_g is not None:
        raise AnchorMissing(f"cleanup raises at line {getattr((r_k or r_g).node, 'lineno', '?')} in a model where every path exists and can be removed")
    ifs = [n for n in ast.walk(cu) if isinstance(n, ast.If)]
    at = ifs[0] if ifs else cu
    blind_k = f"; statements that could not be interpreted: {_why(sim_k)}" if sim_k.notes or _relevant_unknown(sim_k, data + [install]) else ""
    blind_g = f"; statements that could not be interpreted: {_why(sim_g)}" if sim_g.notes or _relevant_unknown(sim_g, data + [install]) else ""
    # preserve: nothing at all is removed
    if kept:
        chk.ob("O13.4", "nothing deleted when preserving", False, at, f"model cleanup(preserve=True, {install!r}, {data!r}) removes {kept!r}")
    elif blind_k:
        chk.unknown("O13.4", f"nothing deleted when preserving: no removal was seen, but the run was not fully interpreted{blind_k}", at)
    else:
        chk.ob("O13.4", "nothing deleted when preserving", True, at, "")
    # nothing else is ever removed: with preserve nothing (above), without it only the paths that were given
    paths = [p for _, p in gone]
    if any(not isinstance(p, str) for p in paths):
        blind_g = blind_g or "; a removal call received a path that could not be evaluated"
    foreign = [p for p in paths + [p for _, p in kept] if isinstance(p, str) and p not in data + [install]]
    if not foreign and not kept and any(not isinstance(p, str) for p in paths):
        chk.unknown("O13.4", f"no delete outside the preserve branch{blind_g}", at)
    else:
        chk.ob("O13.4", "no delete outside the preserve branch", not foreign and not kept, at,
               "" if not foreign and not kept else f"model cleanup removes {foreign or kept!r}: not one of the given paths, or removed although preserve is set")

    def removed(text, want, detail):
        missing = [p for p in want if p not in paths]
        if missing and blind_g:
            chk.unknown("O13.4", f"{text}: no removal of {missing} was seen, but the run was not fully interpreted{blind_g}", at)
        else:
            chk.ob("O13.4", text, not missing, at, "" if not missing else f"model cleanup(preserve=False, {install!r}, {data!r}) removes only {paths!r}: {detail}")

    removed("every data path is deleted (unconditional loop)", data, "the loop over the data paths filters or skips some paths")
    removed("the installation directory is deleted", [install], "the installation survives")
    # each of them as a whole tree
    wrong = [(k, p) for k, p in gone if k != "tree" and p in data + [install]]
    if not gone:
        chk.unknown("O13.4", f"delete_path removes the given tree: no removal call was seen{blind_g}", cu) if blind_g else chk.ob("O13.4", "delete_path removes the given tree", False, cu, "nothing is removed at all")
    else:
        chk.ob("O13.4", "delete_path removes the given tree", not wrong, cu, "" if not wrong else f"model: {wrong!r} - a data path / the installation is a directory tree, it needs a recursive removal")
    _section(chk, "O13.4", "cleanup: paths that are already gone", lambda: cleanup_independence_rule(chk, "O13.4", repo, pv, cu, at))
    _section(chk, "O13.4", "cleanup: failure containment", lambda: cleanup_isolation_rule(chk, "O13.4", pv))
    _section(chk, "O13.4", "cleanup: symbolic-link data path", lambda: symlinked_data_path_rule(chk, "O13.4", pv, cu))


def cleanup_independence_rule(chk, rid, repo, pv, cu, at):
    """'cleanup removes the installation AND ALL data paths ... for every installation directory content': whether ONE of the given paths is removed never depends on whether
    ANOTHER one still exists - data paths given by the user (car parameter data_paths) live outside the installation, so a missing installation says nothing about them (a second
    cleanup after one that got half-way, an installation removed by hand), and a data path that is already gone says nothing about the remaining ones. Decided on VALUES: cleanup
    (preserve off) is interpreted over model file systems in which, in turn, the installation (with everything below it) / the first data path / every data path does not exist
    (os.path.exists is false for it, removing it fails with FileNotFoundError); afterwards every given path that DOES exist has been removed, or cleanup has raised."""
    install, data = "/node/install", ["/data/one", "/node/install/es/data", "/data/two"]
    text = "every existing data path and the installation are removed whichever of the OTHER given paths is already gone (no removal depends on the existence of another path)"
    worlds = [("the installation", [install]), ("the first data path", [data[0]]), ("every data path", list(data))]
    bad, blind_why, reported = [], [], 0
    for what, missing in worlds:
        events, sim, raised = _simulate_cleanup(repo, pv, cu, False, install, data, missing=missing)
        if raised is not None:
            reported += 1  # the failure surfaces: not silent
            continue
        removed = [p for _, p in events]
        there = [p for p in data + [install] if not any(p == m or p.startswith(m + "/") for m in missing)]
        left = [p for p in there if p not in [q for q in removed if isinstance(q, str)]]
        if not left:
            continue
        if sim.notes or _relevant_unknown(sim, data + [install]) or any(not isinstance(p, str) for p in removed):
            blind_why.append(f"with {what} already gone no removal of {left} was seen, but the run was not fully interpreted ({_why(sim)})")
        else:
            bad.append(f"model cleanup(preserve=False, {install!r}, {data!r}) in a file system where {what} ({', '.join(missing)}) does not exist any more: cleanup returns normally, "
                       f"{removed!r} removed - {left!r} still exist and stay on disk although preserve-install is off")
    if bad:
        chk.ob(rid, text, False, at, bad[0] + (f" (+{len(bad) - 1} more model file system(s))" if len(bad) > 1 else ""))
    elif blind_why:
        chk.unknown(rid, f"{text}: {blind_why[0]}", at)
    else:
        chk.ob(rid, text, True, at, f"{len(worlds)} model file systems" + (f"; in {reported} of them cleanup raises (the failure is reported)" if reported else ""))


# ---- cleanup is reached: the callers of cleanup ------------------------------------------------------------------------------------------------------------------------
_M = "esrally/mechanic/mechanic.py"
_LOOPS = (ast.For, ast.AsyncFor, ast.While)
_COND_EXPR = (ast.IfExp, ast.BoolOp, ast.Lambda, ast.ListComp, ast.SetComp, ast.DictComp, ast.GeneratorExp)
_ITER_WRAPPERS = ("list", "tuple", "iter", "reversed", "sorted")


def _is_cleanup_call(call, mod, pv):
    """a call of provisioner.cleanup written in module `mod` (resolved through the import table of that module)"""
    d = dotted(call.func)
    if not d:
        return False
    head, _, rest = d.partition(".")
    target = mod.imports.get(head)
    full = (target + ("." + rest if rest else "")) if target else (f"{mod.modname}.{d}" if mod is pv or mod.relpath == pv.relpath else None)
    return full == f"{pv.modname}.cleanup"


def _unconditional_calls(stmt):
    """the calls a simple statement certainly evaluates (not those under a conditional expression, a short-circuit operator, a lambda or a comprehension)"""
    if not isinstance(stmt, (ast.Expr, ast.Assign, ast.AnnAssign, ast.AugAssign, ast.Return)):
        return []
    out = []
    for c in source.walk_local(stmt):
        if isinstance(c, ast.Call):
            p, cond = getattr(c, "_parent", None), False
            while p is not None and p is not stmt:
                if isinstance(p, _COND_EXPR):
                    cond = True
                    break
                p = getattr(p, "_parent", None)
            if not cond:
                out.append(c)
    return out


class _CleanupReach:
    """Which functions of a module CERTAINLY clean up: every path from the entry to a normal return passes a statement that calls provisioner.cleanup, calls (unconditionally) a
    function / method of the same module that certainly cleans up, or is a loop every iteration of which certainly does (the loop over the node configurations)."""

    def __init__(self, mod, pv):
        self.mod, self.pv = mod, pv
        self.memo = {}

    def callee(self, call, func):
        f = call.func
        if isinstance(f, ast.Name):
            g = self.mod.get(f.id, required=False)
            return g if isinstance(g, source.FUNC_TYPES) else None
        if isinstance(f, ast.Attribute) and isinstance(f.value, ast.Name) and f.value.id in ("self", "cls"):
            c = source.enclosing_class(func)
            if c is not None:
                return self.mod.methods(c).get(f.attr)
        return None

    def sites(self, func):
        """(statement, cleanup call or None, callee or None) for the statements of func that clean up directly or through a callee that certainly cleans up"""
        out = []
        for s in source.walk_local(func, include_root=False):
            for c in _unconditional_calls(s) if isinstance(s, ast.stmt) else ():
                if _is_cleanup_call(c, self.mod, self.pv):
                    out.append((s, c, None))
                else:
                    g = self.callee(c, func)
                    if g is not None and g is not func and self.certain(g)[0]:
                        out.append((s, None, g))
        return out

    def mentions(self, func, depth=0):
        """func contains a cleanup call somewhere (however conditional), itself or through a local callee"""
        for c in source.walk_local(func, include_root=False):
            if isinstance(c, ast.Call):
                if _is_cleanup_call(c, self.mod, self.pv):
                    return True
                g = self.callee(c, func)
                if g is not None and g is not func and depth < 4 and self.mentions(g, depth + 1):
                    return True
        return False

    def certain(self, func):
        """(certainly cleans up, the statements that do, the loops every iteration of which does)"""
        k = id(func)
        if k in self.memo:
            return self.memo[k]
        self.memo[k] = (False, [], [])  # recursion: not certain
        g = cfg_of(func)
        sites = self.sites(func)

        def loop_of(n):
            p = getattr(n, "_parent", None)
            while p is not None and p is not func:
                if isinstance(p, _LOOPS):
                    return p
                p = getattr(p, "_parent", None)
            return None

        loops = [n for n in source.walk_local(func, include_root=False) if isinstance(n, _LOOPS)]
        good_loops = []

        def through(container):
            t = [s for s, _, _ in sites if loop_of(s) is container]
            for lp in loops:
                if loop_of(lp) is container and loop_ok(lp):
                    t.append(lp)
            return t

        def loop_ok(lp):
            t = through(lp)
            if not t or not lp.body:
                return False
            nodes = [x for s in t for x in g.nodes_of(s)]
            ok = g.must_pass(g.node_of(lp.body[0]), nodes, exits=[g.exit] + g.nodes_of(lp))
            if ok:
                good_loops.append(lp)
            return ok

        top = through(None)
        nodes = [x for s in top for x in g.nodes_of(s)]
        ok = bool(nodes) and g.must_pass(g.entry, nodes)
        self.memo[k] = (ok, top, good_loops)
        return self.memo[k]


def _launcher_stops(func, mod):
    """calls `<launcher object>.stop(nodes, ...)` in func: the receiver is built from a class of the launcher module or carries the launcher in its name"""
    defs = local_defs(func)
    out = []
    for c in source.calls_in(func, attr="stop"):
        if not isinstance(c.func, ast.Attribute) or not (c.args or c.keywords):
            continue
        recv = c.func.value
        names = [u(recv)]
        if isinstance(recv, ast.Name):
            names += [u(n.value) for n in walk_body(func) if isinstance(n, ast.Assign) and any(isinstance(t, ast.Name) and t.id == recv.id for t in n.targets)]
        if any("launcher" in n.lower() for n in names):
            out.append(c)
    return out


def _setting_key(expr):
    """(section, key) of a configuration read `<cfg>.opts(section, key, ...)`"""
    if isinstance(expr, ast.Call) and last_attr(expr.func) == "opts" and len(expr.args) >= 2 and all(isinstance(a, ast.Constant) and isinstance(a.value, str) for a in expr.args[:2]):
        return expr.args[0].value, expr.args[1].value
    return None


def _resolve_value(expr, func, mod, depth=0):
    """follow a local assigned once / an attribute of self assigned in exactly one place of the class to the expression that defines it"""
    if depth > 4:
        return expr
    if isinstance(expr, ast.Name):
        d = local_defs(func).get(expr.id)
        return _resolve_value(d, func, mod, depth + 1) if d is not None else expr
    if is_self_attr(expr):
        c = source.enclosing_class(func)
        if c is not None:
            stores = [(n, f) for f in mod.methods(c).values() for n in walk_body(f) if isinstance(n, ast.Assign) and any(is_self_attr(t, expr.attr) for t in n.targets)]
            if len(stores) == 1:
                return _resolve_value(stores[0][0].value, stores[0][1], mod, depth + 1)
    return expr


def cleanup_reached_rule(chk, rid, repo, pv):
    """'cleanup removes the installation and all data paths unless preserve-install is set' is a statement about STOPPING A NODE, not about the function cleanup alone: (a) every
    function that stops the nodes through a launcher, and every function that cleans up at all, cleans up on EVERY path that returns normally - for every node configuration (the
    loop body certainly calls it) - whatever else happened on the way (race not found, no metrics store, no results); (b) the call hands over the preserve-install setting, and the
    binary path and the data paths of ONE node configuration."""
    mod = repo.module(_M)
    chk.use(mod)
    reach = _CleanupReach(mod, pv)
    funcs = [f for f in mod.functions() if _launcher_stops(f, mod) or reach.mentions(f)]
    if not any(_launcher_stops(f, mod) for f in funcs):
        raise AnchorMissing(f"{_M}: no function stops the nodes through a launcher (`<launcher>.stop(nodes, ...)`)")
    text_a = "a function that stops the nodes / that cleans up reaches provisioner.cleanup on every path that returns normally, for every node configuration"
    text_b = "cleanup receives preserve = the preserve.install setting, install_dir = the binary path and data_paths = the data paths of the same node configuration"
    calls = []
    for f in funcs:
        ok, top, good = reach.certain(f)
        direct = [(s, c) for s, c, _ in reach.sites(f) if c is not None]
        calls += [(f, s, c) for s, c in direct]
        stops = _launcher_stops(f, mod)
        at = stops[0] if stops else (direct[0][1] if direct else f)
        name = source.qualname(f)
        if ok:
            chk.ob(rid, f"{text_a}: {name}", True, at, "")
            continue
        anywhere = [c for c in source.walk_local(f, include_root=False) if isinstance(c, ast.Call) and (_is_cleanup_call(c, mod, pv) or (reach.callee(c, f) is not None and reach.mentions(reach.callee(c, f))))]
        tests = [t for c in anywhere for t, _ in guards(c, path_sensitive=True)]
        if any("preserve" in u(t).lower() for t in tests):
            chk.unknown(rid, f"{text_a}: {name} cleans up under a condition on the preserve setting - not recognised", at)
            continue
        if not anywhere:
            why = "stops the nodes through the launcher but never calls provisioner.cleanup (nor a function of this module that does)"
        else:
            conds = sorted({short(t, 60) for t in tests}) or ["an early return / a loop that may skip it"]
            why = (f"there is a path to a normal return on which provisioner.cleanup (line {anywhere[0].lineno}) is not called - it depends on {', '.join(conds)}: the installation and "
                   "the data paths stay on disk although preserve-install is not set")
        chk.ob(rid, f"{text_a}: {name}", False, at, f"{name} {why}")
    if not calls:
        raise AnchorMissing(f"{_M}: no call of provisioner.cleanup")
    ps = params_of(pv.func("cleanup"))
    if len(ps) < 3:
        raise AnchorMissing("cleanup(preserve, install_dir, data_paths)")
    for f, s, c in calls:
        name = source.qualname(f)
        b = source.bind_args(c, pv.func("cleanup"), skip_self=False)
        if any(isinstance(a, ast.Starred) for a in c.args) or any(k.arg is None for k in c.keywords) or not all(p in b for p in ps[:3]):
            chk.unknown(rid, f"{text_b}: {name}: the arguments of the call cannot be told apart", c)
            continue
        pres, inst, data = (b[p] for p in ps[:3])
        bad, blind = [], []
        rp = _resolve_value(pres, f, mod)
        sk = _setting_key(rp)
        if isinstance(rp, ast.Constant):
            bad.append(f"preserve is the constant {rp.value!r}, not the preserve-install setting")
        elif sk is not None:
            if sk[1] != "preserve.install":
                bad.append(f"preserve is read from the setting {sk!r}, not from preserve.install")
        elif isinstance(rp, ast.UnaryOp) and isinstance(rp.op, ast.Not) and _setting_key(_resolve_value(rp.operand, f, mod)) is not None:
            bad.append(f"preserve is the NEGATED setting ({short(rp, 60)})")
        else:
            blind.append(f"preserve = {short(rp, 60)}")
        ri, rd = _resolve_value(inst, f, mod), _resolve_value(data, f, mod)
        if isinstance(ri, ast.Attribute) and isinstance(rd, ast.Attribute):
            if ri.attr != "binary_path":
                bad.append(f"install_dir is {short(ri, 60)}, not the binary path of the node configuration")
            if rd.attr != "data_paths":
                bad.append(f"data_paths is {short(rd, 60)}, not the data paths of the node configuration")
            if u(ri.value) != u(rd.value):
                bad.append(f"install_dir and data_paths come from different objects ({short(ri.value, 40)} / {short(rd.value, 40)})")
        else:
            for what, r, attr in (("install_dir", ri, "binary_path"), ("data_paths", rd, "data_paths")):
                if isinstance(r, (ast.Constant, ast.List, ast.Tuple)) and not getattr(r, "elts", None):
                    bad.append(f"{what} is the constant {short(r, 40)}")
                elif not (isinstance(r, ast.Attribute) and r.attr == attr):
                    blind.append(f"{what} = {short(r, 60)}")
        lp = getattr(s, "_parent", None)
        while lp is not None and lp is not f and not isinstance(lp, _LOOPS):
            lp = getattr(lp, "_parent", None)
        if isinstance(lp, (ast.For, ast.AsyncFor)) and isinstance(ri, ast.Attribute) and u(ri.value) == u(lp.target):
            it = lp.iter
            while isinstance(it, ast.Call) and isinstance(it.func, ast.Name) and it.func.id in _ITER_WRAPPERS and len(it.args) == 1:
                it = it.args[0]
            it = _resolve_value(it, f, mod)
            if isinstance(it, ast.Subscript) and isinstance(it.slice, ast.Slice):
                bad.append(f"the loop runs over a part of the node configurations only ({short(lp.iter, 60)})")
            elif isinstance(it, (ast.ListComp, ast.GeneratorExp)) and any(g.ifs for g in it.generators):
                bad.append(f"the loop filters the node configurations ({short(lp.iter, 60)})")
            elif not isinstance(it, (ast.Name, ast.Attribute)):
                blind.append(f"loop over {short(lp.iter, 60)}")
        if bad:
            chk.ob(rid, f"{text_b}: {name}", False, c, "; ".join(bad))
        elif blind:
            chk.unknown(rid, f"{text_b}: {name}: not recognised ({'; '.join(blind)})", c)
        else:
            chk.ob(rid, f"{text_b}: {name}", True, c, "")


# ---- template mirroring on values ------------------------------------------------------------------------------------------------------------------------------------------
_S1, _S2 = "/team/cars/v1/b1/templates", "/team/cars/v1/b2/templates"
# directory (relative to the source root) -> file names. Two files named elasticsearch.yml in different directories of one base (Jinja caches templates by loader and NAME),
# one template that renders to nothing, binary files next to text files, a directory two levels down; the second base provides elasticsearch.yml again (append, not overwrite).
_TREES = {
    _S1: {"": ["elasticsearch.yml", "jvm.options", "keystore.jks", "empty.yml"], "config": ["elasticsearch.yml", "log4j2.properties"], "config/deep": ["roles.json", "plugin.jar"]},
    _S2: {"": ["elasticsearch.yml", "notes.txt"]},
    "/plugins/model-plugin/templates": {"": ["plugin-settings.yml"]},
}
_APPEND_MODES = ("a", "at", "ta", "a+", "at+", "a+t")


class _Loader(Native):
    def __init__(self, searchpath=OPAQUE, *a, **k):
        self.searchpath = [searchpath] if isinstance(searchpath, str) else searchpath


class _Template(Native):
    SEEN: list = []  # the variables objects handed to render() since the list was last cleared

    def __init__(self, path):
        self.path = path

    def render(self, *a, **k):
        v = a[0] if a else k
        _Template.SEEN.append((self.path, v, dict(v) if isinstance(v, dict) else None))
        mark = v.get("marker") if isinstance(v, dict) else None
        return "" if posixpath.basename(self.path).startswith("empty") else f"<{self.path}|{mark}>"  # (Jinja drops a trailing newline)


class _JinjaEnv(Native):
    """jinja2.Environment as far as it matters here: templates are resolved against the loader's search path WHEN FIRST LOADED and cached by (loader, name)."""

    def __init__(self, loader=None, **k):
        self.loader, self.globals, self.filters, self._cache = loader, {}, {}, {}

    def get_template(self, name, *a, **k):
        if not isinstance(self.loader, _Loader) or not isinstance(self.loader.searchpath, list) or not self.loader.searchpath or not isinstance(name, str):
            raise CannotEval("template loader")
        key = (id(self.loader), name)
        if key not in self._cache:
            self._cache[key] = _Template(posixpath.join(self.loader.searchpath[0], name))
        return self._cache[key]


class _File(Native):
    def __init__(self, events, path, mode):
        self._events, self.name, self.mode, self._texts = events, path, mode, []

    def write(self, text=OPAQUE):
        self._texts.append(text)
        self._events.append(("write", self.name, self.mode, text))

    write._raw = True  # type: ignore[attr-defined]

    def writelines(self, lines=OPAQUE):
        for t in (lines if isinstance(lines, (list, tuple)) else [OPAQUE]):
            self.write(t)

    def _chunk(self):
        """everything written through this file object (one opening of the target = one appended chunk); unknown if any part is."""
        return "".join(self._texts) if all(isinstance(t, str) for t in self._texts) else OPAQUE

    def close(self):
        pass

    def flush(self):
        pass


_STALE = "the model installation is not empty: every target path already holds a regular file of the same size and time stamp as the file provisioning puts there, with OTHER content"


def _mirror_world(events):
    """recording models of os.walk / open / shutil / jinja2 over the model trees. 'For every installation directory content': the installation the files go to is the adversarial
    one - every path exists already (os.path.exists / isfile), and what is there has the same type, size and modification time as the file of the config base but other bytes (a
    left-over, a file shipped with the distribution, the file an earlier config base put there; archives with normalised time stamps, coarse file-system time stamps). So size /
    time-stamp comparisons and filecmp.cmp(shallow=True, the default: it compares os.stat signatures and reads nothing when they agree) say 'same', a comparison of the contents
    (shallow=False) says 'different'. Whether a file of a config base reaches the installation must not depend on any of that."""
    names = {n for tree in _TREES.values() for files in tree.values() for n in files}

    def isfile(p):
        return posixpath.basename(p) in names

    def same_file(a, b, shallow=True):
        return True if a == b else bool(shallow)

    def walk(top, *a, **k):
        if top not in _TREES:
            raise CannotEval(f"os.walk({top!r}): not a directory of the model")
        tree = _TREES[top]
        return [(posixpath.join(top, rel) if rel else top, sorted({r[len(rel) + 1 if rel else 0:].split("/")[0] for r in tree if r != rel and (r.startswith(rel + "/") or not rel)}), list(files))
                for rel, files in sorted(tree.items())]

    def open_(path=OPAQUE, mode="r", *a, **k):
        f = _File(events, path, mode)
        events.append(("open", path, mode, f))
        return f

    def copy(src=OPAQUE, dst=OPAQUE, *a, **k):
        events.append(("copy", src, dst, None))
        return dst

    open_._raw = copy._raw = True  # type: ignore[attr-defined]
    return {"os.walk": walk, "open": open_, "io.open": open_, "shutil.copy": copy, "shutil.copy2": copy, "shutil.copyfile": copy, "os.makedirs": lambda *a, **k: None, "os.mkdir": lambda *a, **k: None,
            "os.path.exists": lambda p: True, "os.path.isdir": lambda p: True, "os.path.lexists": lambda p: True, "os.path.isfile": isfile, "os.path.islink": lambda p: False,
            "os.path.getsize": lambda p: 4096, "os.path.getmtime": lambda p: 1600000000.0, "os.path.samefile": lambda a, b: a == b, "filecmp.cmp": same_file, "filecmp.clear_cache": lambda: None,
            "jinja2.Environment": _JinjaEnv, "jinja2.FileSystemLoader": _Loader, "jinja2.loaders.FileSystemLoader": _Loader}


class _ModelCar(Native):
    def __init__(self):
        # (`cleared`: a variable the car defines with the empty string - it reaches the renderer like any other car variable)
        self.variables = {"marker": "CAR", "cleared": "", "docker_image": "img", "runtime.jdk": "17", "runtime.jdk.bundled": "true", "http_port": "1", "node_name": "car's"}
        self.config_paths = [_S1, _S2]
        self.names, self.name, self.root_path = ["model"], "model", []

    def mandatory_var(self, name):
        return self.variables[name]


def _relevant_unknown(sim, tracked):
    """the calls the model knows nothing about that received a value mentioning one of the tracked paths (they may have done what the rule is looking for)."""
    return [c for c in sim.unknown_calls if any(isinstance(a, (str, _PPath)) and any(r in str(a) for r in tracked) for a in c)]


def _mirror_judgement(events, sim, roots, target_root, mark):
    """compares the recorded file operations of one mirroring site with what the property demands for every file of the walked model trees.
    Returns {facet: (verdict, detail)} with verdict True / False / None (None: an expected operation was not seen but part of the run was not interpreted -> not recognised)."""
    files = [(root, rel, name) for root in roots for rel, names in sorted(_TREES[root].items()) for name in names]
    is_text = lambda name: posixpath.splitext(name)[1] in (".yml", ".options", ".properties", ".json", ".txt")  # noqa: E731   (the model's files only)
    norm = lambda p: posixpath.normpath(p) if isinstance(p, str) else p  # noqa: E731
    blind = bool(sim.notes)
    # calls the model knows nothing about matter only if they received something of the model trees / the target (a path, a rendered text): those may have done the expected work
    tracked = list(roots) + ([target_root] if target_root else [])
    seen_unknown = [e for e in events if any(x is OPAQUE for x in e[1:3])] or _relevant_unknown(sim, tracked)
    opens = [(norm(p), m) for k, p, m, _ in events if k == "open"]
    writes = [(norm(p), m, f._chunk()) for k, p, m, f in events if k == "open"]  # one entry per opening of a file: the chunk written through it
    copies = [(norm(s_), norm(d)) for k, s_, d, _ in events if k == "copy"]
    # the target root as the site itself uses it: where the root-level file of the first tree went
    first = next(((root, name) for root, rel, name in files if rel == "" and is_text(name)), None)
    cand = [posixpath.dirname(p) for p, m, t in writes if isinstance(t, str) and isinstance(p, str) and first and posixpath.join(first[0], first[1]) in t] or \
           [posixpath.dirname(p) for p, m in opens if isinstance(p, str) and first and posixpath.basename(p) == first[1]]
    T = norm(target_root) if target_root is not None else (cand[0] if cand else None)
    out = {}

    def put(facet, bad, missing, judged):
        """bad: located and wrong -> falsified; missing: an expected operation was not seen -> falsified, unless part of the run was not interpreted (then: not recognised);
        judged: at least one operation this facet speaks about was seen (otherwise there is nothing to hold or fail: not recognised)."""
        if bad:
            out[facet] = (False, bad[0])
        elif missing:
            out[facet] = (None, missing[0]) if blind or seen_unknown else (False, missing[0])
        else:
            out[facet] = (True, "") if judged else (None, "none of the expected file operations was seen")

    if T is None:
        return {f: (None, "no write of a rendered template of the model was seen") for f in ("relroot", "target", "append", "written", "env", "copied", "source")}
    b_rel, b_tgt, b_app, b_wr, m_wr, b_env, b_cp, m_cp, b_src, found_text, found_copy = [], [], [], [], [], [], [], [], [], [], []
    for root, rel, name in files:
        src = posixpath.join(root, rel, name) if rel else posixpath.join(root, name)
        want = norm(posixpath.join(T, rel, name))
        if is_text(name):
            mine = [(p, m, t) for p, m, t in writes if isinstance(t, str) and isinstance(p, str) and f"|{mark}>" in t and f"/{name}|" in t and f"<{root}/" in t] if not name.startswith("empty") else \
                   [(p, m, t) for p, m, t in writes if isinstance(t, str) and t.strip() == "" and isinstance(p, str) and posixpath.basename(p) == name]
            exact = [(p, m, t) for p, m, t in mine if f"<{src}|" in t] if not name.startswith("empty") else mine
            if not mine:
                other = [t for p, m, t in writes if isinstance(t, str) and f"<{src}|" in t]
                if other:
                    b_wr.append(f"`{src}` is rendered with other variables than the composed ones: {other[0]!r}")
                else:
                    m_wr.append(f"no write of the rendered `{src}`" + (" (a template that renders to nothing must still be created in the installation)" if name.startswith("empty") else ""))
                continue
            if not exact:
                b_env.append(f"the text written for `{src}` is the rendering of another directory's template of the same name: {mine[0][2]!r}")
                continue
            p, m, t = exact[0]
            found_text.append(src)
            if len([e for e in exact if e[0] == p]) > 1:
                b_wr.append(f"`{src}` is written {len([e for e in exact if e[0] == p])} times to `{p}`")
            if posixpath.dirname(p) != norm(posixpath.join(T, rel)):
                b_rel.append(f"`{src}` (directory `{rel or '.'}` below the source root) is written to `{p}`, expected `{want}`")
            elif p != want:
                b_tgt.append(f"`{src}` is written to `{p}`, expected `{want}`")
            if m not in _APPEND_MODES:
                b_app.append(f"`{p}` is opened with mode={m!r}: a file that several config bases provide is overwritten instead of appended to")
            if [c for c in copies if c[0] == src]:
                b_cp.append(f"the text file `{src}` is copied as well")
        else:
            mine = [c for c in copies if c[0] == src]
            if not mine:
                byname = [c for c in copies if isinstance(c[0], str) and posixpath.basename(c[0]) == name]
                (b_src if byname else m_cp).append(f"`{src}` is copied from `{byname[0][0]}`" if byname else f"no verbatim copy of the binary file `{src}` ({_STALE})")
                continue
            d = mine[0][1]
            if not isinstance(d, str):
                continue  # copied to a path that could not be evaluated (counted in seen_unknown)
            if d == norm(posixpath.join(T, rel)):
                d = want  # shutil.copy(<file>, <existing directory>) puts the file into that directory under its own name
            found_copy.append(src)
            if posixpath.dirname(d) != norm(posixpath.join(T, rel)):
                b_rel.append(f"`{src}` (directory `{rel or '.'}` below the source root) is copied to `{d}`, expected `{want}`")
            elif d != want:
                b_tgt.append(f"`{src}` is copied to `{d}`, expected `{want}`")
            if [o for o in opens if o[0] == want and o[1] not in ("r", "rb", "rt")]:
                b_cp.append(f"the binary file `{src}` is opened for writing as well")
    n_text, n_copy = len(found_text), len(found_copy)
    put("relroot", b_rel, [], n_text + n_copy)
    put("target", b_tgt, [], n_text + n_copy)
    put("append", b_app, [], n_text)
    put("written", b_wr, m_wr, n_text)
    put("env", b_env, [], n_text or b_env)
    put("copied", b_cp, m_cp, n_copy)
    put("source", b_src, [], n_text + n_copy)
    return out


def mirroring_rules(chk, repo, pv, st):
    rt = pv.get("_render_template", required=False)  # the renderer is an anchor of convenience only: the obligations are decided on what reaches the files
    rt = rt if isinstance(rt, ast.FunctionDef) and len(params_of(rt)) >= 3 else None
    rp = params_of(rt) if rt is not None else []
    BP, DP, EI = pv.cls("BareProvisioner"), pv.cls("DockerProvisioner"), pv.cls("ElasticsearchInstaller")
    prep = pv.methods(BP).get("prepare")
    binit = pv.methods(BP).get("__init__")
    if prep is None or binit is None:
        raise AnchorMissing("BareProvisioner.__init__ / prepare")
    # ---- site 1: the bare provisioner, END TO END: BareProvisioner(<model installer>, [<model plugin installer>]).prepare(<binaries>) with whatever applies a config base ----
    ev1, sim1, seen1, why1 = _run_bare_prepare(repo, pv, BP, prep, binit)
    site1, j1, loc = prep, None, None
    if not why1:
        try:
            j1 = _mirror_judgement(ev1, sim1, [_S1, _S2], _ModelInstaller.HOME, "CAR")
        except CannotEval as x:
            why1 = str(x)
    if j1 is None or all(v is None for v, _ in j1.values()):
        # fallback: the function behind the injected `apply_config`, located by field flow, interpreted on its own
        try:
            loc = _locate_apply_config(pv, BP, binit, prep, rt, rp)
            ev1, seen1 = [], []
            sim1 = Sim(repo, externals=_mirror_world(ev1))
            sim1.invoke(Fn(loc["acf"], pv), [], {loc["srcp"]: _S1, loc["tgtp"]: "/node/install/es", loc["varp"]: {"marker": "COMPOSED"}})
            j1, site1, why1 = _mirror_judgement(ev1, sim1, [_S1], "/node/install/es", "COMPOSED"), loc["acf"], ""
        except (CannotEval, Raised, AnchorMissing) as x:
            j1 = None
            why1 = why1 or f"{type(x).__name__}: {x if not isinstance(x, Raised) else 'raises at line ' + str(getattr(x.node, 'lineno', '?'))}"
    st.update(prep=prep, rt=rt, rp=rp, BP=BP, DP=DP, bare=(ev1, sim1, seen1, why1, site1 is prep), binit=binit)
    # ---- site 2: the docker provisioner ------------------------------------------------------------------------------------------------------------------------------------
    dprep = pv.methods(DP).get("prepare")
    dinit = pv.methods(DP).get("__init__")
    if dprep is None or dinit is None:
        raise AnchorMissing("DockerProvisioner.__init__ / prepare")
    ev2 = []
    sim2 = Sim(repo, externals=_mirror_world(ev2))
    try:
        args = [_ModelCar()] + [(39200 if "port" in p else f"/{p}") for p in params_of(dinit)[2:]]
        dp = sim2.construct(ClassRef(DP, pv), args, {})
        _Template.SEEN.clear()
        sim2.notes.clear()  # what the constructor could not interpret is unknown state, not an uninterpreted part of prepare
        sim2.unknown_calls.clear()
        sim2.call_value(sim2.getattr(dp, dprep.name), [OPAQUE] * (len(params_of(dprep)) - 1), {})
        notes2 = [(s_, r) for s_, r in sim2.notes if any(e_ is s_ or any(a is e_ for a in source.ancestors(s_)) for e_ in [dprep])]
        sim2.notes[:] = notes2
        j2 = _mirror_judgement(ev2, sim2, [_S1, _S2], None, "CAR")
        # the attribute of the docker provisioner whose value reaches the renderer of the mirrored templates (by identity of the object, not by name)
        held = [a for a, val in dp.fields.items() if isinstance(val, dict) and any(val is x for _, x, _ in _Template.SEEN)]
        st["dvar_attr"] = held[0] if len(held) == 1 else None
    except (CannotEval, Raised) as x:
        j2 = None
        why2 = f"{type(x).__name__}: {x if isinstance(x, CannotEval) else 'raises at line ' + str(getattr(x.node, 'lineno', '?'))}"
    acf = site1
    located = [j for j in (j1, j2) if j is not None and any(v is not None for v, _ in j.values())]
    if len(located) == 2:
        chk.ob("O13.3", "template-mirroring sites located (bare and docker provisioner)", True, pv.tree, "2 sites interpreted over the model trees")
    else:
        chk.unknown("O13.3", "template-mirroring sites located (bare and docker provisioner): " + "; ".join(x for x in (
            f"{source.qualname(prep)} could not be interpreted ({why1})" if j1 is None else ("" if j1 in located else f"no file operation on the model trees was seen in {source.qualname(site1)} ({_why(sim1)})"),
            f"DockerProvisioner.{dprep.name} could not be interpreted ({why2})" if j2 is None else ("" if j2 in located else f"no file operation on the model trees was seen in DockerProvisioner.{dprep.name} ({_why(sim2)})")) if x), pv.tree)
    FACETS = [("relroot", "relative root == directory path relative to the source root"), ("target", "target file == join(join(target root, relative root), name)"),
              ("append", "text files opened in append mode"), ("written", "the rendered template is written"),
              ("env", "a fresh template environment per walked directory, loading from that directory"), ("copied", "other files copied verbatim, whatever the installation already holds at the target path"),
              ("source", "source file == join(walked directory, name)")]
    for fn, j, sim_ in ((acf, j1, sim1), (dprep, j2, sim2)):
        if j is None:
            continue
        tag = source.qualname(fn)
        walks = [n for n in ast.walk(fn) if isinstance(n, ast.For) and isinstance(n.iter, ast.Call) and dotted(n.iter.func) == "os.walk"]
        if not walks and fn is prep:  # the end-to-end run: the walk lives in the function that applies one config base
            elsewhere = [n for f_ in pv.tree.body if isinstance(f_, ast.FunctionDef) for n in ast.walk(f_) if isinstance(n, ast.For) and isinstance(n.iter, ast.Call) and dotted(n.iter.func) == "os.walk"]
            walks = elsewhere if len(elsewhere) == 1 else []
        at = walks[0] if walks else fn
        for facet, text in FACETS:
            verdict, detail = j[facet]
            if verdict is None:
                chk.unknown("O13.3", f"{tag}: {text}: {detail}; not everything was interpreted ({_why(sim_)})", at)
            else:
                chk.ob("O13.3", f"{tag}: {text}", verdict, at, ("model tree: " + detail) if detail else "", key=f"{_P}:{tag}:env-per-directory" if facet == "env" else None)
    # ---- every appended chunk ends with a newline: on the chunks the two sites wrote; on the renderer itself if none was seen ----------------------------------------------
    text = "every rendered chunk ends with a newline (appended snippets never glue onto the previous line)"
    rets = [n for n in walk_body(rt) if isinstance(n, ast.Return)] if rt is not None else []
    at_nl = rets[0] if rets else (rt if rt is not None else prep)
    chunks = [(p_, f._chunk()) for ev in (ev1, ev2) for k, p_, m, f in ev if k == "open" and m in _APPEND_MODES and isinstance(p_, str) and posixpath.basename(p_) != "docker-compose.yml"]
    if chunks and all(isinstance(t, str) for _, t in chunks):
        glued = [(p_, t) for p_, t in chunks if not t.endswith("\n")]
        chk.ob("O13.3", text, not glued, at_nl, "" if not glued else f"model tree: the chunk appended to `{glued[0][0]}` is {glued[0][1]!r}: the next config base's snippet continues on the same line")
    elif rt is None:
        chk.unknown("O13.3", f"{text}: no appended chunk of the model run could be evaluated and there is no _render_template(env, variables, file_name) to evaluate instead", at_nl)
    else:
        sim3 = Sim(repo, externals=_mirror_world([]))
        outs = []
        try:
            for name in ("elasticsearch.yml", "empty.yml"):
                outs.append(sim3.invoke(Fn(rt, pv), [], {rp[0]: _JinjaEnv(loader=_Loader(_S1)), rp[1]: {"marker": "M"}, rp[2]: posixpath.join(_S1, name)}))
        except (CannotEval, Raised):
            outs = None
        if outs is None or not all(isinstance(o, str) for o in outs):
            chk.unknown("O13.3", f"{text}: neither the appended chunks nor {rt.name} could be evaluated on the model templates ({_why(sim3)})", at_nl)
        else:
            ok = outs[0] == f"<{_S1}/elasticsearch.yml|M>\n" and outs[1] == "\n"
            chk.ob("O13.3", text, ok, at_nl, "" if ok else f"model templates render to {outs!r}; expected the rendered text followed by exactly one newline")
    # ---- the text / binary predicate on file names -----------------------------------------------------------------------------------------------------------------------------
    pt = pv.func("plain_text")
    text = "text/binary predicate is one extension table (incl. .yml .options .properties)"
    TEXT, BINARY = (".yml", ".yaml", ".options", ".properties", ".json", ".ini", ".txt"), (".jks", ".jar", ".p12", ".zip", ".so")
    sim4 = Sim(repo)
    got = {}
    try:
        for ext in TEXT + BINARY:
            got[ext] = sim4.invoke(Fn(pt, pv), ["/src/config/file-1.2" + ext], {})
    except (CannotEval, Raised) as x:
        got = None
    if got is None or any(sim4.unknown(v) for v in got.values()):
        chk.unknown("O13.3", f"{text}: {pt.name} could not be evaluated on file names ({_why(sim4)})", pt)
    else:
        bad = [e for e in TEXT if not sim4.truth(got[e])] + [e for e in BINARY if sim4.truth(got[e])]
        chk.ob("O13.3", text, not bad, pt, "" if not bad else f"file names ending in {bad} are classified {'binary' if bad[0] in TEXT else 'text'}")
    # ---- every config base is applied, in order -----------------------------------------------------------------------------------------------------------------------------------
    text = "every config base is applied, in order"
    loops = [n for n in walk_body(prep) if isinstance(n, ast.For) and isinstance(n.target, ast.Name) and last_attr(n.iter) == "config_source_paths"]
    lp_ = loops[0] if loops else prep
    if site1 is prep and j1 is not None:
        # from the end-to-end run: everything that was done for the first config source path happened before anything that was done for the second one
        def root_of(e):
            k, a, b, f = e
            hay = [x for x in (a, b, f._chunk() if k == "open" and f is not None else None) if isinstance(x, str)]
            return next((r for r in (_S1, _S2) if any(r + "/" in h for h in hay)), None)
        order = [r for r in (root_of(e) for e in ev1 if e[0] in ("open", "copy")) if r is not None]
        blind = bool(sim1.notes or _relevant_unknown(sim1, [_S1, _S2, _ModelInstaller.HOME]))
        if _S1 not in order or _S2 not in order:
            missing = [r for r in (_S1, _S2) if r not in order]
            if blind or not order:
                chk.unknown("O13.3", f"{text}: nothing was seen to be done for {missing}, but the run was not fully interpreted ({_why(sim1)})", lp_)
            else:
                chk.ob("O13.3", text, False, lp_, f"model installer with the config source paths {[_S1, _S2]}: nothing is done for {missing}")
        else:
            ok = order == sorted(order, key=[_S1, _S2].index)
            chk.ob("O13.3", text, ok, lp_, "" if ok else f"model installer with the config source paths {[_S1, _S2]}: the files were handled in the order {_dedupe(order)} / interleaved")
    else:
        # fallback: a recorder in place of the injected function
        try:
            loc = loc or _locate_apply_config(pv, BP, binit, prep, rt, rp)
            st["applied"] = _simulate_bare_prepare(repo, pv, BP, prep, binit, loc["ac_param"])
        except AnchorMissing as x:
            st["applied"] = (None, sim1, str(x))
        calls, sim5, why5 = st["applied"]
        if calls is None or not calls:
            chk.unknown("O13.3", f"{text}: {source.qualname(prep)} could not be interpreted over the model installer ({why5 or 'no config base was applied; ' + _why(sim5)})", lp_)
        else:
            srcs = [c["src"] for c in calls if c["src"] in (_S1, _S2)]
            off = [c for c in calls if c["src"] in (_S1, _S2) and c["tgt"] != _ModelInstaller.HOME]
            ok = srcs == [_S1, _S2] and not off
            chk.ob("O13.3", text, ok, lp_, "" if ok else f"model installer with the config source paths {[_S1, _S2]} and the installation in {_ModelInstaller.HOME!r}: applied {[(c['src'], c['tgt']) for c in calls]!r}")
    csp = pv.methods(EI).get("config_source_paths")
    text = "config source paths are the car's config paths (as accumulated)"
    if csp is None:
        chk.unknown("O13.3", f"{text}: ElasticsearchInstaller.config_source_paths not found", EI)
    else:
        sim6 = Sim(repo)
        inst = Obj(ClassRef(EI, pv))
        inst.fields[_car_field(pv, EI)] = _ModelCar()
        try:
            got = sim6.getattr(inst, csp.name)
            got = sim6.call_value(got, [], {}) if isinstance(got, Fn) else got
        except (CannotEval, Raised):
            got = OPAQUE
        if not isinstance(got, (list, tuple)) or not sim6.known(got):
            chk.unknown("O13.3", f"{text}: {source.qualname(csp)} could not be evaluated for a model car ({_why(sim6)})", csp)
        else:
            chk.ob("O13.3", text, list(got) == [_S1, _S2], csp, "" if list(got) == [_S1, _S2] else f"model car with the config paths {[_S1, _S2]}: the installer reports {list(got)!r}")


class _ModelPlugin(Native):
    def __init__(self):
        self.name, self.moved_to_module, self.core_plugin, self.config, self.root_path, self.config_paths = "model-plugin", False, True, ["default"], None, ["/plugins/model-plugin/templates"]
        self.variables = {"plugin_only": "PLUGIN"}


class _ModelPluginInstaller(Native):
    """a plugin installer whose variables try to replace every node variable of Rally."""

    def __init__(self):
        self.plugin = _ModelPlugin()
        self.plugin_name = self.sub_plugin_name = "model-plugin"
        self.config_source_paths = ["/plugins/model-plugin/templates"]
        self.variables = dict({k: "PLUGIN" for k in INTERNAL_KEYS}, plugin_only="PLUGIN")

    def install(self, *a, **k):
        return None

    def invoke_install_hook(self, *a, **k):
        return None


class _ModelInstaller(Native):
    HOME = "/node/install/elasticsearch-9"

    def __init__(self):
        self.car = _ModelCar()
        self.es_home_path, self.install_dir, self.node_root_dir = self.HOME, "/node/install", "/node"
        self.node_ip, self.node_name, self.http_port, self.data_paths, self.java_home = "10.0.0.1", "rally-node-0", 39200, [self.HOME + "/data"], None
        self.config_source_paths = [_S1, _S2]
        self.node_variables = {k: "NODE" for k in INTERNAL_KEYS}
        self.variables = {**self.car.variables, **self.node_variables}

    def install(self, *a, **k):
        return None

    def delete_pre_bundled_configuration(self, *a, **k):
        return None

    def invoke_install_hook(self, *a, **k):
        return None


def _locate_apply_config(pv, BP, binit, prep, rt, rp):
    """the function that applies ONE config base, by field flow: `self.<a> = <parameter>` in BareProvisioner.__init__ whose default is a module-level function; its parameter roles
    from the call in prepare (the loop variable over the config source paths is the source root, the parameter that reaches the renderer is the variables)."""
    positional = binit.args.posonlyargs + binit.args.args
    dflt = dict(zip([a.arg for a in positional[len(positional) - len(binit.args.defaults):]], binit.args.defaults))
    dflt.update({a.arg: d for a, d in zip(binit.args.kwonlyargs, binit.args.kw_defaults) if d is not None})
    ac_set = [(n.targets[0].attr, n.value) for n in walk_body(binit) if isinstance(n, ast.Assign) and len(n.targets) == 1 and is_self_attr(n.targets[0]) and isinstance(n.value, ast.Name)
              and isinstance(dflt.get(n.value.id), ast.Name) and isinstance(pv.get(dflt[n.value.id].id, required=False), ast.FunctionDef)]
    if len(ac_set) != 1:
        raise AnchorMissing("BareProvisioner.__init__(..., apply_config=<module function>): the attribute that holds the function which applies one config base")
    ac_attr, acf = ac_set[0][0], pv.get(dflt[ac_set[0][1].id].id)
    acalls = [n for n in walk_body(prep) if isinstance(n, ast.Call) and is_self_attr(n.func, ac_attr)]
    srcp = tgtp = varp = None
    loops = [n for n in walk_body(prep) if isinstance(n, ast.For) and isinstance(n.target, ast.Name) and last_attr(n.iter) == "config_source_paths"]
    for c in acalls:
        b = source.bind_args(c, acf, skip_self=False)
        lv = [k for k, v in b.items() if isinstance(v, ast.Name) and any(v.id == l.target.id and any(x is c for x in ast.walk(l)) for l in loops)]
        if len(lv) == 1 and len(b) == 3:
            srcp = lv[0]
            break
    rcalls = [n for n in ast.walk(acf) if isinstance(n, ast.Call) and last_attr(n.func) == rt.name] if rt is not None else []
    varp = next((u(source.bind_args(c, rt, skip_self=False).get(rp[1])) for c in rcalls if u(source.bind_args(c, rt, skip_self=False).get(rp[1])) in params_of(acf)), None)
    aps = params_of(acf)
    if srcp is None or varp is None or len(aps) != 3 or srcp == varp:
        srcp, tgtp, varp = (aps + [None, None, None])[:3]  # positional convention (source root, target root, variables)
    else:
        tgtp = next(p_ for p_ in aps if p_ not in (srcp, varp))
    if None in (srcp, tgtp, varp):
        raise AnchorMissing(f"{acf.name}(source root, target root, variables)")
    return {"acf": acf, "ac_attr": ac_attr, "ac_param": ac_set[0][1].id, "srcp": srcp, "tgtp": tgtp, "varp": varp}


def _run_bare_prepare(repo, pv, BP, prep, binit):
    """BareProvisioner(<model installer>, [<model plugin installer>]).prepare(<binaries>) over the mirror world, end to end: the recorded file operations, the simulation,
    the (template, variables snapshot) pairs that reached the renderer, and why the run failed ('' if it did not)."""
    events = []
    sim = Sim(repo, externals=_mirror_world(events))
    if len(params_of(binit)) < 3:
        return events, sim, [], "BareProvisioner.__init__(self, es_installer, plugin_installers, ...)"
    _Template.SEEN.clear()
    try:
        bp = sim.construct(ClassRef(BP, pv), [_ModelInstaller(), [_ModelPluginInstaller()]], {})
        if sim.unknown(bp):
            return events, sim, [], f"the constructor could not be interpreted ({_why(sim)})"
        sim.call_value(sim.getattr(bp, prep.name), [{"elasticsearch": "/dist/elasticsearch.tar.gz", "model-plugin": "/dist/plugin.zip"}][:max(0, len(params_of(prep)) - 1)], {})
    except Raised as r:
        return events, sim, [], f"raises at line {getattr(r.node, 'lineno', '?')}"
    except CannotEval as x:
        return events, sim, [], str(x)
    return events, sim, [(p_, snap if snap is not None and sim.known(v) else None) for p_, v, snap in _Template.SEEN], ""


def _simulate_bare_prepare(repo, pv, BP, prep, binit, ac_param):
    """BareProvisioner(<model installer>, [<model plugin installer>], apply_config=<recorder>).prepare(<binaries>): the recorded applications of a config base
    [{src, tgt, vars (a snapshot)}], the simulation, and why it failed (if it did)."""
    calls = []
    sim = Sim(repo, externals=_mirror_world([]))

    def record(*a, **k):
        vals = list(a) + list(k.values())
        dicts = [v for v in vals if isinstance(v, dict)]
        strs = [v for v in vals if isinstance(v, str)]
        src = next((v for v in strs if v in (_S1, _S2) or v.startswith("/plugins/")), None)
        calls.append({"src": src, "tgt": next((v for v in strs if v is not src), None), "vars": (dict(dicts[0]) if len(dicts) == 1 and sim.known(dicts[0]) else None)})

    record._raw = True  # type: ignore[attr-defined]
    ps = params_of(binit)[1:]
    if len(ps) < 2 or ac_param not in ps + [a.arg for a in binit.args.kwonlyargs]:
        return None, sim, "BareProvisioner.__init__(self, es_installer, plugin_installers, ..., apply_config=...)"
    try:
        bp = sim.construct(ClassRef(BP, pv), [_ModelInstaller(), [_ModelPluginInstaller()]], {ac_param: record})
        if sim.unknown(bp):
            return None, sim, f"the constructor could not be interpreted ({_why(sim)})"
        sim.call_value(sim.getattr(bp, prep.name), [{"elasticsearch": "/dist/elasticsearch.tar.gz", "model-plugin": "/dist/plugin.zip"}][:max(0, len(params_of(prep)) - 1)], {})
    except Raised as r:
        return None, sim, f"raises at line {getattr(r.node, 'lineno', '?')}"
    except CannotEval as x:
        return None, sim, str(x)
    return calls, sim, ""


def rendered_variables_rules(chk, repo, pv, st):
    need = ("L5", "flow5", "pvf", "prep", "rt", "rp", "DP", "BP", "bare", "binit")
    for k in need:
        if k not in st:
            raise AnchorMissing(f"an earlier part of the check did not locate `{k}`")
    L5, flow5, pvf, prep, rt, rp, DP, BP, bare, binit = (st[k] for k in need)
    text = "bare provisioner: Rally's node variables are the last source of their keys (no car / plugin / user source is merged after them)"
    if not L5:
        chk.unknown("O13.5", f"{text}: the dict returned by {source.qualname(pvf)} was not modelled", pvf)
    else:
        over5 = overridable(L5, INTERNAL_KEYS, flow5)
        first_bad = next((L for _, L in sorted(over5.items()) if L is not None), None)
        chk.ob("O13.5", text, not over5 and not flow5.issues, (first_bad.node if first_bad is not None else (flow5.issues[0][1] if flow5.issues else pvf)),
               f"merge order: {[L.show() for L in L5]}" + "".join(f"; `{k}` is taken from {L.show() if L is not None else 'no source of Rally on every path'}" for k, L in sorted(over5.items())[:4]) +
               (f" (+{len(over5) - 4} more keys)" if len(over5) > 4 else "") + "".join(f"; {t}" for t, _ in flow5.issues),
               key=f"{_P}:BareProvisioner._provisioner_variables:node-variables-merged-last")
    # the composed variables reach the renderer, decided on VALUES: BareProvisioner.prepare is interpreted with a model installer (car variables, node variables "NODE") and a model
    # plugin installer whose variables try to replace every node variable ("PLUGIN"): every rendering of a template of the car's config bases received variables in which all of
    # Rally's node variables are Rally's and the car's variables are present (end to end; failing that, with a recorder in place of the function that applies one config base)
    text = "bare provisioner: every config base is rendered with the composed variables (unchanged between composition and rendering)"
    ev1, sim1, seen1, why1, end_to_end = bare
    at = next((n for n in walk_body(prep) if isinstance(n, ast.Call) and any(isinstance(a, ast.Name) for a in n.args) and is_self_attr(n.func) and isinstance(source.enclosing(n, ast.For), ast.For)), prep)
    if end_to_end and not why1:
        used = [(p_, snap) for p_, snap in seen1 if p_.startswith((_S1 + "/", _S2 + "/"))]
        sim5 = sim1
    else:
        try:
            calls, sim5, why5 = st["applied"] if "applied" in st else _simulate_bare_prepare(chk.repo, pv, BP, prep, binit, _locate_apply_config(pv, BP, binit, prep, rt, rp)["ac_param"])
        except AnchorMissing as x:
            calls, sim5, why5 = None, sim1, str(x)
        used = [(c["src"], c["vars"]) for c in calls if c["src"] in (_S1, _S2)] if calls else []
        why1 = why5
    if not used:
        chk.unknown("O13.5", f"{text}: {source.qualname(prep)} could not be interpreted over the model installer ({why1 or 'no template of a config base was rendered; ' + _why(sim5)})", at)
    elif any(snap is None for _, snap in used):
        chk.unknown("O13.5", f"{text}: the variables handed to the renderer could not be evaluated ({_why(sim5)})", at)
    else:
        bad = [(p_, k, snap.get(k)) for p_, snap in used for k in sorted(INTERNAL_KEYS) if snap.get(k) != "NODE"] + [(p_, "marker", snap.get("marker")) for p_, snap in used if snap.get("marker") != "CAR"] + \
              [(p_, "cleared", snap.get("cleared", "<not defined>")) for p_, snap in used if snap.get("cleared", "<not defined>") != ""]
        chk.ob("O13.5", text, not bad, at, f"{len(used)} rendering(s) / application(s) in the model run" + ("" if not bad else
               f"; `{bad[0][0]}` is rendered with `{bad[0][1]}` = {bad[0][2]!r} (model: node variables 'NODE', plugin variables 'PLUGIN', car variables marker='CAR' and cleared='')"))
    # docker provisioner: the same question for the attribute its templates are rendered with
    dinit = pv.methods(DP).get("__init__")
    if dinit is None:
        raise AnchorMissing("DockerProvisioner.__init__")
    car_attr = _car_field(pv, DP)
    dvar = ast.parse(f"self.{st['dvar_attr']}", mode="eval").body if st.get("dvar_attr") else None  # located by the model run of the docker provisioner
    if dvar is None and rt is not None:
        drc = [n for f_ in pv.methods(DP).values() for n in ast.walk(f_) if isinstance(n, ast.Call) and last_attr(n.func) == rt.name and not is_self_attr(n.func)]
        dvars = [source.bind_args(c, rt, skip_self=False).get(rp[1]) for c in drc]
        dvar = next((v for v in dvars if v is not None and is_self_attr(v)), None)
    if dvar is None:
        raise AnchorMissing("DockerProvisioner: the self attribute handed to _render_template as variables")
    flow6 = DictFlow(repo, pv)
    L6 = flow6.variable(dvar, dinit, DP, 0) or []
    t1 = "docker provisioner: car variables merged before Rally's node variables"
    t5 = "docker provisioner: Rally's node variables are the last source of their keys in the variables its templates are rendered with"
    if not L6:
        chk.unknown("O13.1", f"{t1}: how `{u(dvar)}` is built in {source.qualname(dinit)} was not modelled", dinit)
        chk.unknown("O13.5", f"{t5}: how `{u(dvar)}` is built in {source.qualname(dinit)} was not modelled", dinit)
        return
    CORE = {"network_host", "http_port", "transport_port", "data_paths", "node_name", "cluster_name"}
    DOCKER_KEYS = CORE | {"log_path", "install_root_path"}
    over6 = overridable(L6, DOCKER_KEYS, flow6)
    has_car = any(_is_car_vars(L, car_attr) for L in L6)
    if not has_car and any(L.origin == "user" for L in L6):
        chk.unknown("O13.1", f"{t1}: none of the merged sources {[L.show() for L in L6]} was recognised as the car's variables (`self.{car_attr}.variables`)", dinit)
    else:
        core_over = {k: L for k, L in over6.items() if k in CORE}
        ok = has_car and not core_over and not flow6.issues and all(L.must for L in L6 if _is_car_vars(L, car_attr))
        chk.ob("O13.1", t1, ok, L6[-1].node if isinstance(L6[-1].node, ast.AST) else dinit, f"merge order: {[L.show() for L in L6]}" + ("" if has_car else "; the car's variables are not merged at all"))
    elsewhere = [n for f_ in pv.methods(DP).values() if f_ is not dinit for n in walk_body(f_)
                 if (isinstance(n, ast.Call) and isinstance(n.func, ast.Attribute) and n.func.attr in ("update", "pop", "setdefault", "clear") and u(n.func.value) == u(dvar))
                 or (isinstance(n, ast.Assign) and any(u(t) == u(dvar) or (isinstance(t, ast.Subscript) and u(t.value) == u(dvar)) for t in n.targets))]
    bad6 = next((L for _, L in sorted(over6.items()) if L is not None), None)
    chk.ob("O13.5", t5, not over6 and not flow6.issues and not elsewhere,
           bad6.node if bad6 is not None else (elsewhere[0] if elsewhere else dinit), f"merge order: {[L.show() for L in L6]}" + "".join(f"; `{k}` is taken from {L.show() if L is not None else 'no source of Rally on every path'}" for k, L in sorted(over6.items())[:4]) +
           "".join(f"; {t}" for t, _ in flow6.issues) + (f"; changed again in {source.qualname(elsewhere[0])}" if elsewhere else ""),
           key=f"{_P}:DockerProvisioner.__init__:node-variables-merged-last")


def _section(chk, rid, what, fn):
    """one independent part of the check: a role that cannot be located makes THIS part 'not recognised' (exit 2) and leaves the other parts decided."""
    try:
        fn()
    except AnchorMissing as e:
        chk.unknown(rid, f"{what}: {e}")
    except CannotEval as e:
        chk.unknown(rid, f"{what}: could not be evaluated ({e})")
    except RecursionError:
        chk.unknown(rid, f"{what}: could not be evaluated (the interpreted code recurses too deeply)")
    except (TypeError, ValueError, KeyError, IndexError, AttributeError) as e:
        # a shape neither the model worlds nor the judgement of their records anticipated: this part is not recognised (never a verdict)
        chk.unknown(rid, f"{what}: could not be evaluated on this shape ({type(e).__name__}: {e})")


def run(chk):
    repo = chk.repo
    tm, pv = repo.module(_T), repo.module(_P)
    chk.use(tm, pv, "docs/car.rst")
    chk.explanation = (
        "Decided on VALUES wherever the property speaks about values: the analysed functions are INTERPRETED (a small AST interpreter in this module; no repository code is imported "
        "or run) over model worlds, and what they compute is compared with what the property demands. Car loader: team.load_car and CarLoader.load_car over a model team repository "
        "(three cars, one of them a mixin; four config bases, one without config.ini; car parameters) in which every clause of the documented precedence decides some key: config-base "
        "variables < car variables < car parameters, later cars over earlier ones, config bases in the order given without duplicates, at least one config base. Template mirroring: the "
        "function that applies one config base, DockerProvisioner.prepare and BareProvisioner.prepare over model template trees with recording models of os.walk / open / shutil / jinja2 "
        "(two same-named templates in different directories, a template that renders to nothing, binaries, a second base providing the same file): every file reaches target root + "
        "relative directory + name, text files are appended with the rendering of THEIR template ending in a newline, others are copied; the text/binary predicate on file names. "
        "cleanup over a model file system: nothing removed when preserving, every data path and the installation otherwise; with one path that cannot be removed the rest is still "
        "removed or the failure surfaces; with a data path that is a symbolic link the link is dealt with or the refusal surfaces; with the installation / a data path / every data path already gone every path that still "
        "exists is removed all the same. An empty definition (`key =`, `key:`) is a definition: the model team repository, the car parameters and the model car define keys with the empty "
        "string where the documented precedence lets them win. The model installation is not empty: every target path already holds a file with the same size / time stamp and other "
        "content (shallow comparisons say 'same', content comparisons 'different'); every binary file is copied all the same. Helper functions, comprehensions, other accumulator "
        "idioms, renamed locals / attributes compute the same values; what the interpreter cannot evaluate is 'not recognised', never a violation. "
        "Rally's node variables: the variables the templates are rendered with are modelled as ordered merge layers (followed through locals, dict displays, ChainMap, properties and - by "
        "constructor field flow - through the installer objects): for every node variable the last layer that can hold it is Rally's own; cross-checked on values in the model run of prepare."
    )
    chk.not_decided = "Jinja output, filesystem effects, configparser interpolation."

    chk.rule("O13.1", "merge order (later wins): config-base variables < car variables (car file < car params) in the loader; across cars accumulation in the given order; "
             "in the installer car variables < Rally's node variables (network host, ports, paths, names are in the last source)", 9,
             "any two sources defining one key: the documented precedence is inverted (e.g. a car overrides http_port, or --car-params does not override a mixin)")
    chk.rule("O13.2", "config bases are appended in the given order, guarded by `not in` (no duplicates, no re-ordering)", 3, "two cars sharing a config base: its templates are rendered twice (appended twice)")
    chk.rule("O13.3", "target path == join(target root, path of the file's directory relative to the source root, name); text files are opened in append mode and receive the rendered template "
             "which always ends with a newline; other files are copied verbatim; the text/binary predicate is one extension table; every config base is applied in order", 8,
             "a template in a sub-directory lands elsewhere; a second base overwrites instead of appending; appended text glued onto the previous last line")
    chk.rule("O13.4", "cleanup: on the preserve-true edge no delete is reachable; on the false edge every data path and the install dir are deleted (no filter)", 4,
             "preserve-install removes something; or a data path outside the install dir is left behind")
    chk.rule("O13.5", "the variables every config template is rendered with: for each of Rally's node variables (network host, ports, paths, names) the LAST merged source that can hold "
             "the key is a dict written by Rally that holds it on every path - no car, plugin or other user-controlled source is merged after it; and these composed variables are "
             "the ones handed to the renderer", 3,
             "a plugin variable / plugin parameter (or any later user source) named http_port, network_host, node_name, data_paths, ... replaces Rally's value in the rendered "
             "elasticsearch.yml while Rally itself (launcher, telemetry, cleanup) keeps using its own")

    chk.rule("O13.6", "stopping a node cleans up: every function that stops the nodes through a launcher (and every function that calls provisioner.cleanup at all) reaches "
             "provisioner.cleanup on every path that returns normally, once for every node configuration, whatever else happened on the way (race not found, no metrics store); the "
             "call hands over the preserve.install setting and the binary path + data paths of one and the same node configuration", 3,
             "`esrally stop` of a node whose race is unknown to the race store (never benchmarked, deleted, other machine): installation and data paths stay on disk although "
             "preserve-install is off; or the wrong directory / no data paths / a constant preserve flag are handed to cleanup")
    _section(chk, "O13.1", "car loader (team.load_car / CarLoader.load_car)", lambda: team_rules(chk, repo, tm))
    st = {}
    _section(chk, "O13.1", "variables of the installer / provisioners", lambda: installer_rules(chk, repo, pv, st))
    _section(chk, "O13.3", "template mirroring", lambda: mirroring_rules(chk, repo, pv, st))
    _section(chk, "O13.4", "cleanup", lambda: cleanup_rules(chk, repo, pv))
    _section(chk, "O13.5", "variables the templates are rendered with", lambda: rendered_variables_rules(chk, repo, pv, st))
    _section(chk, "O13.6", "the callers of cleanup", lambda: cleanup_reached_rule(chk, "O13.6", repo, pv))


from sa.selftest import V  # noqa: E402


_CFG_LOOP = "        for p in descriptor.config_paths:\n            if p not in all_config_paths:\n                all_config_paths.append(p)\n"
_LC_HEAD = "def load_car(repo: str, name: Collection[str], car_params: Optional[Mapping] = None) -> \"Car\":\n"
_APPEND_HELPER = "def _append_missing(target, candidates):\n    for candidate in candidates:\n        if candidate not in target:\n            target.append(candidate)\n\n\n"
_BASE_LOOP = ("        config_bases = config_base.split(\",\")\n\n        for base in config_bases:\n            if base:\n                root_path = os.path.join(self.cars_dir, base)\n                root_paths.append(root_path)\n"
              "                config_paths.append(os.path.join(root_path, \"templates\"))\n                config_file = os.path.join(root_path, \"config.ini\")\n                if io.exists(config_file):\n"
              "                    base_config = self._config_loader(config_file)\n                    self._copy_section(base_config, \"variables\", config_base_vars)\n")
_CFGLOADER_HEAD = "    def _config_loader(self, file_name: str) -> \"configparser.ConfigParser\":\n"
_RESOLVE_HELPER = ("    def _resolve_config_bases(self, config_bases):\n        root_paths, config_paths, config_base_vars = [], [], {}\n        for base in config_bases:\n            if not base:\n                continue\n"
                   "            root_path = os.path.join(self.cars_dir, base)\n            root_paths.append(root_path)\n            config_paths.append(os.path.join(root_path, \"templates\"))\n"
                   "            config_file = os.path.join(root_path, \"config.ini\")\n            if io.exists(config_file):\n                base_config = self._config_loader(config_file)\n"
                   "                self._copy_section(base_config, \"variables\", config_base_vars)\n        return root_paths, config_paths, config_base_vars\n\n")
_COPY_SECTION = ("    def _copy_section(self, cfg: \"configparser.ConfigParser\", section: str, target: MutableMapping[str, Any]) -> MutableMapping[str, Any]:\n"
                 "        if section in cfg.sections():\n            for k, v in cfg[section].items():\n                target[k] = v\n        return target\n")
_COPY_LOOP = "            for k, v in cfg[section].items():\n                target[k] = v\n"
_BIN_ELSE = "            else:\n                logger.info(\"Treating [%s] as binary and copying as is to [%s].\", source_file, target_file)\n                shutil.copy(source_file, target_file)\n"
_WIPE_ELSE = "    else:\n        logger.info(\"Wiping benchmark candidate installation at [%s].\", install_dir)\n"
_AC_HEAD = "def _apply_config(source_root_path, target_root_path, config_vars):\n"
_TARGET_HELPER = "def _target_file(target_root, source_root, walked, name):\n    return os.path.normpath(os.path.join(target_root, os.path.relpath(walked, source_root), name))\n\n\n"

VARIANTS = [
    V("loader: swap the two updates", "break", _T, "    variables.update(all_config_base_vars)\n    variables.update(all_car_vars)", "    variables.update(all_car_vars)\n    variables.update(all_config_base_vars)", "O13.1"),
    V("installer: car variables win", "break", _P, "        variables.update(self.car.variables)\n        variables.update(self.node_variables)", "        variables.update(self.node_variables)\n        variables.update(self.car.variables)", "O13.1"),
    V("car params before the car file", "break", _T, "        variables = self._copy_section(config, \"variables\", {})\n        # add all car params here to override any defaults\n        if car_params:\n            variables.update(car_params)",
      "        variables = dict(car_params) if car_params else {}\n        self._copy_section(config, \"variables\", variables)", "O13.1"),
    V("seed m1: car params not applied to mixins", "break", _T, "        variables = self._copy_section(config, \"variables\", {})\n        # add all car params here to override any defaults\n        if car_params:\n            variables.update(car_params)",
      "        variables = self._copy_section(config, \"variables\", {})\n        if len(config_paths) > 0 and car_params:\n            variables.update(car_params)", "O13.1"),
    V("cars sorted by name", "break", _T, "    for n in name:\n        descriptor = CarLoader(repo).load_car(n, car_params)", "    for n in sorted(name):\n        descriptor = CarLoader(repo).load_car(n, car_params)", "O13.1"),
    V("duplicate config bases", "break", _T, "            if p not in all_config_paths:\n                all_config_paths.append(p)", "            all_config_paths.append(p)", "O13.2"),
    V("bare: open with w", "break", _P, "                with open(target_file, mode=\"a\", encoding=\"utf-8\") as f:\n                    f.write(_render_template(env, config_vars, source_file))", "                with open(target_file, mode=\"w\", encoding=\"utf-8\") as f:\n                    f.write(_render_template(env, config_vars, source_file))", "O13.3"),
    V("docker: open with w", "break", _P, "                        with open(target_file, mode=\"a\", encoding=\"utf-8\") as f:\n                            f.write(_render_template(env, self.config_vars, source_file))", "                        with open(target_file, mode=\"w\", encoding=\"utf-8\") as f:\n                            f.write(_render_template(env, self.config_vars, source_file))", "O13.3"),
    V("bare: target without the relative root", "break", _P, "            target_file = os.path.join(absolute_target_root, name)\n            if plain_text", "            target_file = os.path.join(target_root_path, name)\n            if plain_text", "O13.3"),
    V("docker: car variables win", "break", _P, "        self.config_vars.update(self.car.variables)\n        self.config_vars.update(provisioner_defaults)", "        self.config_vars.update(provisioner_defaults)\n        self.config_vars.update(self.car.variables)", "O13.1"),
    V("seed m2: no forced trailing newline", "break", _P, "        return template.render(variables) + \"\\n\"", "        return template.render(variables)", "O13.3"),
    V("delete in the preserve branch", "break", _P, "        console.info(f\"Preserving benchmark candidate installation at [{install_dir}].\", logger=logger)", "        console.info(f\"Preserving benchmark candidate installation at [{install_dir}].\", logger=logger)\n        delete_path(install_dir)", "O13.4"),
    V("seed m3: data paths under the install dir skipped", "break", _P, "        for path in data_paths:\n            delete_path(path)", "        for path in data_paths:\n            if not path.startswith(install_dir):\n                delete_path(path)", "O13.4"),
    # F37 (repaired by 5172c30): plugin variables merged after Rally's node variables, nothing re-applied
    V("F37: node variables not re-applied after the plugin variables", "break", _P, "        provisioner_vars.update(plugin_variables)\n        # Rally's own node variables always win - also over plugin variables\n        provisioner_vars.update(self.es_installer.node_variables)\n",
      "        provisioner_vars.update(plugin_variables)\n", "O13.5"),
    V("F37: node variables re-applied BEFORE the plugin variables", "break", _P, "        provisioner_vars.update(plugin_variables)\n        # Rally's own node variables always win - also over plugin variables\n        provisioner_vars.update(self.es_installer.node_variables)\n",
      "        provisioner_vars.update(self.es_installer.node_variables)\n        provisioner_vars.update(plugin_variables)\n", "O13.5"),
    V("F37: node variables re-applied only when there are no plugins", "break", _P, "        provisioner_vars.update(self.es_installer.node_variables)\n",
      "        if not self.plugin_installers:\n            provisioner_vars.update(self.es_installer.node_variables)\n", "O13.5"),
    V("F37: a user-provided override merged last", "break", _P, "        provisioner_vars[\"cluster_settings\"] = cluster_settings\n\n        return provisioner_vars",
      "        provisioner_vars[\"cluster_settings\"] = cluster_settings\n        provisioner_vars.update(self.es_installer.car.variables)\n\n        return provisioner_vars", "O13.5"),
    V("F37: templates rendered with the installer's variables only", "break", _P, "        for p in self.es_installer.config_source_paths:\n            self.apply_config(p, target_root_path, provisioner_vars)",
      "        for p in self.es_installer.config_source_paths:\n            self.apply_config(p, target_root_path, {**provisioner_vars, **self.plugin_installers[0].variables} if self.plugin_installers else provisioner_vars)", "O13.5"),
    V("provisioner: plugin variables first, installer's variables second", "break", _P, "        provisioner_vars.update(self.es_installer.variables)\n        provisioner_vars.update(plugin_variables)\n",
      "        provisioner_vars.update(plugin_variables)\n        provisioner_vars.update(self.es_installer.variables)\n", "O13.1"),
    # preserving
    V("F37 respelled: one dict display", "keep", _P, "        provisioner_vars = {}\n        provisioner_vars.update(self.es_installer.variables)\n        provisioner_vars.update(plugin_variables)\n        # Rally's own node variables always win - also over plugin variables\n        provisioner_vars.update(self.es_installer.node_variables)\n        provisioner_vars[\"cluster_settings\"] = cluster_settings\n",
      "        provisioner_vars = {**self.es_installer.variables, **plugin_variables, **self.es_installer.node_variables, \"cluster_settings\": cluster_settings}\n"),
    V("F37 respelled: installer held in a local, node variables in a local, dict() copy", "keep", _P, "        provisioner_vars = {}\n        provisioner_vars.update(self.es_installer.variables)\n        provisioner_vars.update(plugin_variables)\n        # Rally's own node variables always win - also over plugin variables\n        provisioner_vars.update(self.es_installer.node_variables)\n",
      "        own = self.es_installer.node_variables\n        provisioner_vars = dict(self.es_installer.variables)\n        provisioner_vars.update(plugin_variables)\n        provisioner_vars.update(own)\n"),
    V("F37 respelled: node variables back in a local dict of the property, method instead of property for the re-application", "keep", _P,
      "        variables = {}\n        variables.update(self.car.variables)\n        variables.update(self.node_variables)\n        return variables",
      "        defaults = self.node_variables\n        variables = {}\n        variables.update(self.car.variables)\n        variables.update(defaults)\n        return variables"),
    V("F37 respelled: cluster settings first, node variables last", "keep", _P, "        provisioner_vars.update(self.es_installer.node_variables)\n        provisioner_vars[\"cluster_settings\"] = cluster_settings\n",
      "        provisioner_vars[\"cluster_settings\"] = cluster_settings\n        provisioner_vars.update(self.es_installer.node_variables)\n"),
    V("dict unpacking in the installer", "keep", _P, "        variables = {}\n        variables.update(self.car.variables)\n        variables.update(self.node_variables)\n        return variables", "        variables = {**self.car.variables, **self.node_variables}\n        return variables"),
    V("os.path.relpath", "keep", _P, "        relative_root = root[len(source_root_path) + 1 :]", "        relative_root = os.path.relpath(root, source_root_path)"),
    V("inverted preserve test", "keep", _P, "    if preserve:\n        console.info(f\"Preserving benchmark candidate installation at [{install_dir}].\", logger=logger)\n    else:\n        logger.info(\"Wiping benchmark candidate installation at [%s].\", install_dir)\n        for path in data_paths:\n            delete_path(path)\n\n        delete_path(install_dir)",
      "    if not preserve:\n        logger.info(\"Wiping benchmark candidate installation at [%s].\", install_dir)\n        for path in data_paths:\n            delete_path(path)\n\n        delete_path(install_dir)\n    else:\n        console.info(f\"Preserving benchmark candidate installation at [{install_dir}].\", logger=logger)"),
    # ---- hardening round 2: refactored shapes (decided on values by the simulation), each with the defect placed inside the refactored shape ------------------------------
    [V("h2 keep (C13-b1): de-duplication in a module helper", "keep", _T, _CFG_LOOP, "        _append_missing(all_config_paths, descriptor.config_paths)\n"),
     V("", "keep", _T, _LC_HEAD, _APPEND_HELPER + _LC_HEAD)],
    [V("h2 break: de-duplication helper appends unconditionally", "break", _T, _CFG_LOOP, "        _append_missing(all_config_paths, descriptor.config_paths)\n", "O13.2"),
     V("", "break", _T, _LC_HEAD, _APPEND_HELPER.replace("        if candidate not in target:\n            target.append(candidate)\n", "        target.append(candidate)\n") + _LC_HEAD)],
    [V("h2 break: de-duplication helper keeps the LAST occurrence (re-orders)", "break", _T, _CFG_LOOP, "        _append_missing(all_config_paths, descriptor.config_paths)\n", "O13.2"),
     V("", "break", _T, _LC_HEAD, _APPEND_HELPER.replace("        if candidate not in target:\n            target.append(candidate)\n", "        if candidate in target:\n            target.remove(candidate)\n        target.append(candidate)\n") + _LC_HEAD)],
    V("h2 keep: lazy generator fed to extend (sees the list grow)", "keep", _T, _CFG_LOOP, "        all_config_paths.extend(p for p in descriptor.config_paths if p not in all_config_paths)\n"),
    V("h2 break: list comprehension fed to extend (a base one car names twice is applied twice)", "break", _T, _CFG_LOOP, "        all_config_paths.extend([p for p in descriptor.config_paths if p not in all_config_paths])\n", "O13.2"),
    V("h2 keep: dict.fromkeys de-duplication", "keep", _T, _CFG_LOOP, "        all_config_paths = list(dict.fromkeys(all_config_paths + list(descriptor.config_paths)))\n"),
    V("h2 break: set de-duplication (order lost)", "break", _T, _CFG_LOOP, "        all_config_paths = list(set(all_config_paths) | set(descriptor.config_paths))\n", "O13.2"),
    [V("h2 keep: descriptors loaded by a comprehension, dict displays as accumulators", "keep", _T, "    for n in name:\n        descriptor = CarLoader(repo).load_car(n, car_params)\n", "    for descriptor in [CarLoader(repo).load_car(n, car_params) for n in name]:\n"),
     V("", "keep", _T, "        all_config_base_vars.update(descriptor.config_base_variables)\n        all_car_vars.update(descriptor.variables)\n",
       "        all_config_base_vars = {**all_config_base_vars, **descriptor.config_base_variables}\n        all_car_vars = all_car_vars | descriptor.variables\n"),
     V("", "keep", _T, "    variables.update(all_config_base_vars)\n    variables.update(all_car_vars)\n", "    variables = {**all_config_base_vars, **all_car_vars}\n")],
    [V("h2 break: the same shape, earlier car wins", "break", _T, "    for n in name:\n        descriptor = CarLoader(repo).load_car(n, car_params)\n", "    for descriptor in [CarLoader(repo).load_car(n, car_params) for n in name]:\n", "O13.1"),
     V("", "break", _T, "        all_config_base_vars.update(descriptor.config_base_variables)\n        all_car_vars.update(descriptor.variables)\n",
       "        all_config_base_vars = {**all_config_base_vars, **descriptor.config_base_variables}\n        all_car_vars = descriptor.variables | all_car_vars\n")],
    V("h2 break: enumerate over the reversed names", "break", _T, "    for n in name:\n        descriptor = CarLoader(repo).load_car(n, car_params)\n", "    for _i, n in enumerate(reversed(name)):\n        descriptor = CarLoader(repo).load_car(n, car_params)\n", "O13.1"),
    [V("h2 keep (C13-b1): config bases resolved in a helper method", "keep", _T, _BASE_LOOP, "        root_paths, config_paths, config_base_vars = self._resolve_config_bases(config_base.split(\",\"))\n"),
     V("", "keep", _T, _CFGLOADER_HEAD, _RESOLVE_HELPER + _CFGLOADER_HEAD)],
    [V("h2 break: the helper visits the bases sorted by name", "break", _T, _BASE_LOOP, "        root_paths, config_paths, config_base_vars = self._resolve_config_bases(config_base.split(\",\"))\n", "O13.2"),
     V("", "break", _T, _CFGLOADER_HEAD, _RESOLVE_HELPER.replace("for base in config_bases:", "for base in sorted(config_bases):") + _CFGLOADER_HEAD)],
    [V("h2 break: the helper lets the FIRST base win", "break", _T, _BASE_LOOP, "        root_paths, config_paths, config_base_vars = self._resolve_config_bases(config_base.split(\",\"))\n", "O13"),
     V("", "break", _T, _CFGLOADER_HEAD, _RESOLVE_HELPER.replace("self._copy_section(base_config, \"variables\", config_base_vars)", "config_base_vars = {**self._copy_section(base_config, \"variables\", {}), **config_base_vars}") + _CFGLOADER_HEAD)],
    V("h2 keep: car parameters merged by a dict display", "keep", _T, "        variables = self._copy_section(config, \"variables\", {})\n        # add all car params here to override any defaults\n        if car_params:\n            variables.update(car_params)\n",
      "        variables = {**self._copy_section(config, \"variables\", {}), **(car_params or {})}\n"),
    V("h2 break: the car file wins over the car parameters in that display", "break", _T, "        variables = self._copy_section(config, \"variables\", {})\n        # add all car params here to override any defaults\n        if car_params:\n            variables.update(car_params)\n",
      "        variables = {**(car_params or {}), **self._copy_section(config, \"variables\", {})}\n", "O13.1"),
    V("h2 keep (C13-b3): extension table as a module-level frozenset", "keep", _P, "    return ext in [\".ini\", \".txt\", \".json\", \".yml\", \".yaml\", \".options\", \".properties\"]\n",
      "    return ext in PLAIN_TEXT_EXTENSIONS\n\n\nPLAIN_TEXT_EXTENSIONS = frozenset({\".ini\", \".txt\", \".json\", \".yml\", \".yaml\", \".options\", \".properties\"})\n"),
    V("h2 break: the module-level table lost .options", "break", _P, "    return ext in [\".ini\", \".txt\", \".json\", \".yml\", \".yaml\", \".options\", \".properties\"]\n",
      "    return ext in PLAIN_TEXT_EXTENSIONS\n\n\nPLAIN_TEXT_EXTENSIONS = frozenset({\".ini\", \".txt\", \".json\", \".yml\", \".yaml\", \".properties\"})\n", "O13.3"),
    V("h2 keep: text/binary decided by endswith on a tuple", "keep", _P, "    _, ext = io.splitext(file)\n    return ext in [\".ini\", \".txt\", \".json\", \".yml\", \".yaml\", \".options\", \".properties\"]\n",
      "    return file.endswith((\".ini\", \".txt\", \".json\", \".yml\", \".yaml\", \".options\", \".properties\"))\n"),
    V("h2 break: everything but .jar is text", "break", _P, "    return ext in [\".ini\", \".txt\", \".json\", \".yml\", \".yaml\", \".options\", \".properties\"]\n", "    return ext != \".jar\"\n", "O13.3"),
    V("h2 keep: one loop over data paths and installation", "keep", _P, "        for path in data_paths:\n            delete_path(path)\n\n        delete_path(install_dir)\n", "        for path in [*data_paths, install_dir]:\n            delete_path(path)\n"),
    V("h2 break: that loop skips the first data path", "break", _P, "        for path in data_paths:\n            delete_path(path)\n\n        delete_path(install_dir)\n", "        for path in [*data_paths[1:], install_dir]:\n            delete_path(path)\n", "O13.4"),
    V("h2 break: the installation's parent directory is removed", "break", _P, "        delete_path(install_dir)\n", "        delete_path(os.path.dirname(install_dir))\n", "O13.4"),
    [V("h2 keep: target path in a helper, rendered text in a local", "keep", _P, "            target_file = os.path.join(absolute_target_root, name)\n            if plain_text", "            target_file = _target_file(target_root_path, source_root_path, root, name)\n            if plain_text"),
     V("", "keep", _P, "                with open(target_file, mode=\"a\", encoding=\"utf-8\") as f:\n                    f.write(_render_template(env, config_vars, source_file))\n",
       "                rendered = _render_template(env, config_vars, source_file)\n                with open(target_file, \"a\", encoding=\"utf-8\") as f:\n                    f.write(rendered)\n"),
     V("", "keep", _P, _AC_HEAD, _TARGET_HELPER + _AC_HEAD)],
    [V("h2 break: the helper forgets the relative directory", "break", _P, "            target_file = os.path.join(absolute_target_root, name)\n            if plain_text", "            target_file = _target_file(target_root_path, source_root_path, root, name)\n            if plain_text", "O13.3"),
     V("", "break", _P, _AC_HEAD, _TARGET_HELPER.replace("os.path.join(target_root, os.path.relpath(walked, source_root), name)", "os.path.join(target_root, name)") + _AC_HEAD)],
    V("h2 break: the rendered text is written only when it is not blank (local + guard)", "break", _P, "                with open(target_file, mode=\"a\", encoding=\"utf-8\") as f:\n                    f.write(_render_template(env, config_vars, source_file))\n",
      "                rendered = _render_template(env, config_vars, source_file)\n                if rendered.strip():\n                    with open(target_file, \"a\", encoding=\"utf-8\") as f:\n                        f.write(rendered)\n", "O13.3"),
    V("h2 keep: the installer reports a copy of the car's config paths", "keep", _P, "        return self.car.config_paths\n", "        return list(self.car.config_paths)\n"),
    V("h2 break: the installer reports them sorted", "break", _P, "        return self.car.config_paths\n", "        return sorted(self.car.config_paths, reverse=True)\n", "O13.3"),
    [V("h2 keep: config bases applied by a helper method of the provisioner", "keep", _P, "        for p in self.es_installer.config_source_paths:\n            self.apply_config(p, target_root_path, provisioner_vars)\n", "        self._apply_all(self.es_installer.config_source_paths, target_root_path, provisioner_vars)\n"),
     V("", "keep", _P, "    def _provisioner_variables(self):\n", "    def _apply_all(self, paths, target, variables):\n        for path in paths:\n            self.apply_config(path, target, variables)\n\n    def _provisioner_variables(self):\n")],
    [V("h2 break: that helper stops after the first config base", "break", _P, "        for p in self.es_installer.config_source_paths:\n            self.apply_config(p, target_root_path, provisioner_vars)\n", "        self._apply_all(self.es_installer.config_source_paths, target_root_path, provisioner_vars)\n", "O13.3"),
     V("", "break", _P, "    def _provisioner_variables(self):\n", "    def _apply_all(self, paths, target, variables):\n        for path in paths:\n            self.apply_config(path, target, variables)\n            break\n\n    def _provisioner_variables(self):\n")],
    [V("h2 break: that helper lets the plugin variables through", "break", _P, "        for p in self.es_installer.config_source_paths:\n            self.apply_config(p, target_root_path, provisioner_vars)\n", "        self._apply_all(self.es_installer.config_source_paths, target_root_path, provisioner_vars)\n", "O13.5"),
     V("", "break", _P, "    def _provisioner_variables(self):\n", "    def _apply_all(self, paths, target, variables):\n        for installer in self.plugin_installers:\n            variables = {**variables, **installer.variables}\n        for path in paths:\n            self.apply_config(path, target, variables)\n\n    def _provisioner_variables(self):\n")],
    V("h2 keep: the renderer is renamed", "keep", _P, "_render_template(env, ", "_render_config(env, ", count=3),
    [V("h2 keep: the newline is written by the callers instead of the renderer", "keep", _P, "        return template.render(variables) + \"\\n\"", "        return template.render(variables)"),
     V("", "keep", _P, "                    f.write(_render_template(env, config_vars, source_file))\n", "                    f.write(_render_template(env, config_vars, source_file))\n                    f.write(\"\\n\")\n"),
     V("", "keep", _P, "                            f.write(_render_template(env, self.config_vars, source_file))\n", "                            f.write(_render_template(env, self.config_vars, source_file))\n                            f.write(\"\\n\")\n")],
    [V("h2 break: ... but the docker provisioner forgets it", "break", _P, "        return template.render(variables) + \"\\n\"", "        return template.render(variables)", "O13.3"),
     V("", "break", _P, "                    f.write(_render_template(env, config_vars, source_file))\n", "                    f.write(_render_template(env, config_vars, source_file))\n                    f.write(\"\\n\")\n")],
    V("h2 keep: EAFP lookup in CarLoader._value", "keep", _T, "            if not isinstance(current_cfg, str) and k in current_cfg:\n                current_cfg = current_cfg[k]\n            else:\n                return default\n",
      "            if isinstance(current_cfg, str):\n                return default\n            try:\n                current_cfg = current_cfg[k]\n            except KeyError:\n                return default\n"),
    [V("h2 keep: pathlib in the function that applies a config base", "keep", _P, "            target_file = os.path.join(absolute_target_root, name)\n            if plain_text", "            target_file = pathlib.Path(absolute_target_root) / name\n            if plain_text"),
     V("", "keep", _P, "                with open(target_file, mode=\"a\", encoding=\"utf-8\") as f:\n                    f.write(_render_template(env, config_vars, source_file))\n",
       "                with target_file.open(mode=\"a\", encoding=\"utf-8\") as f:\n                    f.write(_render_template(env, config_vars, source_file))\n"),
     V("", "keep", _P, "import glob\n", "import glob\nimport pathlib\n")],
    [V("h2 break: pathlib, write_text instead of appending", "break", _P, "            target_file = os.path.join(absolute_target_root, name)\n            if plain_text", "            target_file = pathlib.Path(absolute_target_root) / name\n            if plain_text", "O13.3"),
     V("", "break", _P, "                with open(target_file, mode=\"a\", encoding=\"utf-8\") as f:\n                    f.write(_render_template(env, config_vars, source_file))\n",
       "                target_file.write_text(_render_template(env, config_vars, source_file), encoding=\"utf-8\")\n"),
     V("", "break", _P, "import glob\n", "import glob\nimport pathlib\n")],
    [V("h2 keep: removal helper at module level under another name, suppress instead of try", "keep", _P,
       "    def delete_path(p):\n        if os.path.exists(p):\n            try:\n                logger.debug(\"Deleting [%s].\", p)\n                shutil.rmtree(p)\n            except OSError:\n                logger.exception(\"Could not delete [%s]. Skipping...\", p)\n\n",
       "    def delete_path(p):\n        _remove_tree(p, logger)\n\n"),
     V("", "keep", _P, "def cleanup(preserve, install_dir, data_paths):\n", "def _remove_tree(p, logger):\n    if os.path.exists(p):\n        logger.debug(\"Deleting [%s].\", p)\n        with contextlib.suppress(OSError):\n            shutil.rmtree(p)\n\n\ndef cleanup(preserve, install_dir, data_paths):\n"),
     V("", "keep", _P, "import glob\n", "import contextlib\nimport glob\n")],
    [V("h2 break: suppress around the whole loop", "break", _P, "        for path in data_paths:\n            delete_path(path)\n\n        delete_path(install_dir)\n",
       "        with contextlib.suppress(OSError):\n            for path in data_paths:\n                delete_path(path)\n            delete_path(install_dir)\n", "O13.4"),
     V("", "break", _P, "            try:\n                logger.debug(\"Deleting [%s].\", p)\n                shutil.rmtree(p)\n            except OSError:\n                logger.exception(\"Could not delete [%s]. Skipping...\", p)\n",
       "            logger.debug(\"Deleting [%s].\", p)\n            shutil.rmtree(p)\n"),
     V("", "break", _P, "import glob\n", "import contextlib\nimport glob\n")],
    V("h2 keep: installer variables through a ChainMap (first mapping wins)", "keep", _P, "        variables = {}\n        variables.update(self.car.variables)\n        variables.update(self.node_variables)\n        return variables",
      "        import collections\n\n        return dict(collections.ChainMap(self.node_variables, self.car.variables))"),
    V("h2 break: ChainMap with the car's variables first", "break", _P, "        variables = {}\n        variables.update(self.car.variables)\n        variables.update(self.node_variables)\n        return variables",
      "        import collections\n\n        return dict(collections.ChainMap(self.car.variables, self.node_variables))", "O13"),
    V("h4 keep: _copy_section as a @staticmethod, bulk update, has_section (benign C13-b11)", "keep", _T, _COPY_SECTION,
      "    @staticmethod\n    def _copy_section(cfg, section, target):\n        if cfg.has_section(section):\n            target.update(cfg[section])\n        return target\n"),
    V("h4 break: ... that fills a copy of the target (config-base variables never reach the descriptor)", "break", _T, _COPY_SECTION,
      "    @staticmethod\n    def _copy_section(cfg, section, target):\n        target = dict(target)\n        if cfg.has_section(section):\n            target.update(cfg[section])\n        return target\n", "O13.1"),
    V("h4 break: ... in which the option defined first wins (an earlier config base beats a later one)", "break", _T, _COPY_SECTION,
      "    @staticmethod\n    def _copy_section(cfg, section, target):\n        if cfg.has_section(section):\n            for k, v in cfg[section].items():\n                target.setdefault(k, v)\n        return target\n", "O13"),
    [V("h4 keep: _copy_section as a @classmethod with the target first", "keep", _T, _COPY_SECTION,
       "    @classmethod\n    def _copy_section(cls, target, cfg, section):\n        if cfg.has_section(section):\n            target.update(cfg[section])\n        return target\n"),
     V("", "keep", _T, "self._copy_section(base_config, \"variables\", config_base_vars)", "self._copy_section(config_base_vars, base_config, \"variables\")"),
     V("", "keep", _T, "self._copy_section(config, \"variables\", {})", "self._copy_section({}, config, \"variables\")")],
    [V("h4 break: ... that empties the target first (only the last config base's variables survive)", "break", _T, _COPY_SECTION,
       "    @classmethod\n    def _copy_section(cls, target, cfg, section):\n        if cfg.has_section(section):\n            target.clear()\n            target.update(cfg[section])\n        return target\n", "O13.1"),
     V("", "break", _T, "self._copy_section(base_config, \"variables\", config_base_vars)", "self._copy_section(config_base_vars, base_config, \"variables\")"),
     V("", "break", _T, "self._copy_section(config, \"variables\", {})", "self._copy_section({}, config, \"variables\")")],
    # ---- strengthening round 5 ------------------------------------------------------------------------------------------------------------------------------------------------
    # (a) an empty definition is a definition (seed m13)
    V("s5 seed m13: options with an empty value are not copied from the [variables] section", "break", _T, _COPY_LOOP, "            for k, v in cfg[section].items():\n                if v:\n                    target[k] = v\n", "O13.1"),
    V("s5 break: blank values filtered in a bulk update of the section reader", "break", _T, _COPY_LOOP, "            target.update({k: v for k, v in cfg[section].items() if v.strip()})\n", "O13.1"),
    V("s5 break: the composition merges only the non-empty car variables", "break", _T, "        all_car_vars.update(descriptor.variables)\n", "        all_car_vars.update({k: v for k, v in descriptor.variables.items() if v})\n", "O13.1"),
    V("s5 break: an empty config-base variable only fills a gap (never replaces an earlier base's value)", "break", _T, "        all_config_base_vars.update(descriptor.config_base_variables)\n",
      "        for k, v in descriptor.config_base_variables.items():\n            if v or k not in all_config_base_vars:\n                all_config_base_vars[k] = v\n", "O13.1"),
    V("s5 break: car parameters with an empty value are dropped", "break", _T, "            variables.update(car_params)\n", "            variables.update({k: v for k, v in car_params.items() if v != \"\"})\n", "O13.1"),
    V("s5 break: the provisioner drops the empty variables before rendering", "break", _P, "            self.apply_config(p, target_root_path, provisioner_vars)\n",
      "            self.apply_config(p, target_root_path, {k: v for k, v in provisioner_vars.items() if v != \"\"})\n", "O13.5"),
    V("s5 keep: the section reader skips None (configparser never yields None here)", "keep", _T, _COPY_LOOP, "            for k, v in cfg[section].items():\n                if v is not None:\n                    target[k] = v\n"),
    V("s5 keep: the section reader goes through options() / get()", "keep", _T, _COPY_LOOP, "            for k in cfg.options(section):\n                target[k] = cfg.get(section, k)\n"),
    # (b) a binary file reaches the installation whatever is there already (seed m14)
    [V("s5 seed m14: binary file not copied when a shallow filecmp.cmp says the target is identical", "break", _P, _BIN_ELSE,
       "            elif os.path.isfile(target_file) and filecmp.cmp(source_file, target_file):\n                logger.info(\"Treating [%s] as binary. [%s] is already identical.\", source_file, target_file)\n" + _BIN_ELSE, "O13.3"),
     V("", "break", _P, "import glob\n", "import filecmp\nimport glob\n")],
    V("s5 break: binary file only copied when the target does not exist yet (the first config base / a left-over wins)", "break", _P, _BIN_ELSE, "            elif not os.path.exists(target_file):\n" + _BIN_ELSE[len("            else:\n"):], "O13.3"),
    V("s5 break: binary file only copied when the sizes differ", "break", _P, _BIN_ELSE,
      "            elif not os.path.isfile(target_file) or os.path.getsize(source_file) != os.path.getsize(target_file):\n" + _BIN_ELSE[len("            else:\n"):], "O13.3"),
    V("s5 break: the docker provisioner keeps an existing file", "break", _P, "                        shutil.copy(source_file, target_file)\n",
      "                        if not os.path.isfile(target_file):\n                            shutil.copy(source_file, target_file)\n", "O13.3"),
    [V("s5 keep: the copy is skipped only when the CONTENTS are equal (filecmp.cmp(shallow=False))", "keep", _P, _BIN_ELSE,
       "            elif os.path.isfile(target_file) and filecmp.cmp(source_file, target_file, shallow=False):\n                logger.info(\"Treating [%s] as binary. [%s] is already identical.\", source_file, target_file)\n" + _BIN_ELSE),
     V("", "keep", _P, "import glob\n", "import filecmp\nimport glob\n")],
    V("s5 keep: an existing target is only mentioned in the log", "keep", _P, _BIN_ELSE,
      _BIN_ELSE[:len("            else:\n")] + "                if os.path.lexists(target_file):\n                    logger.debug(\"Replacing [%s].\", target_file)\n" + _BIN_ELSE[len("            else:\n"):]),
    # (c) no removal depends on the existence of another path (seed m15)
    V("s5 seed m15: cleanup does nothing when the installation is already gone", "break", _P, _WIPE_ELSE,
      "    elif not os.path.exists(install_dir):\n        logger.info(\"Benchmark candidate installation at [%s] has already been wiped.\", install_dir)\n" + _WIPE_ELSE, "O13.4"),
    V("s5 break: the data paths are only visited while the installation exists", "break", _P, "        for path in data_paths:\n            delete_path(path)\n\n        delete_path(install_dir)\n",
      "        if os.path.isdir(install_dir):\n            for path in data_paths:\n                delete_path(path)\n            delete_path(install_dir)\n", "O13.4"),
    V("s5 break: the loop stops at the first data path that is already gone", "break", _P, "        for path in data_paths:\n            delete_path(path)\n",
      "        for path in data_paths:\n            if not os.path.exists(path):\n                break\n            delete_path(path)\n", "O13.4"),
    V("s5 break: nothing is done when no data path is left (the installation survives)", "break", _P, _WIPE_ELSE,
      "    elif not any(os.path.exists(p) for p in data_paths):\n        logger.info(\"Nothing left to wipe for [%s].\", install_dir)\n" + _WIPE_ELSE, "O13.4"),
    V("s5 keep: the missing installation is only logged, the data paths are still removed", "keep", _P, _WIPE_ELSE,
      "    else:\n        if not os.path.exists(install_dir):\n            logger.info(\"Benchmark candidate installation at [%s] has already been wiped.\", install_dir)\n        logger.info(\"Wiping benchmark candidate installation at [%s].\", install_dir)\n"),
    V("s5 keep: EAFP in delete_path (FileNotFoundError ignored instead of the exists test)", "keep", _P,
      "        if os.path.exists(p):\n            try:\n                logger.debug(\"Deleting [%s].\", p)\n                shutil.rmtree(p)\n            except OSError:\n                logger.exception(\"Could not delete [%s]. Skipping...\", p)\n",
      "        try:\n            logger.debug(\"Deleting [%s].\", p)\n            shutil.rmtree(p)\n        except FileNotFoundError:\n            pass\n        except OSError:\n            logger.exception(\"Could not delete [%s]. Skipping...\", p)\n"),
    # O13.6: the callers of cleanup (stop sub-command, Mechanic.stop_engine)
    V("seed m18: stop cleans up only when the race is known to the race store", "break", _M, "        metrics_store.close()\n\n    provisioner.cleanup(\n        preserve=cfg.opts(\"mechanic\", \"preserve.install\"), install_dir=node_config.binary_path, data_paths=node_config.data_paths\n    )\n",
      "        metrics_store.close()\n\n        provisioner.cleanup(\n            preserve=cfg.opts(\"mechanic\", \"preserve.install\"), install_dir=node_config.binary_path, data_paths=node_config.data_paths\n        )\n", "O13.6"),
    V("s6 break: stop returns early when the race was not found", "break", _M, "    _delete_node_file(root_path)\n\n    if current_race:\n", "    _delete_node_file(root_path)\n\n    if current_race is None:\n        return\n    if current_race:\n", "O13.6"),
    [V("s6 break: stop_engine cleans up inside the try block that stores the results (skipped when the race is not found)", "break", _M,
       "                self._add_results(current_race, node)\n        except exceptions.NotFound as e:",
       "                self._add_results(current_race, node)\n            for node_config in self.node_configs:\n                provisioner.cleanup(preserve=self.preserve_install, install_dir=node_config.binary_path, data_paths=node_config.data_paths)\n        except exceptions.NotFound as e:", "O13.6"),
     V("", "break", _M, "        self.nodes = []\n        for node_config in self.node_configs:\n            provisioner.cleanup(preserve=self.preserve_install, install_dir=node_config.binary_path, data_paths=node_config.data_paths)\n        self.node_configs = []\n", "        self.nodes = []\n        self.node_configs = []\n")],
    V("s6 break: stop_engine skips node configurations in its loop", "break", _M, "        for node_config in self.node_configs:\n            provisioner.cleanup(", "        for node_config in self.node_configs:\n            if node_config.build_type == \"docker\":\n                continue\n            provisioner.cleanup(", "O13.6"),
    V("s6 break: stop_engine cleans up all but the first node configuration", "break", _M, "        for node_config in self.node_configs:\n            provisioner.cleanup(", "        for node_config in self.node_configs[1:]:\n            provisioner.cleanup(", "O13.6"),
    V("s6 break: stop never cleans up", "break", _M, "    provisioner.cleanup(\n        preserve=cfg.opts(\"mechanic\", \"preserve.install\"), install_dir=node_config.binary_path, data_paths=node_config.data_paths\n    )\n", "    logging.getLogger(__name__).info(\"Stopped.\")\n", "O13.6"),
    V("s6 break: the node root instead of the binary path", "break", _M, "preserve=cfg.opts(\"mechanic\", \"preserve.install\"), install_dir=node_config.binary_path,", "preserve=cfg.opts(\"mechanic\", \"preserve.install\"), install_dir=node_config.node_root_path,", "O13.6"),
    V("s6 break: the preserve flag is a constant", "break", _M, "preserve=cfg.opts(\"mechanic\", \"preserve.install\"), install_dir", "preserve=False, install_dir", "O13.6"),
    V("s6 break: preserve read from another setting", "break", _M, "        self.preserve_install = cfg.opts(\"mechanic\", \"preserve.install\")", "        self.preserve_install = cfg.opts(\"mechanic\", \"skip.rest.api.check\")", "O13.6"),
    V("s6 break: no data paths handed over", "break", _M, "provisioner.cleanup(preserve=self.preserve_install, install_dir=node_config.binary_path, data_paths=node_config.data_paths)", "provisioner.cleanup(preserve=self.preserve_install, install_dir=node_config.binary_path, data_paths=[])", "O13.6"),
    [V('s6 keep: the cleanup loop of stop_engine in a helper method', "keep", _M, '        for node_config in self.node_configs:\n            provisioner.cleanup(preserve=self.preserve_install, install_dir=node_config.binary_path, data_paths=node_config.data_paths)\n        self.node_configs = []\n', '        self._wipe_installations()\n', 'O13.6'),
     V('', "keep", _M, '    def _current_race(self):\n', '    def _wipe_installations(self):\n        for node_config in list(self.node_configs):\n            provisioner.cleanup(preserve=self.preserve_install, install_dir=node_config.binary_path, data_paths=node_config.data_paths)\n        self.node_configs = []\n\n    def _current_race(self):\n')],
    [V('s6 keep: stop reads the setting first, guard clause around the results, positional arguments', "keep", _M, '    node_launcher.stop(nodes, metrics_store)\n    _delete_node_file(root_path)\n', '    keep = cfg.opts("mechanic", "preserve.install")\n    node_launcher.stop(nodes, metrics_store)\n    _delete_node_file(root_path)\n', 'O13.6'),
     V('', "keep", _M, '    provisioner.cleanup(\n        preserve=cfg.opts("mechanic", "preserve.install"), install_dir=node_config.binary_path, data_paths=node_config.data_paths\n    )\n', '    binaries = node_config.binary_path\n    provisioner.cleanup(keep, binaries, node_config.data_paths)\n')],
    [V('s6 keep: results stored in a helper that returns early without a race', "keep", _M, '    if current_race:\n        metrics_store.flush(refresh=True)\n        for node in nodes:\n            results = metrics.calculate_system_results(metrics_store, node.node_name)\n            current_race.add_results(results)\n            metrics.results_store(cfg).store_results(current_race)\n\n        metrics_store.close()\n', '    _persist_results(cfg, current_race, metrics_store, nodes)\n', 'O13.6'),
     V('', "keep", _M, 'def _load_node_file(root_path):\n', 'def _persist_results(cfg, current_race, metrics_store, nodes):\n    if not current_race:\n        return\n    metrics_store.flush(refresh=True)\n    for node in nodes:\n        results = metrics.calculate_system_results(metrics_store, node.node_name)\n        current_race.add_results(results)\n        metrics.results_store(cfg).store_results(current_race)\n    metrics_store.close()\n\n\ndef _load_node_file(root_path):\n')],
]
