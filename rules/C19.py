"""C19 — fast-path response parsing agrees with full JSON parsing (DESIGN.md section 4, C19)."""
from __future__ import annotations

import ast
import itertools
import re._parser as sre_parse  # regex ASTs (stdlib)

from sa import source
from sa.cfg import cfg_of, guards
from sa.minieval import CannotEval, ev
from sa.source import AnchorMissing, dotted, is_self_attr, last_attr, local_defs, params_of, short, u, walk_body
from sa.sym import UnknownAtom, atoms_of
from sa.tables import Outcome, Unsupported, decide

_R = "esrally/driver/runner.py"

# representative bulk items: status x _shards
ITEMS = []
for status in (200, 201, 299, 300, 404, 409, 429):
    for shards in ("absent", 0, 1):
        d = {"_index": "i", "_id": "1", "status": status}
        if shards != "absent":
            d["_shards"] = {"total": 2, "successful": 2 - shards, "failed": shards}
        if status > 299:
            d["error"] = {"type": "x", "reason": "r"}
        ITEMS.append(d)
# failing items WITHOUT an error object (delete of a missing document: 404 / result not_found) and a successful item that carries one anyway
ITEMS.append({"_index": "i", "_id": "1", "status": 404, "result": "not_found", "_shards": {"total": 2, "successful": 2, "failed": 0}})
ITEMS.append({"_index": "i", "_id": "1", "status": 404, "result": "not_found"})
ITEMS.append({"_index": "i", "_id": "1", "status": 200, "result": "noop", "error": None, "_shards": {"total": 2, "successful": 2, "failed": 0}})


def structural_class_groups(pattern: str):
    """capture groups whose content is delimited by a negated character class over JSON-structural characters."""
    out = []
    try:
        tree = sre_parse.parse(pattern)
    except Exception:
        return None

    def walk(items, in_group=None):
        for op, av in items:
            name = str(op)
            if name == "SUBPATTERN":
                gid, _, _, sub = av
                walk(sub, gid if gid is not None else in_group)
            elif name in ("MAX_REPEAT", "MIN_REPEAT", "POSSESSIVE_REPEAT"):
                walk(av[2], in_group)
            elif name == "BRANCH":
                for b in av[1]:
                    walk(b, in_group)
            elif name == "IN" and in_group is not None:
                neg = any(str(o) == "NEGATE" for o, _ in av)
                lits = {chr(v) for o, v in av if str(o) == "LITERAL"}
                if neg and lits & set(']}",'):
                    out.append((in_group, sorted(lits)))
            elif name == "NOT_LITERAL" and in_group is not None and chr(av) in ']}",':
                out.append((in_group, [chr(av)]))

    walk(tree)
    return out


def run(chk):
    repo = chk.repo
    rn = repo.module(_R)
    chk.use(rn)
    chk.explanation = (
        "Decides agreement of sibling fast/slow paths and the shape of textual extraction: the bulk item loop of the detailed and of the fast path abstractly interpreted over 21 "
        "representative items (status x _shards) must classify each item as failed iff status > 299 or _shards.failed > 0, identically in both; success == (error count == 0) in both; "
        "no JSON value's end is delimited by a regex character class / find on a structural character (regex AST query) and offsets found in one text are only applied to that same text; "
        "the selective parser matches on full ijson prefixes, derives member keys by stripping the object's own path, and exits early only when everything requested was seen. "
        "Known findings: fast-path gate does not summarise the _shards.failed disjunct (F10); the cursor key is located by a nesting-insensitive text search (F9b)."
    )
    chk.not_decided = "equivalence on all JSON texts, hit/page accounting arithmetic, ijson's own behaviour."
    BI = rn.cls("BulkIndex")
    bm = rn.methods(BI)
    det, simp = bm.get("detailed_stats"), bm.get("simple_stats")
    if det is None or simp is None:
        raise AnchorMissing("BulkIndex.detailed_stats / simple_stats")

    # ---- O19.1 sibling agreement on the item predicate -----------------------------------------------------------------------------------------
    chk.rule("O19.1", "in both the detailed and the fast path every bulk item is counted as failed iff status > 299 or _shards.failed > 0 (21 representative items), as succeeded otherwise; "
             "success == (error count == 0); error details extracted for failed items", 44,
             "a bulk response with that item: success/error counts differ between the two paths and from a full parse")

    def item_loop(f):
        for n in walk_body(f):
            if isinstance(n, ast.For) and isinstance(n.iter, ast.Subscript) and source.is_const(n.iter.slice, "items"):
                return n
        raise AnchorMissing(f"loop over response['items'] in {f.name}")

    def counter_names(f):
        """(error counter, success counter): the locals reported under 'error-count' / 'success-count'."""
        for n in walk_body(f):
            if isinstance(n, ast.Dict):
                d = {k.value: v for k, v in zip(n.keys, n.values) if isinstance(k, ast.Constant)}
                if isinstance(d.get("error-count"), ast.Name) and isinstance(d.get("success-count"), ast.Name):
                    return d["error-count"].id, d["success-count"].id
        raise AnchorMissing(f"result dict with error-count / success-count in {f.name}")

    tables = {}
    for f in (det, simp):
        L = item_loop(f)
        itemv = L.target.id
        ERRC, OKC = counter_names(f)

        def classify(item):
            env = {itemv: {"index": item}}
            counters = {"err": 0, "ok": 0, "details": 0}

            def run_block(stmts):
                for s in stmts:
                    if isinstance(s, ast.Assign) and len(s.targets) == 1:
                        t = s.targets[0]
                        try:
                            val = ev(s.value, env)
                        except CannotEval:
                            if isinstance(t, ast.Name) and any(isinstance(x, ast.Name) and x.id in env for x in ast.walk(s.value)) and ("status" in u(s.value) or "_shards" in u(s.value) or "item" in u(s.value)):
                                raise
                            continue
                        if isinstance(t, ast.Name):
                            env[t.id] = val
                        elif isinstance(t, ast.Tuple) and all(isinstance(x, ast.Name) for x in t.elts):
                            for x, v in zip(t.elts, val):
                                env[x.id] = v
                    elif isinstance(s, ast.AugAssign) and isinstance(s.target, ast.Name):
                        if s.target.id == ERRC:
                            counters["err"] += 1
                        elif s.target.id == OKC:
                            counters["ok"] += 1
                    elif isinstance(s, ast.If):
                        txt = u(s.test)
                        relevant = any(k in txt for k in ("status", "_shards", "failed", "error")) or any(
                            isinstance(x, ast.AugAssign) and isinstance(x.target, ast.Name) and x.target.id in (ERRC, OKC) for x in ast.walk(s))
                        if not relevant:
                            continue
                        run_block(s.body if ev(s.test, env) else s.orelse)
                    elif isinstance(s, ast.Expr) and isinstance(s.value, ast.Call) and last_attr(s.value.func) == "extract_error_details":
                        counters["details"] += 1
                    elif isinstance(s, (ast.Expr, ast.AugAssign, ast.Pass)):
                        continue
                    else:
                        raise CannotEval(f"statement {type(s).__name__} at line {s.lineno}")

            run_block(L.body)
            return counters

        rows = []
        for item in ITEMS:
            inst = f"{f.name}: item status={item['status']} _shards={'absent' if '_shards' not in item else 'failed=' + str(item['_shards']['failed'])}" + \
                ("" if ("error" in item) == (item["status"] > 299) else (" without error object" if "error" not in item else " with error: null"))
            want_fail = item["status"] > 299 or ("_shards" in item and item["_shards"]["failed"] > 0)
            try:
                c = classify(item)
            except CannotEval as e:
                chk.unknown("O19.1", f"item loop of {f.name} cannot be interpreted over the item domain: {e}", L)
                rows.append(None)
                continue
            got = "failed" if (c["err"], c["ok"]) == (1, 0) else ("succeeded" if (c["err"], c["ok"]) == (0, 1) else f"err+={c['err']} ok+={c['ok']}")
            rows.append(got)
            ok = got == ("failed" if want_fail else "succeeded") and (not want_fail or c["details"] == 1)
            chk.ob("O19.1", inst, ok, L, f"counted as {got}" + (f", error details extracted {c['details']}x" if want_fail else "") + f"; full parse: {'failed' if want_fail else 'succeeded'}",
                   key=f"{_R}:BulkIndex.{f.name}:item:{item['status']}|{'absent' if '_shards' not in item else item['_shards']['failed']}" + ("" if ("error" in item) == (item["status"] > 299) else "|odd-error"))
        tables[f.name] = rows
    chk.ob("O19.1", "detailed and fast path agree on every representative item", tables.get("detailed_stats") == tables.get("simple_stats"), det, "")
    for f in (det, simp):
        dicts = [n for n in walk_body(f) if isinstance(n, ast.Dict) and any(source.is_const(k, "success") for k in n.keys)]
        ok = False
        if dicts:
            d = {k.value: v for k, v in zip(dicts[0].keys, dicts[0].values) if isinstance(k, ast.Constant)}
            ec_, oc_ = counter_names(f)
            from sa import pat as _pat
            ok = _pat.is_(d.get("success"), f"{ec_} == 0", f"not {ec_}", f"{ec_} < 1") and ec_ != oc_
        chk.ob("O19.1", f"{f.name}: success == (error count == 0); counts reported under their names", ok, dicts[0] if dicts else f, "")
        inits = [n for n in walk_body(f) if isinstance(n, ast.Assign) and u(n.targets[0]) == counter_names(f)[0] and source.is_const(n.value, 0)]
        chk.ob("O19.1", f"{f.name}: error count starts at 0", len(inits) == 1 and not guards(inits[0]), inits[0] if inits else f, "")
    # fast path: success count when no errors are flagged == bulk size (docs), reset to 0 before counting items
    sdefs = [n for n in walk_body(simp) if isinstance(n, ast.Assign) and u(n.targets[0]) == counter_names(simp)[1]]
    ok = len(sdefs) == 2 and isinstance(sdefs[0].value, ast.IfExp) and u(sdefs[0].value.body) == params_of(simp)[1] and source.is_const(sdefs[1].value, 0) and bool(guards(sdefs[1]))
    chk.ob("O19.1", "fast path: success count == bulk size unless items are inspected (then recounted from 0)", ok, sdefs[0] if sdefs else simp, "")
    full = [n for n in walk_body(simp) if isinstance(n, ast.Call) and dotted(n.func) == "json.loads"]
    ok = bool(full) and any("errors" in u(t) and pol for t, pol in guards(full[0]))
    chk.ob("O19.1", "fast path re-parses fully when errors are flagged", ok, full[0] if full else simp, "")

    # ---- O19.4 known finding F10 ---------------------------------------------------------------------------------------------------------------------
    chk.rule("O19.4", "the fast-path gate (top-level `errors` flag) summarises every disjunct of the item failure predicate", 1,
             "item with status 201 and _shards.failed=1 while errors=false: fast path reports success 1/0, detailed path failure 0/1")
    L = item_loop(simp)
    gate = [t for t, pol in guards(L) if pol]
    gated_by_errors = any("errors" in u(t) for t in gate)
    pred_has_shards = any("_shards" in u(n.test) for n in ast.walk(L) if isinstance(n, ast.If))
    chk.ob("O19.4", "fast-path gate vs `_shards.failed > 0`", not (gated_by_errors and pred_has_shards), L,
           "items are only inspected when the response's `errors` flag is set, but the item predicate also fails items with _shards.failed > 0, which Elasticsearch does not reflect in `errors`",
           key=f"{_R}:BulkIndex.simple_stats:gate-vs-item-predicate:_shards.failed")

    # ---- O19.2 value boundaries ----------------------------------------------------------------------------------------------------------------------------
    chk.rule("O19.2", "no JSON value handed to a JSON decoder has its END delimited by a regex character class or a text search on a structural character; offsets found in one text are "
             "applied only to that same text (not bytes offsets on the decoded string)", 3,
             "sort value containing ']' or a nested array; non-ASCII text before the last hit")
    SA = rn.cls("SearchAfterExtractor")
    sm = rn.methods(SA)
    gl = sm.get("_get_last_sort")
    if gl is None:
        raise AnchorMissing("SearchAfterExtractor._get_last_sort")
    pats = {}
    for n in ast.walk(SA):
        if isinstance(n, ast.Assign) and isinstance(n.value, ast.Call) and dotted(n.value.func) == "re.compile" and isinstance(n.value.args[0], ast.Constant):
            pats[u(n.targets[0])] = (n.value.args[0].value, n)
    for n in ast.walk(SA):
        if isinstance(n, ast.Call) and dotted(n.func) in ("re.search", "re.match", "re.findall", "re.finditer", "re.fullmatch") and n.args and isinstance(n.args[0], ast.Constant) and isinstance(n.args[0].value, str):
            pats[f"<inline pattern @ line {n.lineno}>"] = (n.args[0].value, n)
    gdefs = local_defs(gl)
    decs = [n for n in walk_body(gl) if isinstance(n, ast.Call) and (dotted(n.func) == "json.loads" or last_attr(n.func) == "raw_decode")]
    if not decs:
        raise AnchorMissing("JSON decoding call in _get_last_sort")
    for d in decs:
        if dotted(d.func) == "json.loads":
            a = d.args[0]
            # value from a regex group?
            ai = source.inline_node(a, gdefs)
            if any(isinstance(x, ast.Call) and last_attr(x.func) in ("group", "groups") for x in ast.walk(ai)):
                bad = []
                for pname, (ptxt, pn) in pats.items():
                    g_ = structural_class_groups(ptxt)
                    if g_:
                        bad.append((pname, ptxt, g_))
                chk.ob("O19.2", "json.loads(<regex group>)", not bad, d, f"the decoded text is cut out by {[(p, t) for p, t, _ in bad]}: the group ends at the first structural character, wherever it occurs" if bad else "group not delimited by a structural character class",
                       key=f"{_R}:SearchAfterExtractor._get_last_sort:value-end-by-char-class")
            else:
                chk.ob("O19.2", "json.loads on a complete text", True, d, "")
        else:
            chk.ob("O19.2", "value end found by JSONDecoder.raw_decode", True, d, short(d, 80))
    for pname, (ptxt, pn) in pats.items():
        g_ = structural_class_groups(ptxt)
        if g_ is None:
            chk.unknown("O19.2", f"pattern {ptxt!r} does not parse", pn)
        else:
            used_for_value = any(isinstance(n, ast.Call) and last_attr(n.func) == "group" for n in walk_body(gl))
            chk.ob("O19.2", f"pattern {pname} does not delimit a value by a structural character class", not (g_ and used_for_value), pn, f"{ptxt!r}: {g_}")
    # offset/text agreement
    texts = {}
    for n in walk_body(gl):
        if isinstance(n, ast.Assign) and isinstance(n.targets[0], ast.Name) and isinstance(n.value, ast.Call) and last_attr(n.value.func) in ("rfind", "find", "index", "rindex"):
            texts[n.targets[0].id] = u(n.value.func.value)
    n_off = 0
    for n in walk_body(gl):
        tgt = None
        used = set()
        if isinstance(n, ast.Subscript) and isinstance(n.slice, ast.Slice):
            tgt = u(n.value)
            used = {x.id for x in ast.walk(n.slice) if isinstance(x, ast.Name)}
        elif isinstance(n, ast.Call) and last_attr(n.func) == "raw_decode" and len(n.args) == 2:
            tgt = u(n.args[0])
            used = {x.id for x in ast.walk(n.args[1]) if isinstance(x, ast.Name)}
        elif isinstance(n, ast.Call) and last_attr(n.func) in ("search", "match") and len(n.args) >= 3:
            tgt = u(n.args[1])
            used = {x.id for x in ast.walk(n.args[2]) if isinstance(x, ast.Name)}
        for v in used & set(texts):
            n_off += 1
            ok = texts[v] == tgt
            chk.ob("O19.2", f"offset `{v}` (found in `{texts[v]}`) applied to `{tgt}`", ok, n, "" if ok else "an offset found in one text (e.g. the raw bytes) indexes another (the decoded string): they differ by the number of multi-byte characters before it")
    chk.ob("O19.2", "offset uses located", n_off >= 1, gl, f"{n_off} use(s)")
    # decoded once: the text searched is the decoded response
    dec = [n for n in walk_body(gl) if isinstance(n, ast.Call) and last_attr(n.func) == "decode"]
    chk.ob("O19.2", "response decoded as UTF-8 before searching", bool(dec) and any(source.is_const(a, "UTF-8") or source.is_const(a, "utf-8") for a in dec[0].args), dec[0] if dec else gl, "")

    # ---- O19.5 known finding F9b ----------------------------------------------------------------------------------------------------------------------------
    chk.rule("O19.5", "the cursor key of the last hit is located structurally, not by a nesting-insensitive text search", 1,
             "last hit sort [20] followed by inner_hits with sort [999] -> cursor [999]; matched_queries ['sort'] -> cursor None")
    rf = [n for n in walk_body(gl) if isinstance(n, ast.Call) and last_attr(n.func) in ("rfind", "rindex") and n.args and isinstance(n.args[0], ast.Constant) and "sort" in str(n.args[0].value)]
    chk.ob("O19.5", "last `sort` key located by text search", not rf, rf[0] if rf else gl, "rfind('\"sort\"') on the raw text picks the textually last occurrence at any nesting depth (or inside a string)",
           key=f"{_R}:SearchAfterExtractor._get_last_sort:rfind-sort-key")

    # ---- O19.6 cursor threading ---------------------------------------------------------------------------------------------------------------------------------
    chk.rule("O19.6", "paginated search: the cursor sent with the next page is the extractor's result for the response just received (search_after := last sort; composite after := after_key), "
             "pages == weight == number of requests issued; hit totals are taken from the first page only", 6,
             "a page is fetched twice / skipped because a stale cursor (or the previous page's) is sent")
    Q = rn.cls("Query")
    qcall = rn.methods(Q).get("__call__")
    if qcall is None:
        raise AnchorMissing("Query.__call__")
    inner = {n.name: n for n in ast.walk(qcall) if isinstance(n, (ast.AsyncFunctionDef, ast.FunctionDef))}
    for fname, extractor, cursor_key, cur_src in (("_search_after_query", "_search_after_extractor", "search_after", "last_sort"), ("_composite_agg", "_composite_agg_extractor", "after", "after_key")):
        f = inner.get(fname)
        if f is None:
            raise AnchorMissing(f"Query.{fname}")
        gq = cfg_of(f)
        lp = [n for n in walk_body(f) if isinstance(n, ast.For) and isinstance(n.iter, ast.Call) and dotted(n.iter.func) == "range"]
        if not lp:
            raise AnchorMissing(f"page loop in {fname}")
        PL_ = lp[0]
        rq = [n for n in ast.walk(PL_) if isinstance(n, ast.Await) and isinstance(n.value, ast.Call) and u(n.value.func) == "self._raw_search"]
        ex_ = [n for n in ast.walk(PL_) if isinstance(n, ast.Call) and u(n.func) == f"self.{extractor}"]
        ok = len(rq) == 1 and len(ex_) == 1
        resp = u(source.enclosing_stmt(rq[0]).targets[0]) if ok and isinstance(source.enclosing_stmt(rq[0]), ast.Assign) else None
        ok = ok and resp is not None and u(ex_[0].args[0]) == resp and gq.dominated_by_nodes(gq.node_of(ex_[0]), [gq.node_of(rq[0])]) and not gq.path_exists(gq.node_of(ex_[0]), gq.node_of(rq[0]), avoid=[gq.node_of(PL_)])
        chk.ob("O19.6", f"{fname}: one request per page, its own response handed to the extractor", ok, ex_[0] if ex_ else PL_, "")
        st = [n for n in ast.walk(PL_) if isinstance(n, ast.Assign) and isinstance(n.targets[0], ast.Subscript) and source.is_const(n.targets[0].slice, cursor_key)]
        ok = len(st) == 1 and u(st[0].value) == cur_src
        if ok:
            # the cursor variable is bound from the extractor's result of this iteration
            binds = [n for n in ast.walk(PL_) if isinstance(n, ast.Assign) and any(isinstance(x, ast.Name) and x.id == cur_src and isinstance(x.ctx, ast.Store) for t in n.targets for x in ast.walk(t))]
            ok = len(binds) == 1 and (binds[0].value is ex_[0] or u(binds[0].value) == "parsed['after_key']") and gq.dominated_by_nodes(gq.node_of(st[0]), [gq.node_of(binds[0])])
        chk.ob("O19.6", f"{fname}: next cursor := the extractor's result for this page", ok, st[0] if st else PL_, short(st[0], 70) if st else "cursor never set")
        pg = {u(n.targets[0].slice): u(n.value) for n in ast.walk(PL_) if isinstance(n, ast.Assign) and isinstance(n.targets[0], ast.Subscript) and u(n.targets[0].value) == "results" and isinstance(n.targets[0].slice, ast.Constant)}
        iv = PL_.target.id
        ok = pg.get("'pages'") == iv and pg.get("'weight'") == iv and u(PL_.iter.args[0]) == "1"
        chk.ob("O19.6", f"{fname}: pages == weight == requests issued", ok, PL_, f"{ {k: v for k, v in pg.items() if k in (chr(39)+'pages'+chr(39), chr(39)+'weight'+chr(39))} }")
        hs = [n for n in ast.walk(PL_) if isinstance(n, ast.Assign) and isinstance(n.targets[0], ast.Subscript) and source.is_const(n.targets[0].slice, "hits")]
        ok = len(hs) == 1 and any(pol and u(t) == "results.get('hits') is None" for t, pol in guards(hs[0], stop=PL_))
        chk.ob("O19.6", f"{fname}: hit total taken from the first page only", ok, hs[0] if hs else PL_, "")

    # ---- O19.7 flags accumulated over pages are sticky -------------------------------------------------------------------------------------------------
    chk.rule("O19.7", "multi-page searches (scroll, search_after, composite): `timed_out` is true if ANY page reported it (a later page can only turn it on), `took` is summed", 5,
             "an earlier page timed out, the last one did not: the reported flag says the search did not time out (a full parse of all pages says it did)")
    from sa import pat as _p7
    Q = rn.cls("Query")
    n7 = 0
    for fn in [n for n in ast.walk(Q) if isinstance(n, (ast.FunctionDef, ast.AsyncFunctionDef))]:
        loops7 = [n for n in walk_body(fn) if isinstance(n, (ast.For, ast.While, ast.AsyncFor))]
        if not loops7:
            continue
        names = {}
        for d_ in [n for n in walk_body(fn) if isinstance(n, ast.Dict)]:
            for k_, v_ in zip(d_.keys, d_.values):
                if isinstance(k_, ast.Constant) and k_.value in ("timed_out", "took") and isinstance(v_, ast.Name):
                    names[v_.id] = k_.value
        for lp in loops7:
            lv = lp.target.id if isinstance(lp, ast.For) and isinstance(lp.target, ast.Name) else None
            for st_ in ast.walk(lp):
                if not isinstance(st_, (ast.Assign, ast.AugAssign)) or source.enclosing_func(st_) is not fn or source.enclosing(st_, (ast.For, ast.While, ast.AsyncFor)) is not lp:
                    continue
                tg = st_.targets[0] if isinstance(st_, ast.Assign) else st_.target
                role = names.get(tg.id) if isinstance(tg, ast.Name) else (tg.slice.value if isinstance(tg, ast.Subscript) and isinstance(tg.slice, ast.Constant) and tg.slice.value in ("timed_out", "took") else None)
                if role is None:
                    continue
                if lv and _p7.guarded(st_, f"{lv} == 0", stop=lp) is not None:
                    continue  # first page: plain initialisation
                n7 += 1
                acc = u(tg)
                if role == "timed_out":
                    v = st_.value
                    sticky = (isinstance(st_, ast.Assign) and isinstance(v, ast.BoolOp) and isinstance(v.op, ast.Or) and any(u(x) == acc for x in v.values)) \
                        or (isinstance(st_, ast.AugAssign) and isinstance(st_.op, ast.BitOr)) \
                        or any(_p7.match(f_, "not E_a") is not None and _p7.match(f_, "not E_a")["a"] == acc for f_ in _p7.fact_nodes(st_, stop=lp)) \
                        or (isinstance(v, ast.Call) and dotted(v.func) in ("max", "any") and acc in u(v))
                    chk.ob("O19.7", f"{fn.name}: timed_out of a later page can only turn the flag on", sticky, st_, short(st_, 80) + ("" if sticky else " — the last page's value replaces an earlier `true`"),
                           key=f"{_R}:Query.{fn.name}:sticky:timed_out")
                else:
                    summed = (isinstance(st_, ast.AugAssign) and isinstance(st_.op, ast.Add)) or (isinstance(st_, ast.Assign) and isinstance(st_.value, ast.BinOp) and isinstance(st_.value.op, ast.Add) and acc in u(st_.value))
                    chk.ob("O19.7", f"{fn.name}: took is summed over the pages", summed, st_, short(st_, 80), key=f"{_R}:Query.{fn.name}:sum:took")
    chk.ob("O19.7", "page accumulators located (scroll, search_after, composite)", n7 >= 5, Q, f"{n7} in-loop store(s)")

    # ---- O19.3 selective parser ------------------------------------------------------------------------------------------------------------------------------
    chk.rule("O19.3", "the selective parser matches requested properties / lists / objects on the full ijson prefix; member keys of a collected object are the prefix with the object's own path "
             "stripped; early exit only when all requested properties, lists and objects were seen; an incomplete document ends the scan silently", 7,
             "a property with the same leaf name at another depth is returned; dotted member keys are mangled; extraction stops before a later requested value")
    pf = rn.func("parse")
    pp = params_of(pf)
    loops = [n for n in walk_body(pf) if isinstance(n, ast.For) and isinstance(n.target, ast.Tuple) and len(n.target.elts) == 3]
    if not loops:
        raise AnchorMissing("event loop `for prefix, event, value in parser` in parse()")
    PL = loops[0]
    pre, evn, val = [t.id for t in PL.target.elts]
    st = [n for n in ast.walk(PL) if isinstance(n, ast.Assign) and isinstance(n.targets[0], ast.Subscript) and u(n.targets[0].value) == "parsed"]
    ok = len(st) == 1 and u(st[0].targets[0].slice) == pre and u(st[0].value) == val and any(pol and u(t) == f"{pre} in {pp[1]}" for t, pol in guards(st[0], stop=PL))
    chk.ob("O19.3", "property matched on the full prefix and stored under it", ok, st[0] if st else PL, "")
    for kind, param, event in (("list", pp[2], "start_array"), ("object start", pp[3], "start_map"), ("object end", pp[3], "end_map")):
        found = False
        for n in ast.walk(PL):
            if isinstance(n, ast.If):
                ats = [u(a) for a in atoms_of(n.test)]
                if f"{pre} in {param}" in ats and f"{evn} == '{event}'" in ats:
                    found = True
        chk.ob("O19.3", f"{kind} matched on full prefix and event", found, PL, "")
    mk = [n for n in ast.walk(PL) if isinstance(n, ast.Assign) and isinstance(n.targets[0], ast.Subscript) and u(n.targets[0].value) == "current_object"]
    ok = False
    detail = ""
    if mk:
        k = mk[0].targets[0].slice
        detail = u(k)
        ok = u(k) in (f"{pre}[len(in_object) + 1:]", f"{pre}.removeprefix(in_object + '.')", f"{pre}[len(in_object) + len('.'):]")
    chk.ob("O19.3", "member key == prefix with the object's own path stripped", ok, mk[0] if mk else PL, detail + ("" if ok else " — keys containing '.' are mangled / collide"))
    # member values of a collected object, decided on VALUES: inside object `a`, a scalar event stores its value whatever that value is (false, 0, 0.0 and "" included);
    # keys and container events store nothing
    from sa import minieval as _me
    from sa import pat as _pat
    inobj = [n.targets[0].id for n in ast.walk(PL) if isinstance(n, ast.Assign) and isinstance(n.targets[0], ast.Name) and isinstance(n.value, ast.Name) and n.value.id == pre
             and _pat.guarded(n, f"{evn} == 'start_map'", stop=PL) is not None]
    init_env = {}
    for n in pf.body:
        if isinstance(n, ast.Assign) and len(n.targets) == 1 and isinstance(n.targets[0], ast.Name):
            try:
                init_env[n.targets[0].id] = _me.ev(n.value, {})
            except _me.CannotEval:
                pass
    if len(set(inobj)) == 1:
        EVENTS = [("boolean", False, True), ("boolean", True, True), ("integer", 0, True), ("integer", 7, True), ("double", 0.0, True), ("number", 0, True), ("string", "", True),
                  ("string", "x", True), ("map_key", "k", False), ("start_array", None, False), ("end_array", None, False)]
        for ev_name, v_, stored in EVENTS:
            env_ = dict(init_env)
            env_.update({pre: "a.k", evn: ev_name, val: v_, pp[1]: [], pp[2]: None, pp[3]: ["a"], inobj[0]: "a"})

            def atom_p(n, env, env_=env_):
                try:
                    return bool(_me.ev(n, dict(env_)))
                except _me.CannotEval:
                    return None

            try:
                out_ = decide(PL.body, atom_p, {})
            except (Unsupported, UnknownAtom) as e:
                chk.unknown("O19.3", f"the event dispatch of parse() is not a decision over (prefix, event, value): {e}", PL)
                break
            got = [e_ for e_ in out_.effects if isinstance(e_, ast.Assign) and isinstance(e_.targets[0], ast.Subscript) and u(e_.value) == val and u(e_.targets[0].slice) != pre]
            ok = (len(got) == 1) == stored
            chk.ob("O19.3", f"object member: event {ev_name} value {v_!r} -> {'stored' if stored else 'nothing stored'}", ok, PL,
                   ("stored" if got else "not stored") + ("" if ok else " — a falsy member value is dropped, so the extracted object differs from the fully parsed one (e.g. a composite after_key with false / 0 / '')"),
                   key=f"{_R}:parse:member:{ev_name}|{v_!r}")
    else:
        chk.unknown("O19.3", "the variable holding the path of the object being collected could not be identified in parse()", PL)
    brk = [n for n in ast.walk(PL) if isinstance(n, ast.Break)]
    ok = False
    if len(brk) == 1:
        gs = guards(brk[0], stop=PL)
        if len(gs) == 1 and gs[0][1] and isinstance(gs[0][0], ast.BoolOp) and isinstance(gs[0][0].op, ast.And):
            conj = [u(v) for v in gs[0][0].values]
            ok = f"len(parsed) == len({pp[1]})" in conj and any(f"len(parsed_lists) == len({pp[2]})" in c for c in conj) and any(f"len(parsed_objects) == len({pp[3]})" in c for c in conj)
    chk.ob("O19.3", "early exit only when all requested properties, lists and objects were seen", ok, brk[0] if brk else PL, "")
    tr = source.enclosing(PL, ast.Try)
    ok = tr is not None and len(tr.handlers) == 1 and last_attr(tr.handlers[0].type) == "IncompleteJSONError"
    chk.ob("O19.3", "only an incomplete document is tolerated", ok, tr if tr is not None else PL, "")
    ok = any(isinstance(n, ast.Call) and u(n.func) == f"{pp[0]}.seek" and source.is_const(n.args[0], 0) for n in walk_body(pf))
    chk.ob("O19.3", "the response is scanned from its start", ok, pf, "")
    # composite agg: after_key path is the full path
    CA = rn.cls("CompositeAggExtractor")
    cc = rn.methods(CA).get("__call__")
    ak = [n for n in walk_body(cc) if isinstance(n, ast.Assign) and u(n.targets[0]) == "after_key"] if cc else []
    ok = bool(ak) and u(ak[0].value).startswith("'aggregations.' + '.'.join(") and u(ak[0].value).endswith("+ '.after_key'")
    chk.ob("O19.3", "composite cursor requested by its full path", ok, ak[0] if ak else CA, "")


from sa.selftest import V  # noqa: E402

_NEW = "            # sort values may contain brackets themselves so only the JSON decoder can tell where the array ends\n            last_sort, _ = self.decoder.raw_decode(response_str, index_of_last_sort + last_sort_str.start(1))\n            return last_sort"
VARIANTS = [
    V("F9a: value cut out by a bracket character class", "break", _R, _NEW, "            return json.loads(re.search(r\"sort\\\":([^\\]]*])\", response_str[index_of_last_sort::]).group(1))", None),
    V("different failure predicate in the fast path", "break", _R, "                if data[\"status\"] > 299 or (\"_shards\" in data and data[\"_shards\"][\"failed\"] > 0):\n                    bulk_error_count += 1\n                    self.extract_error_details(error_details, data)\n                else:\n                    bulk_success_count += 1\n        stats = {\n            \"took\": props.get(\"took\"),",
      "                if data[\"status\"] > 299:\n                    bulk_error_count += 1\n                    self.extract_error_details(error_details, data)\n                else:\n                    bulk_success_count += 1\n        stats = {\n            \"took\": props.get(\"took\"),", "O19.1"),
    V("seed m1: shards test overwrites the status test", "break", _R,
      "            if data[\"status\"] > 299 or (\"_shards\" in data and data[\"_shards\"][\"failed\"] > 0):\n                bulk_error_count += 1\n                self.extract_error_details(error_details, data)\n            else:\n                bulk_success_count += 1\n        stats = {\n            \"took\": response.get(\"took\"),",
      "            failed = data[\"status\"] > 299\n            if \"_shards\" in data:\n                failed = data[\"_shards\"][\"failed\"] > 0\n            if failed:\n                bulk_error_count += 1\n                self.extract_error_details(error_details, data)\n            else:\n                bulk_success_count += 1\n        stats = {\n            \"took\": response.get(\"took\"),", "O19.1"),
    V("status >= 299", "break", _R, "            if data[\"status\"] > 299 or (\"_shards\" in data and data[\"_shards\"][\"failed\"] > 0):\n                bulk_error_count += 1", "            if data[\"status\"] >= 299 or (\"_shards\" in data and data[\"_shards\"][\"failed\"] > 0):\n                bulk_error_count += 1", "O19.1"),
    V("success from took", "break", _R, "            \"took\": props.get(\"took\"),\n            \"success\": bulk_error_count == 0,", "            \"took\": props.get(\"took\"),\n            \"success\": props.get(\"took\") is not None,", "O19.1"),
    V("seed m2: byte offset on the decoded string", "break", _R, "        response_str = response.getvalue().decode(\"UTF-8\")\n        index_of_last_sort = response_str.rfind('\"sort\"')", "        raw = response.getvalue()\n        index_of_last_sort = raw.rfind(b'\"sort\"')\n        response_str = raw.decode(\"UTF-8\")", "O19.2"),
    V("seed m3: member key by last dot", "break", _R, "                current_object[prefix[len(in_object) + 1 :]] = value", "                current_object[prefix.split(\".\")[-1]] = value", "O19.3"),
    V("match on value instead of prefix", "break", _R, "            if prefix in props:\n                parsed[prefix] = value", "            if event == \"map_key\" and value in props:\n                parsed[value] = value", "O19.3"),
    V("early exit on properties only", "break", _R, "                len(parsed) == len(props)\n                and (lists is None or len(parsed_lists) == len(lists))\n                and (objects is None or len(parsed_objects) == len(objects))", "                len(parsed) == len(props)", "O19.3"),
    V("cursor from the request body instead of the response", "break", _R, "                    body[\"search_after\"] = last_sort", "                    body[\"search_after\"] = body.get(\"search_after\", last_sort)", "O19.6"),
    V("composite after key from the previous page", "break", _R, "                after_key = parsed[\"after_key\"]\n                if isinstance(after_key, dict):", "                after_key = composite_agg_body.get(\"after\") or parsed[\"after_key\"]\n                if isinstance(after_key, dict):", "O19.6"),
    # preserving
    V("predicate extracted into a local", "keep", _R, "                if data[\"status\"] > 299 or (\"_shards\" in data and data[\"_shards\"][\"failed\"] > 0):\n                    bulk_error_count += 1\n                    self.extract_error_details(error_details, data)\n                else:\n                    bulk_success_count += 1\n        stats = {\n            \"took\": props.get(\"took\"),",
      "                failed = data[\"status\"] > 299 or (\"_shards\" in data and data[\"_shards\"][\"failed\"] > 0)\n                if failed:\n                    bulk_error_count += 1\n                    self.extract_error_details(error_details, data)\n                else:\n                    bulk_success_count += 1\n        stats = {\n            \"took\": props.get(\"took\"),"),
    V("shards test first", "keep", _R, "            if data[\"status\"] > 299 or (\"_shards\" in data and data[\"_shards\"][\"failed\"] > 0):\n                bulk_error_count += 1", "            if (\"_shards\" in data and data[\"_shards\"][\"failed\"] > 0) or data[\"status\"] > 299:\n                bulk_error_count += 1"),
]
