"""C19 — fast-path response parsing agrees with full JSON parsing (DESIGN.md section 4, C19)."""
from __future__ import annotations

import ast
import copy
import itertools
import re._parser as sre_parse  # regex ASTs (stdlib)

from sa import source
from sa.cfg import cfg_of, guards
from sa.minieval import CannotEval, ev
from sa.source import AnchorMissing, dotted, is_self_attr, last_attr, local_defs, params_of, short, u, walk_body
from sa.sym import UnknownAtom, atoms_of
from sa.tables import Outcome, Unsupported, decide

_R = "esrally/driver/runner.py"

# representative bulk items: status x _shards
ITEMS = []
for status in (200, 201, 299, 300, 404, 409, 429):
    for shards in ("absent", 0, 1):
        d = {"_index": "i", "_id": "1", "status": status}
        if shards != "absent":
            d["_shards"] = {"total": 2, "successful": 2 - shards, "failed": shards}
        if status > 299:
            d["error"] = {"type": "x", "reason": "r"}
        ITEMS.append(d)
# failing items WITHOUT an error object (delete of a missing document: 404 / result not_found) and a successful item that carries one anyway
ITEMS.append({"_index": "i", "_id": "1", "status": 404, "result": "not_found", "_shards": {"total": 2, "successful": 2, "failed": 0}})
ITEMS.append({"_index": "i", "_id": "1", "status": 404, "result": "not_found"})
ITEMS.append({"_index": "i", "_id": "1", "status": 200, "result": "noop", "error": None, "_shards": {"total": 2, "successful": 2, "failed": 0}})


def structural_class_groups(pattern: str):
    """capture groups whose content is delimited by a negated character class over JSON-structural characters."""
    out = []
    try:
        tree = sre_parse.parse(pattern)
    except Exception:
        return None

    def walk(items, in_group=None):
        for op, av in items:
            name = str(op)
            if name == "SUBPATTERN":
                gid, _, _, sub = av
                walk(sub, gid if gid is not None else in_group)
            elif name in ("MAX_REPEAT", "MIN_REPEAT", "POSSESSIVE_REPEAT"):
                walk(av[2], in_group)
            elif name == "BRANCH":
                for b in av[1]:
                    walk(b, in_group)
            elif name == "IN" and in_group is not None:
                neg = any(str(o) == "NEGATE" for o, _ in av)
                lits = {chr(v) for o, v in av if str(o) == "LITERAL"}
                if neg and lits & set(']}",'):
                    out.append((in_group, sorted(lits)))
            elif name == "NOT_LITERAL" and in_group is not None and chr(av) in ']}",':
                out.append((in_group, [chr(av)]))

    walk(tree)
    return out


def has_const(node, value) -> bool:
    """the literal `value` (a dict key / message text: a stable anchor) occurs in the expression — local variable names do not count."""
    return node is not None and any(isinstance(x, ast.Constant) and type(x.value) is type(value) and x.value == value for x in ast.walk(node))


def loads_of(node) -> set:
    return {x.id for x in ast.walk(node) if isinstance(x, ast.Name) and isinstance(x.ctx, ast.Load)} if node is not None else set()


def stores_of(node) -> set:
    return {x.id for x in ast.walk(node) if isinstance(x, ast.Name) and isinstance(x.ctx, ast.Store)} if node is not None else set()


def root_name(node):
    while isinstance(node, (ast.Subscript, ast.Attribute)):
        node = node.value
    return node.id if isinstance(node, ast.Name) else None


def xev(e: ast.AST, env: dict):
    """minieval.ev plus the string operations the parsers use to build paths / keys: str + str, sep.join(list), s.removeprefix(p), s[a:b].
    Sub-expressions of these kinds are evaluated bottom-up on a fresh copy and replaced by their value; everything else is left to ev()."""

    class T(ast.NodeTransformer):
        def visit(self, n):
            n = self.generic_visit(n)
            try:
                if isinstance(n, ast.BinOp) and isinstance(n.op, ast.Add):
                    a, b = ev(n.left, env), ev(n.right, env)
                    if (isinstance(a, str) and isinstance(b, str)) or (isinstance(a, list) and isinstance(b, list)):
                        return ast.Constant(value=a + b)
                elif isinstance(n, ast.Call) and isinstance(n.func, ast.Attribute) and n.func.attr == "join" and len(n.args) == 1 and not n.keywords:
                    sep, parts = ev(n.func.value, env), ev(n.args[0], env)
                    if isinstance(sep, str) and isinstance(parts, (list, tuple)) and all(isinstance(x, str) for x in parts):
                        return ast.Constant(value=sep.join(parts))
                elif isinstance(n, ast.Call) and isinstance(n.func, ast.Attribute) and n.func.attr == "removeprefix" and len(n.args) == 1 and not n.keywords:
                    s_, p_ = ev(n.func.value, env), ev(n.args[0], env)
                    if isinstance(s_, str) and isinstance(p_, str):
                        return ast.Constant(value=s_.removeprefix(p_))
                elif isinstance(n, ast.Subscript) and isinstance(n.slice, ast.Slice):
                    base = ev(n.value, env)
                    lo, hi, st = [ev(x, env) if x is not None else None for x in (n.slice.lower, n.slice.upper, n.slice.step)]
                    if isinstance(base, (str, list)) and all(x is None or (isinstance(x, int) and not isinstance(x, bool)) for x in (lo, hi, st)) and st != 0:
                        return ast.Constant(value=base[lo:hi:st])
            except (CannotEval, TypeError):
                pass
            return n

    try:
        return ev(T().visit(source.clone(e)), env)
    except TypeError as x:  # e.g. len(None): the extracted expression would raise on this value
        raise CannotEval(f"{u(e)[:60]}: {x}")


def run(chk):
    repo = chk.repo
    rn = repo.module(_R)
    chk.use(rn)
    chk.explanation = (
        "Decides agreement of sibling fast/slow paths and the shape of textual extraction: the bulk item loop of the detailed and of the fast path abstractly interpreted over 21 "
        "representative items (status x _shards) must classify each item as failed iff status > 299 or _shards.failed > 0, identically in both; success == (error count == 0) in both; "
        "no JSON value's end is delimited by a regex character class / find on a structural character (regex AST query) and offsets found in one text are only applied to that same text; "
        "the selective parser matches on full ijson prefixes, derives member keys by stripping the object's own path, and exits early only when everything requested was seen. "
        "Known findings: fast-path gate does not summarise the _shards.failed disjunct (F10); the cursor key is located by a nesting-insensitive text search (F9b)."
    )
    chk.not_decided = "equivalence on all JSON texts, hit/page accounting arithmetic, ijson's own behaviour."
    BI = rn.cls("BulkIndex")
    bm = rn.methods(BI)
    det, simp = bm.get("detailed_stats"), bm.get("simple_stats")
    if det is None or simp is None:
        raise AnchorMissing("BulkIndex.detailed_stats / simple_stats")

    # ---- O19.1 sibling agreement on the item predicate -----------------------------------------------------------------------------------------
    chk.rule("O19.1", "in both the detailed and the fast path every bulk item is counted as failed iff status > 299 or _shards.failed > 0 (21 representative items), as succeeded otherwise; "
             "success == (error count == 0); error details extracted for failed items", 44,
             "a bulk response with that item: success/error counts differ between the two paths and from a full parse")

    def item_loop(f):
        for n in walk_body(f):
            if isinstance(n, ast.For) and isinstance(n.iter, ast.Subscript) and source.is_const(n.iter.slice, "items"):
                return n
        raise AnchorMissing(f"loop over response['items'] in {f.name}")

    def counter_names(f):
        """(error counter, success counter): the locals reported under 'error-count' / 'success-count'."""
        for n in walk_body(f):
            if isinstance(n, ast.Dict):
                d = {k.value: v for k, v in zip(n.keys, n.values) if isinstance(k, ast.Constant)}
                if isinstance(d.get("error-count"), ast.Name) and isinstance(d.get("success-count"), ast.Name):
                    return d["error-count"].id, d["success-count"].id
        raise AnchorMissing(f"result dict with error-count / success-count in {f.name}")

    from sa import pat as _pat
    from sa.classes import is_logging_stmt

    def bound_by(s):
        """names a statement (re)binds or updates in place: plain / tuple targets, and the root of a subscript / attribute target."""
        tg = s.targets if isinstance(s, ast.Assign) else ([s.target] if isinstance(s, (ast.AugAssign, ast.AnnAssign)) else [])
        out = set()
        for t in tg:
            out |= stores_of(t)
            if isinstance(t, (ast.Subscript, ast.Attribute)) and root_name(t):
                out.add(root_name(t))
        return out

    tables = {}
    for f in (det, simp):
        L = item_loop(f)
        if not isinstance(L.target, ast.Name):
            raise AnchorMissing(f"loop variable of the item loop in {f.name}")
        itemv = L.target.id
        ERRC, OKC = counter_names(f)

        def counter_hit(s, ERRC=ERRC, OKC=OKC):
            """('err' | 'ok', k) when the statement adds the constant k to the error / success counter (the locals reported under error-count / success-count)."""
            c = k = None
            if isinstance(s, ast.AugAssign) and isinstance(s.target, ast.Name) and isinstance(s.op, ast.Add):
                c, k = s.target.id, s.value
            elif isinstance(s, ast.Assign) and len(s.targets) == 1 and isinstance(s.targets[0], ast.Name):
                b_ = _pat.match(s.value, "V_c + E_k", binds={"c": s.targets[0].id}) or _pat.match(s.value, "E_k + V_c", binds={"c": s.targets[0].id})
                if b_ is not None:
                    c, k = s.targets[0].id, (s.value.right if isinstance(s.value.left, ast.Name) and s.value.left.id == s.targets[0].id else s.value.left)
            if c not in (ERRC, OKC) or not isinstance(k, ast.Constant) or type(k.value) is not int:
                return None
            return ("err" if c == ERRC else "ok", k.value)

        def is_details(s):
            return isinstance(s, ast.Expr) and isinstance(s.value, ast.Call) and last_attr(s.value.func) == "extract_error_details"

        # backward slice of the classification: the names the counting decision depends on (by data flow and control dependence), instead of guessing relevance from variable names
        body_stmts = [n for st_ in L.body for n in source.walk_local(st_) if isinstance(n, ast.stmt)]
        rel: set = set()

        def touches(s, rel=rel, counter_hit=counter_hit, is_details=is_details):
            return any(isinstance(x, ast.stmt) and (counter_hit(x) or is_details(x) or bound_by(x) & rel) for x in source.walk_local(s))

        changed = True
        while changed:
            changed = False
            for s_ in body_stmts:
                if isinstance(s_, ast.If) and touches(s_):
                    need = loads_of(s_.test)
                elif isinstance(s_, (ast.Assign, ast.AugAssign, ast.AnnAssign)) and not counter_hit(s_) and bound_by(s_) & rel:
                    need = loads_of(s_)
                else:
                    continue
                if not need <= rel:
                    rel |= need
                    changed = True

        def classify(item, L=L, itemv=itemv, ERRC=ERRC, OKC=OKC, rel=rel, counter_hit=counter_hit, is_details=is_details, touches=touches):
            env = {itemv: {"index": copy.deepcopy(item)}}
            counters = {"err": 0, "ok": 0, "details": 0}

            def run_block(stmts):
                for s in stmts:
                    hit = counter_hit(s)
                    if hit:
                        counters[hit[0]] += hit[1]
                    elif is_details(s):
                        counters["details"] += 1
                    elif isinstance(s, ast.Pass) or is_logging_stmt(s):
                        continue
                    elif isinstance(s, (ast.Assign, ast.AugAssign, ast.AnnAssign)):
                        b_ = bound_by(s)
                        if b_ & {ERRC, OKC}:
                            raise CannotEval(f"counter updated by something other than +1 at line {s.lineno}")
                        if not b_ & rel:
                            for x in b_:
                                env.pop(x, None)  # the classification does not depend on it
                            continue
                        if not isinstance(s, ast.Assign) or len(s.targets) != 1 or not isinstance(s.targets[0], (ast.Name, ast.Tuple, ast.Subscript)) or (
                                isinstance(s.targets[0], ast.Tuple) and not all(isinstance(x, ast.Name) for x in s.targets[0].elts)):
                            raise CannotEval(f"update of a value the item classification depends on: {short(s, 60)} at line {s.lineno}")
                        t = s.targets[0]
                        val = ev(s.value, env)
                        if isinstance(t, ast.Name):
                            env[t.id] = val
                        elif isinstance(t, ast.Subscript):
                            # in-place update of (a part of) the item: applied to this run's private copy
                            box, key_ = ev(t.value, env), ev(t.slice, env)
                            if not isinstance(box, dict) or isinstance(key_, (dict, list, set)):
                                raise CannotEval(f"in-place update {short(s, 60)} at line {s.lineno}")
                            box[key_] = val
                        else:
                            if not isinstance(val, (list, tuple)) or len(val) != len(t.elts):
                                raise CannotEval(f"unpacking {short(s, 60)} at line {s.lineno}")
                            for x, v in zip(t.elts, val):
                                env[x.id] = v
                    elif isinstance(s, ast.If):
                        if not touches(s):
                            continue
                        run_block(s.body if ev(s.test, env) else s.orelse)
                    elif isinstance(s, ast.Expr):
                        continue
                    else:
                        raise CannotEval(f"statement {type(s).__name__} at line {s.lineno}")

            run_block(L.body)
            return counters

        rows = []
        for item in ITEMS:
            inst = f"{f.name}: item status={item['status']} _shards={'absent' if '_shards' not in item else 'failed=' + str(item['_shards']['failed'])}" + \
                ("" if ("error" in item) == (item["status"] > 299) else (" without error object" if "error" not in item else " with error: null"))
            want_fail = item["status"] > 299 or ("_shards" in item and item["_shards"]["failed"] > 0)
            try:
                c = classify(item)
            except (CannotEval, TypeError) as e:
                msg_ = f"item loop of {f.name} cannot be interpreted over the item domain: {e}"
                if not any(msg_ in m_ for m_ in chk.inconclusive):
                    chk.unknown("O19.1", msg_, L)
                rows.append(None)
                continue
            got = "failed" if (c["err"], c["ok"]) == (1, 0) else ("succeeded" if (c["err"], c["ok"]) == (0, 1) else f"err+={c['err']} ok+={c['ok']}")
            rows.append(got)
            ok = got == ("failed" if want_fail else "succeeded") and (not want_fail or c["details"] == 1)
            chk.ob("O19.1", inst, ok, L, f"counted as {got}" + (f", error details extracted {c['details']}x" if want_fail else "") + f"; full parse: {'failed' if want_fail else 'succeeded'}",
                   key=f"{_R}:BulkIndex.{f.name}:item:{item['status']}|{'absent' if '_shards' not in item else item['_shards']['failed']}" + ("" if ("error" in item) == (item["status"] > 299) else "|odd-error"))
        tables[f.name] = rows
    chk.ob("O19.1", "detailed and fast path agree on every representative item", tables.get("detailed_stats") == tables.get("simple_stats"), det, "")
    for f in (det, simp):
        dicts = [n for n in walk_body(f) if isinstance(n, ast.Dict) and any(source.is_const(k, "success") for k in n.keys)]
        ok = False
        if dicts:
            d = {k.value: v for k, v in zip(dicts[0].keys, dicts[0].values) if isinstance(k, ast.Constant)}
            ec_, oc_ = counter_names(f)
            from sa import pat as _pat
            ok = _pat.is_(d.get("success"), f"{ec_} == 0", f"not {ec_}", f"{ec_} < 1") and ec_ != oc_
        chk.ob("O19.1", f"{f.name}: success == (error count == 0); counts reported under their names", ok, dicts[0] if dicts else f, "")
        inits = [n for n in walk_body(f) if isinstance(n, ast.Assign) and u(n.targets[0]) == counter_names(f)[0] and source.is_const(n.value, 0)]
        chk.ob("O19.1", f"{f.name}: error count starts at 0", len(inits) == 1 and not guards(inits[0]), inits[0] if inits else f, "")
    # fast path: success count when no errors are flagged == bulk size (docs), reset to 0 before counting items
    sp = params_of(simp)
    if len(sp) < 4:
        raise AnchorMissing("simple_stats(self, bulk_size, unit, response)")
    sdefs = [n for n in walk_body(simp) if isinstance(n, ast.Assign) and u(n.targets[0]) == counter_names(simp)[1]]
    Ls = item_loop(simp)
    first = [n for n in sdefs if not guards(n)]  # the unconditional initial value
    reset = [n for n in sdefs if guards(n)]      # the recount, under the gate of the item loop
    ok = len(sdefs) == 2 and len(first) == 1 and len(reset) == 1
    if ok:
        try:
            # decided on values: for unit 'docs' the initial success count IS the bulk size, for any other unit it is not
            ok = xev(first[0].value, {sp[1]: 7919, sp[2]: "docs"}) == 7919 and xev(first[0].value, {sp[1]: 7919, sp[2]: "ops"}) != 7919
        except CannotEval:
            ok = isinstance(first[0].value, ast.IfExp) and u(first[0].value.body) == sp[1]
        # the recount starts from 0 under exactly the guards of the item loop, before the loop
        ok = ok and source.is_const(reset[0].value, 0) and {(u(t), pol) for t, pol in guards(reset[0])} == {(u(t), pol) for t, pol in guards(Ls)} and reset[0].lineno < Ls.lineno
    chk.ob("O19.1", "fast path: success count == bulk size unless items are inspected (then recounted from 0)", ok, first[0] if first else (sdefs[0] if sdefs else simp), "")
    full = [n for n in walk_body(simp) if isinstance(n, ast.Call) and dotted(n.func) == "json.loads"]
    # the variable holding the selectively parsed flags: assigned from parse(response, [... 'errors' ...])
    flagv = [n.targets[0].id for n in walk_body(simp) if isinstance(n, ast.Assign) and len(n.targets) == 1 and isinstance(n.targets[0], ast.Name) and isinstance(n.value, ast.Call)
             and dotted(n.value.func) == "parse" and has_const(n.value, "errors")]

    def gate_open(node, errors):
        """are all guards of node satisfied for a response whose top-level `errors` is true / false / absent? (None: cannot be evaluated)"""
        if len(set(flagv)) != 1:
            return None
        env = {flagv[0]: ({"took": 3} if errors is None else {"took": 3, "errors": errors})}
        sdefs_ = {k_: v_ for k_, v_ in local_defs(simp).items() if k_ != flagv[0]}
        try:
            return all(bool(xev(source.inline_node(t, sdefs_), dict(env))) == pol for t, pol in guards(node))
        except CannotEval:
            return None

    ok = bool(full)
    if ok:
        g_ = [gate_open(full[0], e_) for e_ in (True, False, None)]
        ok = g_ == [True, False, False] if None not in g_ else any(has_const(t, "errors") and pol for t, pol in guards(full[0]))
    chk.ob("O19.1", "fast path re-parses fully when errors are flagged", ok, full[0] if full else simp, "")

    # ---- O19.4 known finding F10 ---------------------------------------------------------------------------------------------------------------------
    chk.rule("O19.4", "the fast-path gate (top-level `errors` flag) summarises every disjunct of the item failure predicate", 1,
             "item with status 201 and _shards.failed=1 while errors=false: fast path reports success 1/0, detailed path failure 0/1")
    L = item_loop(simp)
    g_ = [gate_open(L, e_) for e_ in (True, False, None)]
    # the loop runs with errors=true but not with errors=false / absent (evaluated); fallback: a guard mentions the `errors` key
    gated_by_errors = (g_[0] is True and g_[1] is False) if None not in g_ else any(has_const(t, "errors") for t, _ in guards(L))
    # the item predicate has the `_shards.failed > 0` disjunct: read off the interpreted table (an item that fails ONLY because of its shards is counted as failed)
    rows_s = tables.get("simple_stats") or []
    shard_only = [i for i, it in enumerate(ITEMS) if it["status"] <= 299 and "_shards" in it and it["_shards"]["failed"] > 0]
    if len(rows_s) == len(ITEMS) and all(rows_s[i] is not None for i in shard_only):
        pred_has_shards = any(rows_s[i] == "failed" for i in shard_only)
    else:
        pred_has_shards = any(has_const(n.test, "_shards") for n in ast.walk(L) if isinstance(n, ast.If))
    chk.ob("O19.4", "fast-path gate vs `_shards.failed > 0`", not (gated_by_errors and pred_has_shards), L,
           "items are only inspected when the response's `errors` flag is set, but the item predicate also fails items with _shards.failed > 0, which Elasticsearch does not reflect in `errors`",
           key=f"{_R}:BulkIndex.simple_stats:gate-vs-item-predicate:_shards.failed")

    # ---- O19.2 value boundaries ----------------------------------------------------------------------------------------------------------------------------
    chk.rule("O19.2", "no JSON value handed to a JSON decoder has its END delimited by a regex character class or a text search on a structural character; offsets found in one text are "
             "applied only to that same text (not bytes offsets on the decoded string)", 3,
             "sort value containing ']' or a nested array; non-ASCII text before the last hit")
    SA = rn.cls("SearchAfterExtractor")
    sm = rn.methods(SA)
    gl = sm.get("_get_last_sort")
    if gl is None:
        raise AnchorMissing("SearchAfterExtractor._get_last_sort")
    pats = {}
    for n in ast.walk(SA):
        if isinstance(n, ast.Assign) and isinstance(n.value, ast.Call) and dotted(n.value.func) == "re.compile" and isinstance(n.value.args[0], ast.Constant):
            pats[u(n.targets[0])] = (n.value.args[0].value, n)
    for n in ast.walk(SA):
        if isinstance(n, ast.Call) and dotted(n.func) in ("re.search", "re.match", "re.findall", "re.finditer", "re.fullmatch") and n.args and isinstance(n.args[0], ast.Constant) and isinstance(n.args[0].value, str):
            pats[f"<inline pattern @ line {n.lineno}>"] = (n.args[0].value, n)
    gdefs = local_defs(gl)
    decs = [n for n in walk_body(gl) if isinstance(n, ast.Call) and (dotted(n.func) == "json.loads" or last_attr(n.func) == "raw_decode")]
    if not decs:
        raise AnchorMissing("JSON decoding call in _get_last_sort")
    for d in decs:
        if dotted(d.func) == "json.loads":
            a = d.args[0]
            # value from a regex group?
            ai = source.inline_node(a, gdefs)
            if any(isinstance(x, ast.Call) and last_attr(x.func) in ("group", "groups") for x in ast.walk(ai)):
                bad = []
                for pname, (ptxt, pn) in pats.items():
                    g_ = structural_class_groups(ptxt)
                    if g_:
                        bad.append((pname, ptxt, g_))
                chk.ob("O19.2", "json.loads(<regex group>)", not bad, d, f"the decoded text is cut out by {[(p, t) for p, t, _ in bad]}: the group ends at the first structural character, wherever it occurs" if bad else "group not delimited by a structural character class",
                       key=f"{_R}:SearchAfterExtractor._get_last_sort:value-end-by-char-class")
            else:
                chk.ob("O19.2", "json.loads on a complete text", True, d, "")
        else:
            chk.ob("O19.2", "value end found by JSONDecoder.raw_decode", True, d, short(d, 80))
    for pname, (ptxt, pn) in pats.items():
        g_ = structural_class_groups(ptxt)
        if g_ is None:
            chk.unknown("O19.2", f"pattern {ptxt!r} does not parse", pn)
        else:
            used_for_value = any(isinstance(n, ast.Call) and last_attr(n.func) == "group" for n in walk_body(gl))
            chk.ob("O19.2", f"pattern {pname} does not delimit a value by a structural character class", not (g_ and used_for_value), pn, f"{ptxt!r}: {g_}")
    # offset/text agreement
    texts = {}
    for n in walk_body(gl):
        if isinstance(n, ast.Assign) and isinstance(n.targets[0], ast.Name) and isinstance(n.value, ast.Call) and last_attr(n.value.func) in ("rfind", "find", "index", "rindex"):
            texts[n.targets[0].id] = u(n.value.func.value)
    n_off = 0
    for n in walk_body(gl):
        tgt = None
        used = set()
        if isinstance(n, ast.Subscript) and isinstance(n.slice, ast.Slice):
            tgt = u(n.value)
            used = {x.id for x in ast.walk(n.slice) if isinstance(x, ast.Name)}
        elif isinstance(n, ast.Call) and last_attr(n.func) == "raw_decode" and len(n.args) == 2:
            tgt = u(n.args[0])
            used = {x.id for x in ast.walk(n.args[1]) if isinstance(x, ast.Name)}
        elif isinstance(n, ast.Call) and last_attr(n.func) in ("search", "match") and len(n.args) >= 3:
            tgt = u(n.args[1])
            used = {x.id for x in ast.walk(n.args[2]) if isinstance(x, ast.Name)}
        for v in used & set(texts):
            n_off += 1
            ok = texts[v] == tgt
            chk.ob("O19.2", f"offset `{v}` (found in `{texts[v]}`) applied to `{tgt}`", ok, n, "" if ok else "an offset found in one text (e.g. the raw bytes) indexes another (the decoded string): they differ by the number of multi-byte characters before it")
    chk.ob("O19.2", "offset uses located", n_off >= 1, gl, f"{n_off} use(s)")
    # decoded once: the text searched is the decoded response
    dec = [n for n in walk_body(gl) if isinstance(n, ast.Call) and last_attr(n.func) == "decode"]
    chk.ob("O19.2", "response decoded as UTF-8 before searching", bool(dec) and any(source.is_const(a, "UTF-8") or source.is_const(a, "utf-8") for a in dec[0].args), dec[0] if dec else gl, "")

    # ---- O19.5 known finding F9b ----------------------------------------------------------------------------------------------------------------------------
    chk.rule("O19.5", "the cursor key of the last hit is located structurally, not by a nesting-insensitive text search", 1,
             "last hit sort [20] followed by inner_hits with sort [999] -> cursor [999]; matched_queries ['sort'] -> cursor None")
    rf = [n for n in walk_body(gl) if isinstance(n, ast.Call) and last_attr(n.func) in ("rfind", "rindex") and n.args and isinstance(n.args[0], ast.Constant) and "sort" in str(n.args[0].value)]
    chk.ob("O19.5", "last `sort` key located by text search", not rf, rf[0] if rf else gl, "rfind('\"sort\"') on the raw text picks the textually last occurrence at any nesting depth (or inside a string)",
           key=f"{_R}:SearchAfterExtractor._get_last_sort:rfind-sort-key")

    # ---- O19.6 cursor threading ---------------------------------------------------------------------------------------------------------------------------------
    chk.rule("O19.6", "paginated search: the cursor sent with the next page is the extractor's result for the response just received (search_after := last sort; composite after := after_key), "
             "pages == weight == number of requests issued; hit totals are taken from the first page only", 6,
             "a page is fetched twice / skipped because a stale cursor (or the previous page's) is sent")
    Q = rn.cls("Query")
    qcall = rn.methods(Q).get("__call__")
    if qcall is None:
        raise AnchorMissing("Query.__call__")
    inner = {n.name: n for n in ast.walk(qcall) if isinstance(n, (ast.AsyncFunctionDef, ast.FunctionDef))}

    def extractor_class(attr):
        """class whose instance Query stores under self.<attr>."""
        for n in ast.walk(Q):
            if isinstance(n, ast.Assign) and any(is_self_attr(t, attr) for t in n.targets) and isinstance(n.value, ast.Call) and isinstance(n.value.func, ast.Name):
                return rn.cls(n.value.func.id)
        raise AnchorMissing(f"Query: self.{attr} = <Extractor>()")

    def cursor_projection(attr, cursor_call, cursor_member):
        """how the cursor is read off the extractor's result: ('tuple', i) when __call__ returns a tuple whose i-th element is the value located by `cursor_call`,
        ('key', k) when it returns a dict that carries the cursor under the constant key k."""
        ec = rn.methods(extractor_class(attr)).get("__call__")
        if ec is None:
            raise AnchorMissing(f"{attr}: __call__")
        edefs = local_defs(ec)
        rets = [n.value for n in walk_body(ec) if isinstance(n, ast.Return) and n.value is not None]
        if cursor_call is not None:
            idx = set()
            for r in rets:
                if not isinstance(r, ast.Tuple):
                    raise AnchorMissing(f"{attr}.__call__ does not return a tuple")
                idx |= {i for i, e_ in enumerate(r.elts) if any(isinstance(x, ast.Call) and last_attr(x.func) == cursor_call for x in ast.walk(source.inline_node(e_, edefs)))}
            if len(idx) != 1:
                raise AnchorMissing(f"{attr}.__call__: position of the {cursor_call}() result in the returned tuple")
            return ("tuple", idx.pop())
        if not any(isinstance(n, ast.Assign) and isinstance(n.targets[0], ast.Subscript) and source.is_const(n.targets[0].slice, cursor_member) for n in walk_body(ec)):
            raise AnchorMissing(f"{attr}.__call__: result member {cursor_member!r}")
        return ("key", cursor_member)

    for fname, extractor, cursor_key, cursor_call, cursor_member in (("_search_after_query", "_search_after_extractor", "search_after", "_get_last_sort", None),
                                                                    ("_composite_agg", "_composite_agg_extractor", "after", None, "after_key")):
        f = inner.get(fname)
        if f is None:
            raise AnchorMissing(f"Query.{fname}")
        how = cursor_projection(extractor, cursor_call, cursor_member)
        gq = cfg_of(f)
        lp = [n for n in walk_body(f) if isinstance(n, ast.For) and isinstance(n.iter, ast.Call) and dotted(n.iter.func) == "range" and isinstance(n.target, ast.Name)]
        if not lp:
            raise AnchorMissing(f"page loop in {fname}")
        PL_ = lp[0]
        # the accumulated result: the local the function returns
        rets = {n.value.id for n in walk_body(f) if isinstance(n, ast.Return) and isinstance(n.value, ast.Name)}
        if len(rets) != 1 or any(isinstance(n, ast.Return) and not isinstance(n.value, ast.Name) for n in walk_body(f)):
            raise AnchorMissing(f"{fname}: the result variable (returned local)")
        RES = rets.pop()
        rq = [n for n in ast.walk(PL_) if isinstance(n, ast.Await) and isinstance(n.value, ast.Call) and u(n.value.func) == "self._raw_search"]
        ex_ = [n for n in ast.walk(PL_) if isinstance(n, ast.Call) and u(n.func) == f"self.{extractor}"]
        ok = len(rq) == 1 and len(ex_) == 1
        rs_ = source.enclosing_stmt(rq[0]) if ok else None
        resp = rs_.targets[0].id if isinstance(rs_, ast.Assign) and rs_.value is rq[0] and len(rs_.targets) == 1 and isinstance(rs_.targets[0], ast.Name) else None

        def loop_stores(name, PL_=PL_):
            """statements of the page loop that (re)bind the local `name`."""
            return [n for n in ast.walk(PL_) if isinstance(n, (ast.Assign, ast.AugAssign, ast.AnnAssign, ast.For, ast.NamedExpr, ast.With)) and name in stores_of(
                n.target if isinstance(n, (ast.For, ast.AugAssign, ast.AnnAssign, ast.NamedExpr)) else (ast.Tuple(elts=[i.optional_vars for i in n.items if i.optional_vars is not None]) if isinstance(n, ast.With) else ast.Tuple(elts=list(n.targets))))]

        ok = ok and resp is not None and len(loop_stores(resp)) == 1 and bool(ex_[0].args) and isinstance(ex_[0].args[0], ast.Name) and ex_[0].args[0].id == resp \
            and gq.dominated_by_nodes(gq.node_of(ex_[0]), [gq.node_of(rq[0])]) and not gq.path_exists(gq.node_of(ex_[0]), gq.node_of(rq[0]), avoid=[gq.node_of(PL_)])
        chk.ob("O19.6", f"{fname}: one request per page, its own response handed to the extractor", ok, ex_[0] if ex_ else PL_, "")
        st = [n for n in ast.walk(PL_) if isinstance(n, ast.Assign) and isinstance(n.targets[0], ast.Subscript) and source.is_const(n.targets[0].slice, cursor_key)]
        ok = len(st) == 1 and len(ex_) == 1
        if ok:
            es_ = source.enclosing_stmt(ex_[0])
            et = es_.targets[0] if isinstance(es_, ast.Assign) and es_.value is ex_[0] and len(es_.targets) == 1 else None

            def from_extractor(e_):
                """(is e_ this page's cursor as produced by the extractor?, the statements that must have run before it is read)."""
                if how[0] == "tuple":
                    # the name at the cursor's position of the tuple unpacked from the extractor call (or <result>[i])
                    if isinstance(et, ast.Tuple) and how[1] < len(et.elts) and not any(isinstance(x, ast.Starred) for x in et.elts) and isinstance(et.elts[how[1]], ast.Name):
                        return isinstance(e_, ast.Name) and e_.id == et.elts[how[1]].id and len(loop_stores(e_.id)) == 1, [es_]
                    if isinstance(et, ast.Name):
                        return _pat.match(e_, f"V_p[{how[1]}]", binds={"p": et.id}) is not None and len(loop_stores(et.id)) == 1, [es_]
                    return False, []
                if isinstance(et, ast.Name):
                    # <result>[key] with <result> bound once per page, from the extractor call
                    return _pat.match(e_, f"V_p[{how[1]!r}]", binds={"p": et.id}) is not None and len(loop_stores(et.id)) == 1, [es_]
                return False, []

            v_ = st[0].value
            direct, need = from_extractor(v_)
            if direct:
                ok = True
            elif isinstance(v_, ast.Name):
                # one local in between: bound once per page, from the extractor's result of this iteration
                binds = loop_stores(v_.id)
                ok = len(binds) == 1 and isinstance(binds[0], ast.Assign) and len(binds[0].targets) == 1 and isinstance(binds[0].targets[0], ast.Name)
                if ok:
                    ok, need = from_extractor(binds[0].value)
                    need = need + [binds[0]]
            else:
                ok = False
            ok = ok and all(gq.dominated_by_nodes(gq.node_of(st[0]), [gq.node_of(n_)]) for n_ in need)
        chk.ob("O19.6", f"{fname}: next cursor := the extractor's result for this page", ok, st[0] if st else PL_, short(st[0], 70) if st else "cursor never set")
        # the body belongs to the parameter source, which hands it out again for the next invocation: a cursor may only be stored into it when another page of THIS invocation will
        # be requested (guard `page < last page` of `for page in range(1, last + 1)`), or it is removed again on every path to the return (also when the page limit ends the loop)
        if st:
            fq_ = source.enclosing_func(st[0])
            iv_ = PL_.target.id if isinstance(PL_.target, ast.Name) else None
            more = False
            if iv_ and isinstance(PL_.iter, ast.Call) and dotted(PL_.iter.func) == "range" and len(PL_.iter.args) == 2:
                hi = PL_.iter.args[1]
                lim = hi.left if isinstance(hi, ast.BinOp) and isinstance(hi.op, ast.Add) and source.is_const(hi.right, 1) else None
                if lim is not None:
                    more = _pat.guarded(st[0], f"{iv_} < {u(lim)}", f"{iv_} + 1 <= {u(lim)}", f"{iv_} != {u(lim)}", stop=PL_) is not None
            removals = [n for n in walk_body(fq_) if isinstance(n, ast.Call) and isinstance(n.func, ast.Attribute) and n.func.attr == "pop" and n.args
                        and (source.is_const(n.args[0], cursor_key) or (isinstance(n.args[0], ast.Name) and any(isinstance(l_, ast.For) and isinstance(l_.target, ast.Name) and l_.target.id == n.args[0].id
                             and isinstance(l_.iter, (ast.List, ast.Tuple)) and any(source.is_const(e_, cursor_key) for e_ in l_.iter.elts) for l_ in source.ancestors(n))))]
            cleaned = bool(removals) and gq.must_pass(gq.node_of(st[0]), [gq.node_of(r_) for r_ in removals], normal_only=True)
            chk.ob("O19.6", f"{fname}: the cursor never survives the invocation in the operation's body", more or cleaned, st[0],
                   "stored only when another page follows" if more else ("removed on every path to the return" if cleaned else
                   "when the page limit ends the loop the cursor stays in the body the parameter source hands out again: the next iteration of the task starts from a stale cursor"),
                   key=f"{_R}:Query.{fname}:cursor-does-not-survive")
        pg = {n.targets[0].slice.value: n.value for n in ast.walk(PL_) if isinstance(n, ast.Assign) and isinstance(n.targets[0], ast.Subscript) and isinstance(n.targets[0].value, ast.Name)
              and n.targets[0].value.id == RES and isinstance(n.targets[0].slice, ast.Constant)}
        iv = PL_.target.id
        ok = all(isinstance(pg.get(k_), ast.Name) and pg[k_].id == iv for k_ in ("pages", "weight")) and len(PL_.iter.args) == 2 and source.is_const(PL_.iter.args[0], 1) and len(loop_stores(iv)) == 1
        chk.ob("O19.6", f"{fname}: pages == weight == requests issued", ok, PL_, f"{ {k: u(v) for k, v in pg.items() if k in ('pages', 'weight')} }")
        hs = [n for n in ast.walk(PL_) if isinstance(n, ast.Assign) and isinstance(n.targets[0], ast.Subscript) and source.is_const(n.targets[0].slice, "hits")]
        ok = len(hs) == 1
        if ok:
            try:
                # decided on values: the store is reached while no hit total is recorded yet, and not once one is
                reach = [all(bool(xev(t, {RES: dict(r_)})) == pol for t, pol in guards(hs[0], stop=PL_)) for r_ in ({"unit": "pages", "took": 0}, {"unit": "pages", "took": 0, "hits": 10000}, {"unit": "pages", "took": 0, "hits": 0})]
                ok = reach == [True, False, False] and bool(guards(hs[0], stop=PL_))
            except CannotEval:
                ok = _pat.guarded(hs[0], f"{RES}.get('hits') is None", stop=PL_) is not None
        chk.ob("O19.6", f"{fname}: hit total taken from the first page only", ok, hs[0] if hs else PL_, "")

    # ---- O19.7 flags accumulated over pages are sticky -------------------------------------------------------------------------------------------------
    chk.rule("O19.7", "multi-page searches (scroll, search_after, composite): `timed_out` is true if ANY page reported it (a later page can only turn it on), `took` is summed", 5,
             "an earlier page timed out, the last one did not: the reported flag says the search did not time out (a full parse of all pages says it did)")
    from sa import pat as _p7
    Q = rn.cls("Query")
    n7 = 0
    for fn in [n for n in ast.walk(Q) if isinstance(n, (ast.FunctionDef, ast.AsyncFunctionDef))]:
        loops7 = [n for n in walk_body(fn) if isinstance(n, (ast.For, ast.While, ast.AsyncFor))]
        if not loops7:
            continue
        names = {}
        for d_ in [n for n in walk_body(fn) if isinstance(n, ast.Dict)]:
            for k_, v_ in zip(d_.keys, d_.values):
                if isinstance(k_, ast.Constant) and k_.value in ("timed_out", "took") and isinstance(v_, ast.Name):
                    names[v_.id] = k_.value
        for lp in loops7:
            lv = lp.target.id if isinstance(lp, ast.For) and isinstance(lp.target, ast.Name) else None
            for st_ in ast.walk(lp):
                if not isinstance(st_, (ast.Assign, ast.AugAssign)) or source.enclosing_func(st_) is not fn or source.enclosing(st_, (ast.For, ast.While, ast.AsyncFor)) is not lp:
                    continue
                tg = st_.targets[0] if isinstance(st_, ast.Assign) else st_.target
                role = names.get(tg.id) if isinstance(tg, ast.Name) else (tg.slice.value if isinstance(tg, ast.Subscript) and isinstance(tg.slice, ast.Constant) and tg.slice.value in ("timed_out", "took") else None)
                if role is None:
                    continue
                if lv and _p7.guarded(st_, f"{lv} == 0", stop=lp) is not None:
                    continue  # first page: plain initialisation
                n7 += 1
                acc = u(tg)
                if role == "timed_out":
                    v = st_.value
                    sticky = (isinstance(st_, ast.Assign) and isinstance(v, ast.BoolOp) and isinstance(v.op, ast.Or) and any(u(x) == acc for x in v.values)) \
                        or (isinstance(st_, ast.AugAssign) and isinstance(st_.op, ast.BitOr)) \
                        or any(_p7.match(f_, "not E_a") is not None and _p7.match(f_, "not E_a")["a"] == acc for f_ in _p7.fact_nodes(st_, stop=lp)) \
                        or (isinstance(v, ast.Call) and dotted(v.func) in ("max", "any") and acc in u(v))
                    chk.ob("O19.7", f"{fn.name}: timed_out of a later page can only turn the flag on", sticky, st_, short(st_, 80) + ("" if sticky else " — the last page's value replaces an earlier `true`"),
                           key=f"{_R}:Query.{fn.name}:sticky:timed_out")
                else:
                    summed = (isinstance(st_, ast.AugAssign) and isinstance(st_.op, ast.Add)) or (isinstance(st_, ast.Assign) and isinstance(st_.value, ast.BinOp) and isinstance(st_.value.op, ast.Add) and acc in u(st_.value))
                    chk.ob("O19.7", f"{fn.name}: took is summed over the pages", summed, st_, short(st_, 80), key=f"{_R}:Query.{fn.name}:sum:took")
    chk.ob("O19.7", "page accumulators located (scroll, search_after, composite)", n7 >= 5, Q, f"{n7} in-loop store(s)")

    # ---- O19.8 what is read from a selective parse was requested from it ------------------------------------------------------------------------------------
    chk.rule("O19.8", "every key a caller reads from the result of parse(text, props, lists, objects) is among the paths it requested in that call (a path that was not requested is "
             "never extracted: the read silently yields its default while a full parse has the value)", 20,
             "a statistic present in the response (e.g. _shards.skipped) is reported as 0 / absent by the lazy path")
    n8 = 0
    for fn in [n for n in ast.walk(rn.tree) if isinstance(n, (ast.FunctionDef, ast.AsyncFunctionDef))]:
        for asg in [n for n in walk_body(fn) if isinstance(n, ast.Assign) and len(n.targets) == 1 and isinstance(n.targets[0], ast.Name) and isinstance(n.value, ast.Call)
                    and isinstance(n.value.func, ast.Name) and n.value.func.id == "parse" and source.enclosing_func(n) is fn]:
            var = asg.targets[0].id
            fdefs_ = local_defs(fn)
            req = set()
            evaluable = True
            for a_ in asg.value.args[1:] + [k.value for k in asg.value.keywords]:
                try:
                    v_ = ev(source.inline_node(a_, fdefs_, no_calls=True), {})
                    if v_ is not None:
                        req |= set(v_)
                    if isinstance(a_, ast.Name):
                        # a list built up step by step: everything that MAY have been appended / extended counts as requested
                        for m_ in walk_body(fn):
                            if isinstance(m_, ast.Call) and isinstance(m_.func, ast.Attribute) and isinstance(m_.func.value, ast.Name) and m_.func.value.id == a_.id and m_.args:
                                if m_.func.attr == "append":
                                    req.add(ev(source.inline_node(m_.args[0], fdefs_, no_calls=True), {}))
                                elif m_.func.attr == "extend":
                                    req |= set(ev(source.inline_node(m_.args[0], fdefs_, no_calls=True), {}))
                except (CannotEval, TypeError):
                    evaluable = False
            if not evaluable:
                chk.adv("O19.8", f"{fn.name}: the paths requested from parse() are not a literal list (reads of `{var}` not cross-checked)", asg)
                continue
            # reads of var that this assignment reaches: same function, until the name is re-bound by another parse
            others = [n for n in walk_body(fn) if isinstance(n, ast.Assign) and n is not asg and any(isinstance(t, ast.Name) and t.id == var for t in n.targets)]
            gfn = cfg_of(fn)
            for rd_ in walk_body(fn):
                key = None
                if isinstance(rd_, ast.Call) and isinstance(rd_.func, ast.Attribute) and rd_.func.attr == "get" and isinstance(rd_.func.value, ast.Name) and rd_.func.value.id == var and rd_.args and isinstance(rd_.args[0], ast.Constant):
                    key = rd_.args[0].value
                elif isinstance(rd_, ast.Subscript) and isinstance(rd_.value, ast.Name) and rd_.value.id == var and isinstance(rd_.slice, ast.Constant) and isinstance(rd_.ctx, ast.Load):
                    key = rd_.slice.value
                if key is None or not isinstance(key, str):
                    continue
                try:
                    reached = gfn.path_exists(gfn.node_of(asg), gfn.node_of(rd_), avoid=[gfn.node_of(o_) for o_ in others if gfn.node_of(o_) is not gfn.node_of(rd_)])
                except KeyError:
                    continue
                if not reached:
                    continue
                n8 += 1
                chk.ob("O19.8", f"{fn.name}: `{var}[{key!r}]` was requested from the parser", key in req, rd_, "" if key in req else f"requested: {sorted(req)}",
                       key=f"{_R}:{source.qualname(fn)}:requested:{key}")
    chk.ob("O19.8", "selective-parse consumers located", n8 >= 20, rn.tree, f"{n8} keyed read(s)")

    # ---- O19.3 selective parser ------------------------------------------------------------------------------------------------------------------------------
    chk.rule("O19.3", "the selective parser matches requested properties / lists / objects on the full ijson prefix; member keys of a collected object are the prefix with the object's own path "
             "stripped; early exit only when all requested properties, lists and objects were seen; an incomplete document ends the scan silently", 7,
             "a property with the same leaf name at another depth is returned; dotted member keys are mangled; extraction stops before a later requested value")
    pf = rn.func("parse")
    pp = params_of(pf)
    if len(pp) < 4:
        raise AnchorMissing("parse(text, props, lists, objects)")
    loops = [n for n in walk_body(pf) if isinstance(n, ast.For) and isinstance(n.target, ast.Tuple) and len(n.target.elts) == 3 and all(isinstance(t, ast.Name) for t in n.target.elts)]
    if not loops:
        raise AnchorMissing("event loop `for prefix, event, value in parser` in parse()")
    PL = loops[0]
    pre, evn, val = [t.id for t in PL.target.elts]
    from sa import minieval as _me

    def sub_stores(root_=None):
        """in-loop statements `<name>[key] = value` (optionally only those into the local `root_`)."""
        return [n for n in ast.walk(PL) if isinstance(n, ast.Assign) and len(n.targets) == 1 and isinstance(n.targets[0], ast.Subscript) and isinstance(n.targets[0].value, ast.Name)
                and (root_ is None or n.targets[0].value.id == root_)]

    # roles of parse()'s locals, by data flow: RES is the dict it returns; the dicts merged into it at the end are the list flags (values: `event == 'end_array'`) and the collected
    # objects (values: the dict being filled, stored when the object's end_map arrives); INOBJ holds the path of the object being collected (bound from the prefix at its start_map)
    rets = {n.value.id for n in walk_body(pf) if isinstance(n, ast.Return) and isinstance(n.value, ast.Name)}
    RES = rets.pop() if len(rets) == 1 else None
    merged = [n.args[0].id for n in walk_body(pf) if isinstance(n, ast.Call) and RES is not None and _pat.match(n.func, "V_r.update", binds={"r": RES}) is not None and len(n.args) == 1
              and isinstance(n.args[0], ast.Name)]
    lists_v = {m for m in merged if any(_pat.is_(n.value, f"{evn} == 'end_array'") for n in sub_stores(m))}
    objs = {(m, n.value.id) for m in merged for n in sub_stores(m) if isinstance(n.value, ast.Name) and _pat.guarded(n, f"{evn} == 'end_map'", stop=PL) is not None}
    LISTS = lists_v.pop() if len(lists_v) == 1 else None
    OBJS, CUR = objs.pop() if len(objs) == 1 else (None, None)
    inobj = [n.targets[0].id for n in ast.walk(PL) if isinstance(n, ast.Assign) and isinstance(n.targets[0], ast.Name) and isinstance(n.value, ast.Name) and n.value.id == pre
             and _pat.guarded(n, f"{evn} == 'start_map'", stop=PL) is not None]
    INOBJ = inobj[0] if len(set(inobj)) == 1 else None

    st = sub_stores(RES) if RES is not None else []
    ok = len(st) == 1 and _pat.is_(st[0].targets[0], "V_r[V_p]", binds={"r": RES, "p": pre}) and _pat.is_(st[0].value, val) and _pat.guarded(st[0], f"{pre} in {pp[1]}", stop=PL) is not None
    chk.ob("O19.3", "property matched on the full prefix and stored under it", ok, st[0] if st else PL, "" if RES is not None else "the dict returned by parse() could not be identified")
    for kind, param, event in (("list", pp[2], "start_array"), ("object start", pp[3], "start_map"), ("object end", pp[3], "end_map")):
        # some statement of the loop runs exactly under the facts `prefix in <param>` and `event == '<event>'` (any nesting, orientation, arm)
        found = any(isinstance(n, ast.stmt) and _pat.guarded(n, f"{pre} in {param}", stop=PL) is not None and _pat.guarded(n, f"{evn} == '{event}'", stop=PL) is not None for n in ast.walk(PL))
        chk.ob("O19.3", f"{kind} matched on full prefix and event", found, PL, "")
    mk = [n for n in sub_stores(CUR) if _pat.is_(n.value, val)] if CUR is not None else []
    ok = False
    detail = "" if CUR is not None else "the dict collecting the members of the current object could not be identified"
    if mk and INOBJ is not None:
        k = mk[0].targets[0].slice
        detail = u(k)
        k = source.inline_node(k, {n_: d_ for n_, d_ in local_defs(pf).items() if n_ not in (pre, evn, val, INOBJ)})  # a key computed into a single-assignment local first
        try:
            # decided on values: with the object at path o and an event at path o + '.' + member, the key is the member (dots inside the member kept)
            ok = len(mk) == 1 and all(xev(k, {pre: o_ + "." + m_, INOBJ: o_, evn: "string", val: "v"}) == m_ for o_, m_ in
                                      (("aggregations.x.after_key", "k"), ("a", "b.c.d"), ("a", "a.k"), ("a.b", "b"), ("o.k", "k.o.k"), ("ab", "x")))
        except CannotEval:
            ok = len(mk) == 1 and _pat.is_(k, "V_p[len(V_o) + 1:]", "V_p[1 + len(V_o):]", "V_p.removeprefix(V_o + '.')", "V_p[len(V_o) + len('.'):]", "V_p[len(V_o + '.'):]", binds={"p": pre, "o": INOBJ})
    chk.ob("O19.3", "member key == prefix with the object's own path stripped", ok, mk[0] if mk else PL, detail + ("" if ok else " — keys containing '.' are mangled / collide"))
    # member values of a collected object, decided on VALUES: inside object `a`, a scalar event stores its value whatever that value is (null, false, 0, 0.0 and "" included);
    # keys and container events store nothing
    init_env = {}
    for n in pf.body:
        if isinstance(n, ast.Assign) and len(n.targets) == 1 and isinstance(n.targets[0], ast.Name):
            try:
                init_env[n.targets[0].id] = _me.ev(n.value, {})
            except _me.CannotEval:
                pass
    if INOBJ is not None:
        EVENTS = [("null", None, True), ("boolean", False, True), ("boolean", True, True), ("integer", 0, True), ("integer", 7, True), ("double", 0.0, True), ("number", 0, True), ("string", "", True),
                  ("string", "x", True), ("map_key", "k", False), ("start_array", None, False), ("end_array", None, False)]
        for ev_name, v_, stored in EVENTS:
            env_ = dict(init_env)
            env_.update({pre: "a.k", evn: ev_name, val: v_, pp[1]: [], pp[2]: None, pp[3]: ["a"], INOBJ: "a"})

            def atom_p(n, env, env_=env_):
                try:
                    return bool(_me.ev(n, dict(env_)))
                except _me.CannotEval:
                    return None

            try:
                out_ = decide(PL.body, atom_p, {})
            except (Unsupported, UnknownAtom) as e:
                chk.unknown("O19.3", f"the event dispatch of parse() is not a decision over (prefix, event, value): {e}", PL)
                break
            # a store of the event's value into a dict other than the returned one (that one is keyed by the full prefix: the property store)
            got = [e_ for e_ in out_.effects if isinstance(e_, ast.Assign) and isinstance(e_.targets[0], ast.Subscript) and _pat.is_(e_.value, val) and root_name(e_.targets[0]) != RES
                   and not _pat.is_(e_.targets[0].slice, pre)]
            ok = (len(got) == 1) == stored
            chk.ob("O19.3", f"object member: event {ev_name} value {v_!r} -> {'stored' if stored else 'nothing stored'}", ok, PL,
                   ("stored" if got else "not stored") + ("" if ok else " — a falsy member value is dropped, so the extracted object differs from the fully parsed one (e.g. a composite after_key with false / 0 / '')"),
                   key=f"{_R}:parse:member:{ev_name}|{v_!r}")
        # the END of the collected object, on values: the object is stored under its own path and the parser LEAVES the object (otherwise every later scalar of the response is
        # added to it while the scan continues for a property that is absent)
        env_ = dict(init_env)
        env_.update({pre: "a", evn: "end_map", val: None, pp[1]: [], pp[2]: None, pp[3]: ["a"], INOBJ: "a"})

        def atom_e(n, env, env_=env_):
            try:
                return bool(_me.ev(n, dict(env_)))
            except _me.CannotEval:
                return None

        try:
            out_ = decide(PL.body, atom_e, {})
            bnd_ = getattr(out_, "bindings", {})
            left = isinstance(bnd_.get(INOBJ), ast.Constant) and bnd_[INOBJ].value is None
            stores = [e_ for e_ in out_.effects if isinstance(e_, ast.Assign) and isinstance(e_.targets[0], ast.Subscript) and root_name(e_.targets[0]) != RES]
            keyed = False
            if len(stores) == 1:
                try:
                    keyed = _me.ev(stores[0].targets[0].slice, dict(env_)) == "a"
                except _me.CannotEval:
                    keyed = False
            chk.ob("O19.3", "end of the collected object: stored under its own path", keyed, stores[0] if stores else PL, "", key=f"{_R}:parse:object-end:stored")
            chk.ob("O19.3", "end of the collected object: the parser leaves the object (path variable reset)", left, PL,
                   "" if left else f"`{INOBJ}` keeps the object's path after end_map: later scalar members of the response are added to the extracted object", key=f"{_R}:parse:object-end:left")
        except (Unsupported, UnknownAtom) as e:
            chk.unknown("O19.3", f"the end_map dispatch of parse() is not a decision over (prefix, event): {e}", PL)
    else:
        chk.unknown("O19.3", "the variable holding the path of the object being collected could not be identified in parse()", PL)
    brk = [n for n in ast.walk(PL) if isinstance(n, ast.Break)]
    ok = False
    detail = ""
    if len(brk) == 1 and None not in (RES, LISTS, OBJS):
        # decided on values: over requested / seen combinations the loop is left iff every requested property, list and object has been seen
        gs = guards(brk[0], stop=PL)
        want = ["p1", "p2"]
        grid = [(dict.fromkeys(want[:np_], 1), ls_, dict.fromkeys((ls_ or ["l1"])[:nl_], True), os_, dict.fromkeys((os_ or ["o1"])[:no_], {}))
                for np_ in (0, 1, 2) for ls_ in (None, ["l1"], ["l1", "l2"]) for nl_ in range(0, len(ls_ or []) + 1) for os_ in (None, ["o1"], ["o1", "o2"]) for no_ in range(0, len(os_ or []) + 1)]
        ok = bool(gs)
        try:
            for seen_p, ls_, seen_l, os_, seen_o in grid:
                env_ = dict(init_env)
                env_.update({pp[1]: want, pp[2]: ls_, pp[3]: os_, RES: seen_p, LISTS: seen_l, OBJS: seen_o})
                leaves = all(bool(xev(t, dict(env_))) == pol for t, pol in gs)
                complete = len(seen_p) == len(want) and (ls_ is None or len(seen_l) == len(ls_)) and (os_ is None or len(seen_o) == len(os_))
                if leaves != complete:
                    ok = False
                    detail = f"with {len(seen_p)}/{len(want)} properties, {len(seen_l)}/{'-' if ls_ is None else len(ls_)} lists, {len(seen_o)}/{'-' if os_ is None else len(os_)} objects seen the scan {'stops' if leaves else 'continues'}"
                    break
        except CannotEval as e:
            ok = False
            if len(gs) == 1 and gs[0][1] and isinstance(gs[0][0], ast.BoolOp) and isinstance(gs[0][0].op, ast.And):
                conj = gs[0][0].values
                ok = any(_pat.is_(c, f"len({RES}) == len({pp[1]})") for c in conj) and any(_pat.find(c, f"len({LISTS}) == len({pp[2]})") for c in conj) and any(_pat.find(c, f"len({OBJS}) == len({pp[3]})") for c in conj)
            detail = "" if ok else f"exit condition not evaluable: {e}"
    elif len(brk) == 1:
        detail = "the dicts of seen properties / lists / objects could not be identified"
    chk.ob("O19.3", "early exit only when all requested properties, lists and objects were seen", ok, brk[0] if brk else PL, detail)
    tr = source.enclosing(PL, ast.Try)
    ok = tr is not None and len(tr.handlers) == 1 and last_attr(tr.handlers[0].type) == "IncompleteJSONError"
    chk.ob("O19.3", "only an incomplete document is tolerated", ok, tr if tr is not None else PL, "")
    ok = any(isinstance(n, ast.Call) and u(n.func) == f"{pp[0]}.seek" and n.args and source.is_const(n.args[0], 0) for n in walk_body(pf))
    chk.ob("O19.3", "the response is scanned from its start", ok, pf, "")
    # composite agg: after_key path is the full path — the (single) object path handed to parse(), evaluated on a representative aggregation path
    CA = rn.cls("CompositeAggExtractor")
    cc = rn.methods(CA).get("__call__")
    ok = False
    site = CA
    detail = ""
    if cc is not None and len(params_of(cc)) >= 4:
        pathp = params_of(cc)[3]
        cdefs = local_defs(cc)
        pcalls = [n for n in walk_body(cc) if isinstance(n, ast.Call) and dotted(n.func) == "parse"]
        oarg = source.bind_args(pcalls[0], pf).get(pp[3]) if len(pcalls) == 1 else None
        if oarg is not None:
            site = pcalls[0]
            oarg = source.inline_node(oarg, cdefs)
            detail = u(oarg)
            try:
                ok = all(xev(oarg, {pathp: path_}) == ["aggregations." + ".".join(path_) + ".after_key"] for path_ in (["by_day"], ["outer", "inner"], ["a", "b", "c"]))
            except CannotEval:
                ok = isinstance(oarg, ast.List) and len(oarg.elts) == 1 and _pat.is_(oarg.elts[0], "'aggregations.' + '.'.join(V_p) + '.after_key'", binds={"p": pathp})
    chk.ob("O19.3", "composite cursor requested by its full path", ok, site, detail)

from sa.selftest import V  # noqa: E402

_NEW = "            # sort values may contain brackets themselves so only the JSON decoder can tell where the array ends\n            last_sort, _ = self.decoder.raw_decode(response_str, index_of_last_sort + last_sort_str.start(1))\n            return last_sort"
VARIANTS = [
    V("F17: cursor stored after the last allowed page (search_after)", "break", _R, "                if results.get(\"hits\") / size > page and page < total_pages:", "                if results.get(\"hits\") / size > page:", "O19.6"),
    V("F17: cursor stored after the last allowed page (composite)", "break", _R, "                if isinstance(after_key, dict) and page < total_pages:", "                if isinstance(after_key, dict):", "O19.6"),
    V("page limit test written the other way round", "keep", _R, "                if results.get(\"hits\") / size > page and page < total_pages:", "                if total_pages > page and results.get(\"hits\") / size > page:"),
    V("F9a: value cut out by a bracket character class", "break", _R, _NEW, "            return json.loads(re.search(r\"sort\\\":([^\\]]*])\", response_str[index_of_last_sort::]).group(1))", None),
    V("different failure predicate in the fast path", "break", _R, "                if data[\"status\"] > 299 or (\"_shards\" in data and data[\"_shards\"][\"failed\"] > 0):\n                    bulk_error_count += 1\n                    self.extract_error_details(error_details, data)\n                else:\n                    bulk_success_count += 1\n        stats = {\n            \"took\": props.get(\"took\"),",
      "                if data[\"status\"] > 299:\n                    bulk_error_count += 1\n                    self.extract_error_details(error_details, data)\n                else:\n                    bulk_success_count += 1\n        stats = {\n            \"took\": props.get(\"took\"),", "O19.1"),
    V("seed m1: shards test overwrites the status test", "break", _R,
      "            if data[\"status\"] > 299 or (\"_shards\" in data and data[\"_shards\"][\"failed\"] > 0):\n                bulk_error_count += 1\n                self.extract_error_details(error_details, data)\n            else:\n                bulk_success_count += 1\n        stats = {\n            \"took\": response.get(\"took\"),",
      "            failed = data[\"status\"] > 299\n            if \"_shards\" in data:\n                failed = data[\"_shards\"][\"failed\"] > 0\n            if failed:\n                bulk_error_count += 1\n                self.extract_error_details(error_details, data)\n            else:\n                bulk_success_count += 1\n        stats = {\n            \"took\": response.get(\"took\"),", "O19.1"),
    V("status >= 299", "break", _R, "            if data[\"status\"] > 299 or (\"_shards\" in data and data[\"_shards\"][\"failed\"] > 0):\n                bulk_error_count += 1", "            if data[\"status\"] >= 299 or (\"_shards\" in data and data[\"_shards\"][\"failed\"] > 0):\n                bulk_error_count += 1", "O19.1"),
    V("success from took", "break", _R, "            \"took\": props.get(\"took\"),\n            \"success\": bulk_error_count == 0,", "            \"took\": props.get(\"took\"),\n            \"success\": props.get(\"took\") is not None,", "O19.1"),
    V("seed m2: byte offset on the decoded string", "break", _R, "        response_str = response.getvalue().decode(\"UTF-8\")\n        index_of_last_sort = response_str.rfind('\"sort\"')", "        raw = response.getvalue()\n        index_of_last_sort = raw.rfind(b'\"sort\"')\n        response_str = raw.decode(\"UTF-8\")", "O19.2"),
    V("seed m3: member key by last dot", "break", _R, "                current_object[prefix[len(in_object) + 1 :]] = value", "                current_object[prefix.split(\".\")[-1]] = value", "O19.3"),
    V("match on value instead of prefix", "break", _R, "            if prefix in props:\n                parsed[prefix] = value", "            if event == \"map_key\" and value in props:\n                parsed[value] = value", "O19.3"),
    V("early exit on properties only", "break", _R, "                len(parsed) == len(props)\n                and (lists is None or len(parsed_lists) == len(lists))\n                and (objects is None or len(parsed_objects) == len(objects))", "                len(parsed) == len(props)", "O19.3"),
    V("cursor from the request body instead of the response", "break", _R, "                    body[\"search_after\"] = last_sort", "                    body[\"search_after\"] = body.get(\"search_after\", last_sort)", "O19.6"),
    V("composite after key from the previous page", "break", _R, "                after_key = parsed[\"after_key\"]\n                if isinstance(after_key, dict) and", "                after_key = composite_agg_body.get(\"after\") or parsed[\"after_key\"]\n                if isinstance(after_key, dict) and", "O19.6"),
    # preserving
    V("predicate extracted into a local", "keep", _R, "                if data[\"status\"] > 299 or (\"_shards\" in data and data[\"_shards\"][\"failed\"] > 0):\n                    bulk_error_count += 1\n                    self.extract_error_details(error_details, data)\n                else:\n                    bulk_success_count += 1\n        stats = {\n            \"took\": props.get(\"took\"),",
      "                failed = data[\"status\"] > 299 or (\"_shards\" in data and data[\"_shards\"][\"failed\"] > 0)\n                if failed:\n                    bulk_error_count += 1\n                    self.extract_error_details(error_details, data)\n                else:\n                    bulk_success_count += 1\n        stats = {\n            \"took\": props.get(\"took\"),"),
    V("shards test first", "keep", _R, "            if data[\"status\"] > 299 or (\"_shards\" in data and data[\"_shards\"][\"failed\"] > 0):\n                bulk_error_count += 1", "            if (\"_shards\" in data and data[\"_shards\"][\"failed\"] > 0) or data[\"status\"] > 299:\n                bulk_error_count += 1"),
]
